"""K3 helper, runs under /venv/bin/python: compiles schema templates with the REAL pipeline of
the tree under verification and prints the generated sources as JSON.

usage: k3_compile.py <job.json>   job = {"repo": ..., "schemas": [{"id","text","cls","options"}]}
"""
import json
import os
import sys
import traceback


def main():
    job = json.load(open(sys.argv[1]))
    sys.path.insert(0, os.path.join(job['repo'], 'src'))
    for k in list(os.environ):
        if k.upper().startswith('CHAMELEON_'):
            del os.environ[k]
    from chameleon.zpt import template as zt
    out = {}
    for s in job['schemas']:
        cls = getattr(zt, s.get('cls', 'PageTemplate'))
        opts = dict(s.get('options', {}))
        for k, v in list(opts.items()):
            if isinstance(v, dict) and '__set__' in v:
                opts[k] = set(v['__set__'])
        try:
            t = cls(s['text'], keep_source=True, **opts)
            out[s['id']] = {'source': t.source}
        except Exception as e:  # compile-time rejection is a legitimate outcome of a schema
            tok = getattr(e, 'token', None)
            out[s['id']] = {'error': type(e).__name__, 'message': str(e.args[0]) if e.args else '',
                            'mro': [c.__name__ for c in type(e).__mro__],
                            'token': None if tok is None else {
                                's': str.__str__(tok), 'pos': getattr(tok, 'pos', None),
                                'source_is_body': getattr(tok, 'source', None) == s['text']},
                            'trace': traceback.format_exc()[-1500:]}
    json.dump(out, sys.stdout)


if __name__ == '__main__':
    main()
