"""zpt/template.Macros (C09, C16): a macro looked up by name comes from the CURRENT compilation of
its template -- the up-to-date check (cook_check: re-reads a changed file with auto_reload) runs
first, on every lookup, and the render function is fetched after it."""
from pyvc.vc import Contract
from pyvc.values import REC_FIELDS

CONTRACTS = []
MC = "zpt/template.py::Macros"
REC_FIELDS[MC] = {"template": "any"}
EXT = {
    'self.template.cook_check': {'as': 'cook_check', 'raises_any': True},
    'getattr': {'result': 'any', 'raises': ['AttributeError']},
    'Macro': {'result': 'any', 'as': 'Macro'},
}
FIRST = ("ext_index('cook_check') == 0 and ext_index('cook_check', 1) == -1 and "
         "(ext_index('getattr') == -1 or ext_index('getattr') > ext_index('cook_check'))")

CONTRACTS.append(Contract(
    MC + ".__getitem__", params={"self": "rec[%s]" % MC, "name": "str"},
    ensures=[
        FIRST,
        # the function wrapped is the attribute `_render_<name>` (dashes as underscores) the
        # template has AFTER the check
        "ext_index('getattr') != -1 and ext_index('getattr', 1) == -1",
        "ext_call_arg('getattr', 0, 0) is self.template and "
        "ext_call_arg('getattr', 0, 1) == '_render_' + name.replace('-', '_')",
        "ext_index('Macro') > ext_index('getattr') and ext_call_arg('Macro', 0, 0) is ext_call_result('getattr', 0) "
        "and result is ext_call_result('Macro', 0)",
    ],
    raises={'KeyError': {'ensures': [FIRST, "ext_raised_in('getattr')"]},
            '*': {'ensures': ["ext_raised_in('cook_check')", "ext_index('getattr') == -1"]}},
    result="any",
    ghost={'externals': EXT},
    serves=["C09", "C16"],
    notes="cook_check / getattr / Macro are events of the ghost trace"))
