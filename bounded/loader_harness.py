"""Concrete demonstration harness for ModuleLoader.build (C15): runs the REAL build() with
os.rename wrapped so that the state of the temporary file at the moment of the rename is
observed (a crash right after the rename leaves exactly that on disk under the final name)."""
import os
import shutil
import tempfile

_state = {}


def build_crashpoints(self, source, filename):
    from chameleon import loader
    d = tempfile.mkdtemp(prefix='pyvc-cache-')
    ml = loader.ModuleLoader(d)
    real_rename = os.rename
    obs = {}

    def rename(a, b):
        obs['size_at_rename'] = os.path.getsize(a)
        real_rename(a, b)
        obs['final_size_right_after'] = os.path.getsize(b)
    os.rename = rename
    try:
        try:
            ml.build(source, filename)
        except BaseException as e:  # noqa
            obs['raised'] = repr(e)
        name = os.path.join(d, os.path.splitext(filename)[0] + '.py')
        obs['final_size'] = os.path.getsize(name) if os.path.exists(name) else None
    finally:
        os.rename = real_rename
        shutil.rmtree(d, ignore_errors=True)
    _state.clear()
    _state.update(obs)
    return obs


def gen_build_cases():
    for src in ('x = 1\n', 'def initialize():\n    return {}\n' * 3):
        yield ({'self': None, 'source': src, 'filename': 'm%d.py' % len(src)}, {})


# concrete versions of the trace primitives: only the crash-point observation is available
def ext_names():
    raise NotImplementedError


def complete_at_rename():
    return _state.get('size_at_rename') == _state.get('final_size')
