"""Symbolic versions of the spec primitives (see spec/prim_concrete.py)."""
import z3

from .values import VBool, VStr, VToken, VAny, Val, TokenSort, truth, Unsupported


def p_text(I, args, kwargs, node):
    v = args[0]
    if isinstance(v, (VStr, VToken)):
        return VStr(v.t)
    if isinstance(v, VAny):
        return VStr(z3.If(Val.is_tok(v.t), TokenSort.s(Val.t(v.t)), Val.s(v.t)))
    raise Unsupported('text(%r)' % (v,))


def p_implies(I, args, kwargs, node):
    return VBool(z3.Implies(truth(args[0]), truth(args[1])))


PRIMS = {'text': p_text, 'implies': p_implies}
