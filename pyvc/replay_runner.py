"""Concrete replay of a counterexample (or a directed small-scope search) against the REAL
function, with the run-time form of the same contract.  Runs under /venv/bin/python
(the interpreter the test-suite uses); no z3 here.

usage: replay_runner.py <job.json>     (job written by pyvc.replay)
prints one JSON object: {"verdict": "violates"|"holds"|"pre-false"|"error", ...}
"""
import ast
import copy
import importlib
import itertools
import json
import os
import sys


def build(v, Token):
    k = v['k']
    if k in ('int', 'bool', 'str'):
        return v['v']
    if k == 'bytes':
        return v['v'].encode('latin-1')
    if k == 'none':
        return None
    if k == 'token':
        return Token(v['s'], v['pos'], build(v['source'], Token), build(v['filename'], Token))
    if k == 'slice':
        return slice(build(v['start'], Token), build(v['stop'], Token))
    if k == 'tuple':
        return tuple(build(i, Token) for i in v['items'])
    if k == 'list':
        return [build(i, Token) for i in v['items']]
    if k == 'rec':
        from spec import builders
        def plain(x):
            return {f: plain(y) for f, y in x['fields'].items()} if x.get('k') == 'rec' else build(x, Token)
        return builders.build_rec(v['cls'], {f: plain(x) for f, x in v['fields'].items()})
    if k == 'py':
        return eval(v['expr'], {'Token': Token})
    raise ValueError('cannot build %r' % (v,))


def describe(x):
    if type(x).__name__ in ('Hostile', 'IntSub', 'FloatSub', 'StrSub', 'Html'):
        return '%s(str=%r)' % (type(x).__name__, str(x))
    if type(x).__name__ == 'Token':
        return 'Token(%r, pos=%r, source=%r, filename=%r)' % (str.__str__(x), x.pos, x.source, x.filename)
    if isinstance(x, (list, tuple)):
        return type(x)(describe(i) for i in x).__repr__()
    if isinstance(x, slice):
        return 'slice(%r, %r)' % (x.start, x.stop)
    return repr(x)


class OldRewriter(ast.NodeTransformer):
    def visit_Call(self, node):
        self.generic_visit(node)
        if isinstance(node.func, ast.Name) and node.func.id == 'old':
            return ast.Call(func=ast.Name('__old_eval', ast.Load()),
                            args=[ast.Constant(ast.unparse(node.args[0]))], keywords=[])
        return node


def ceval(text, env, old_env, specns):
    tree = ast.parse(text.strip(), mode='eval')
    tree = ast.fix_missing_locations(OldRewriter().visit(tree))
    g = dict(specns)
    g.update(env)
    g['__old_eval'] = lambda t: eval(compile(ast.parse(t, mode='eval'), '<old>', 'eval'),
                                     dict(specns, **old_env))
    return eval(compile(tree, '<contract>', 'eval'), g)


def resolve(target):
    relfile, qual = target.split('::')
    qual = qual.split('@')[0]          # 'f@variant': a second contract on f
    modname = 'chameleon.' + relfile[:-3].replace('/', '.')
    mod = importlib.import_module(modname)
    obj = mod
    owner = None
    for part in qual.split('.'):
        owner = obj
        obj = owner.__dict__[part] if isinstance(owner, type) and part in owner.__dict__ \
            else getattr(owner, part)
    if isinstance(obj, property):
        return obj.fget
    if isinstance(obj, (staticmethod, classmethod)):
        return obj.__func__
    if hasattr(obj, 'function') and type(obj).__name__ in ('descriptorint', 'descriptorstr'):
        return obj.function
    return obj


UNEVALUABLE = {}


def run_once(job, func, args, specns):
    """-> (verdict, detail)"""
    names = list(job['params'])
    env = dict(zip(names, args))
    env.update(job.get('_extra_env', {}))
    try:
        old_env = copy.deepcopy(env)
    except Exception:
        old_env = dict(env)
    for r in job.get('requires', []):
        try:
            if not ceval(r, env, old_env, specns):
                return 'pre-false', {'clause': r}
        except Exception as e:
            return 'pre-false', {'clause': r, 'error': repr(e)}
    try:
        gp = job.get('ghost_params', [])    # ghost parameters exist in the contract only
        result = func(*[env[n] for n in names if n not in gp])
        raised = None
    except BaseException as e:  # noqa
        result, raised = None, e
    if raised is not None:
        mro = [k.__name__ for k in type(raised).__mro__]
        spec = None
        for en, sp in job.get('raises', {}).items():
            if en in mro:
                spec = sp
                break
        if spec is None and '*' in job.get('raises', {}):
            spec, en = job['raises']['*'], '*'
        if spec is None:
            return 'violates', {'clause': 'no %s may escape' % type(raised).__name__,
                                'observed': 'raised %r' % (raised,)}
        env2 = dict(env, exc=raised)
        if spec.get('when'):
            if not ceval(spec['when'], env2, old_env, specns):
                return 'violates', {'clause': 'raises %s only when %s' % (en, spec['when']),
                                    'observed': 'raised %r' % (raised,)}
        for e in spec.get('ensures', []):
            try:
                ok = ceval(e, env2, old_env, specns)
            except NotImplementedError:
                continue    # the harness declares this observation unavailable
            except Exception as ex:
                # a clause that cannot be evaluated concretely says nothing -- but it is counted,
                # so that a blind harness shows up in the evidence
                UNEVALUABLE[e] = repr(ex)
                continue
            if not ok:
                tok = getattr(raised, 'token', None)
                return 'violates', {'clause': e, 'observed': 'raised %r token=%s' % (raised, describe(tok))}
        return 'holds', {}
    env2 = dict(env, result=result)
    for en, sp in job.get('raises', {}).items():
        if sp.get('iff') and sp.get('when'):
            if ceval(sp['when'], env2, old_env, specns):
                return 'violates', {'clause': 'must raise %s when %s' % (en, sp['when']),
                                    'observed': 'returned %s' % describe(result)}
    for e in job.get('ensures', []):
        try:
            ok = ceval(e, env2, old_env, specns)
        except NotImplementedError:
            continue        # the harness declares this observation unavailable
        except Exception as ex:
            # a clause that cannot be evaluated concretely says nothing about the code -- but it
            # is counted, so that a blind harness shows up in the evidence
            UNEVALUABLE[e] = repr(ex)
            continue
        if not ok:
            return 'violates', {'clause': e, 'observed': 'result = %s' % describe(result)}
    return 'holds', {}


def gen_values(ty, hints, Token):
    """small-scope value generator for a parameter type string"""
    alpha = hints.get('alphabet', 'a ;')
    maxlen = hints.get('maxlen', 3)
    ty = ty.strip()
    if ty == 'int':
        return list(range(hints.get('int_lo', -1), hints.get('int_hi', 4) + 1))
    if ty == 'bool':
        return [False, True]
    if ty == 'str':
        out = []
        for n in range(maxlen + 1):
            for t in itertools.product(alpha, repeat=n):
                out.append(''.join(t))
        return out
    if ty == 'bytes':
        return [s.encode('latin-1') for s in gen_values('str', hints, Token)]
    if ty == 'none':
        return [None]
    if ty.startswith('opt['):
        return [None] + gen_values(ty[4:-1], hints, Token)
    if ty == 'Token':
        out = []
        srcs = gen_values('str', dict(hints, maxlen=hints.get('src_maxlen', maxlen + 1)), Token)
        for src in srcs:
            for pos in range(len(src) + 1):
                for n in range(len(src) - pos + 1):
                    out.append(Token(src[pos:pos + n], pos, src, 'f'))
        if hints.get('unanchored', True):
            out.append(Token('a', 0, None, ''))
            out.append(Token('a', 5, 'zzz', ''))
        return out
    if ty == 'slice':
        rng = [None] + list(range(-1, 4))
        return [slice(a, b) for a in rng for b in rng]
    if ty.startswith('rec['):
        from spec import builders
        return builders.gen_rec(ty[4:-1], hints)
    if ty.startswith('tuple['):
        parts = split_top(ty[6:-1])
        return [tuple(t) for t in itertools.product(*[gen_values(p, hints, Token) for p in parts])]
    raise ValueError('no generator for type %s' % ty)


def split_top(s):
    parts, depth, cur = [], 0, ''
    for ch in s:
        if ch == '[':
            depth += 1
        if ch == ']':
            depth -= 1
        if ch == ',' and depth == 0:
            parts.append(cur)
            cur = ''
        else:
            cur += ch
    if cur.strip():
        parts.append(cur)
    return parts


def main():
    job = json.load(open(sys.argv[1]))
    sys.path.insert(0, os.path.join(job['repo'], 'src'))
    sys.path.insert(0, job['verif'])
    from chameleon.tokenize import Token
    specns = {}
    for m in job.get('spec_modules', ['spec.core', 'spec.repeat']):
        mod = importlib.import_module(m)
        specns.update({k: v for k, v in vars(mod).items() if not k.startswith('__')})
    specns['Token'] = Token
    hm = None
    if job.get('harness'):
        hm = importlib.import_module(job['harness'])
        func = getattr(hm, job['harness_func'])
        for k, v in vars(hm).items():
            # concrete versions of contract primitives provided by the harness
            if callable(v) and not k.startswith('_') and k not in (job['harness_func'], 'setup') \
                    and not k.startswith('gen_') and getattr(v, '__module__', None) == hm.__name__:
                specns[k] = v
    else:
        func = resolve(job['target'])
    names = list(job['params'])
    out = {'target': job['target']}
    if job['mode'] == 'replay':
        try:
            args = [build(job['inputs'][n], Token) for n in names]
            job['_extra_env'] = {k: build(v, Token) for k, v in job['inputs'].items()
                                 if k not in names}
        except Exception as e:
            print(json.dumps({'verdict': 'pre-false', 'detail': {'unbuildable': repr(e)}}))
            return
        verdict, detail = run_once(job, func, args, specns)
        out.update(verdict=verdict, detail=detail, inputs={n: describe(a) for n, a in zip(names, args)})
    elif job.get('search', {}).get('generator'):
        gm, gf = job['search']['generator']
        gen = getattr(importlib.import_module(gm), gf)
        tried = pre_ok = 0
        out.update(verdict='holds', detail={})
        for envd, setup in gen():
            tried += 1
            if hm is not None and hasattr(hm, 'setup'):
                hm.setup(**setup)
            job['_extra_env'] = {k: v for k, v in envd.items() if k not in names}
            args = [envd[n] for n in names]
            verdict, detail = run_once(job, func, args, specns)
            if verdict != 'pre-false':
                pre_ok += 1
            if verdict == 'violates':
                out.update(verdict='violates', detail=detail,
                           inputs=dict({n: describe(a) for n, a in envd.items()}, __setup=repr(setup)))
                break
        out['tried'] = tried
        out['pre_ok'] = pre_ok
    else:  # search
        hints = job.get('search', {})
        budget = hints.get('budget', 200000)
        domains = []
        for n in names:
            if n in hints.get('values', {}):
                domains.append([eval(e, {'Token': Token}) for e in hints['values'][n]])
            else:
                domains.append(gen_values(job['params'][n], hints, Token))
        tried = 0
        pre_ok = 0
        out.update(verdict='holds', detail={})
        for args in itertools.product(*domains):
            tried += 1
            if tried > budget:
                break
            verdict, detail = run_once(job, func, [copy.copy(a) if type(a).__name__ == 'RepeatItem'
                                                   else copy.deepcopy(a) for a in args], specns)
            if verdict != 'pre-false':
                pre_ok += 1
            if verdict == 'violates':
                out.update(verdict='violates', detail=detail,
                           inputs={n: describe(a) for n, a in zip(names, args)},
                           inputs_py=[describe(a) for a in args])
                break
        out['tried'] = tried
        out['pre_ok'] = pre_ok
    if UNEVALUABLE:
        out['unevaluable_clauses'] = {k: v for k, v in list(UNEVALUABLE.items())[:8]}
    print(json.dumps(out))


if __name__ == '__main__':
    try:
        main()
    except Exception as e:
        import traceback
        print(json.dumps({'verdict': 'error', 'detail': {'error': traceback.format_exc()}}))
