"""exc.ExceptionFormatter.__call__ (C12): "whose message names exactly the failing expression's
text together with the line and column at which that text stands in its template, followed by the
enclosing template/macro call sites from innermost to outermost".

BLOCK contract on `out = []; for error in self._errors: ...` (the rest of the method formats the
argument list and the original message).  The loop is verified by its per-iteration contract: an
iteration appends -- after an optional two-line stream excerpt for a UnicodeDecodeError, and before
optional source-excerpt lines -- exactly the three lines naming ITS record's expression, file and
(line, column), and leaves everything appended before untouched.  Since the loop does nothing but
append (checked syntactically by the abstract-loop rule: only the listed calls), the blocks stand
in the order of `_errors`, which render functions fill from the innermost failing site outwards
(K3 schemas: the function-level handler appends to rcontext['__error__'] while the exception
propagates)."""
from pyvc.vc import Contract
from pyvc.values import REC_FIELDS

CONTRACTS = []
EF = "exc.py::ExceptionFormatter"
REC_FIELDS[EF] = {"_errors": "seq[any]", "_kwargs": "any", "_value_repr": "any"}
EXT = {
    'ellipsify': {'result': 'str', 'function': True},
    'open': {'result': 'any', 'raises': ['OSError']},
    'iter': {'result': 'any'},
    'iter_source_marker_lines': {'result': 'seq[str]', 'as': 'marker_lines'},
    'f.close': {'result': 'none', 'as': 'close'},
    'safe_native': {'result': 'str', 'function': True},
    'compute_source_marker': {'result': 'tuple[str,str]', 'as': 'csm'},
}
N0 = "len(iter_old('out'))"
L1 = "' - Expression: \"%s\"' % iter_item(0)[0]"
L2 = "' - Filename:   %s' % (env('ellipsify', 'str', iter_item(0)[3], 60) if iter_item(0)[3] else '<string>')"
L3 = "' - Location:   (line %d: col %d)' % (iter_item(0)[1], iter_item(0)[2])"

CONTRACTS.append(Contract(
    EF + ".__call__@records", params={"self": "rec[%s]" % EF},
    ensures=[],
    loops={2: {'abstract': {'calls': ['isinstance', 'safe_native', 'compute_source_marker', 'append', 'ellipsify',
                                      'startswith', 'open', 'iter_source_marker_lines', 'iter', 'extend', 'close'],
                            'types': {'out': 'seq[str]'}},
               'step': {'types': ['tuple[str,int,int,opt[str],any]'],
                        'requires': ["not isinstance(iter_item(0)[4], UnicodeDecodeError)"],
                        'ensures': [
                            "len(out) >= %s + 3" % N0,
                            "out[:%s] == iter_old('out')" % N0,
                            "out[%s] == %s" % (N0, L1),
                            "out[%s + 1] == %s" % (N0, L2),
                            "out[%s + 2] == %s" % (N0, L3),
                        ]}}},
    raises={'*': {'ensures': ["True"]}},
    result="none", serves=["C12"],
    ghost={'externals': EXT, 'stmt_range': ('out = []', 2), 'block_locals': {'formatted_args': 'seq[str]'}},
    notes="BLOCK contract (`out = []` and the record loop that follows it); per-iteration contract of the record loop; "
          "UnicodeDecodeError records (two extra stream lines in front) are outside the step's precondition"))
