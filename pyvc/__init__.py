"""pyvc -- a small contract-based deductive verifier for a subset of Python.

The verified text is always re-extracted from /repo's working tree (or from code
the real compiler emits); contracts live in sidecar files under /verif/contracts
and /verif/schemas.  See /verif/DESIGN.md sections 2 and 3.
"""
