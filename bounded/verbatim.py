"""B-VERBATIM / B-TAG (bounded stand-in, never counted as proved): statement-free documents render
to themselves, and the two regex layers (lexer / tag dissection) lose nothing.

Runs under /venv/bin/python.  usage: verbatim.py <repo> <maxlen> <seed> -> one JSON line."""
import itertools
import json
import os
import random
import sys


def docs_grammar(rnd, n):
    """tag-soup documents with randomised lexical detail"""
    names = ['a', 'DIV', 'x:y', 'p1', 'b-c']
    def attr():
        nm = rnd.choice(['k', 'CLASS', 'data-x', 'x:k', 'k2', 'caf\u00e9', 'cafe\u0301', 'a\u00b7b', '@e', '\u4e2d'])
        sp = rnd.choice([' ', '  ', '\n ', '\t'])
        form = rnd.randrange(5)
        if form == 0:
            return sp + nm
        eq = rnd.choice(['=', ' = ', '= ', ' ='])
        if form == 1:
            return sp + nm + eq + '"' + rnd.choice(['v', '', 'a b', "it's", '&amp;', '>']) + '"'
        if form == 2:
            return sp + nm + eq + "'" + rnd.choice(['v', '', 'a "b"', '&lt;']) + "'"
        # unquoted values (HTML): anything but white space, quotes, '=', '<', '>' and a back-tick
        return sp + nm + eq.strip() + rnd.choice(['v', '1', 'a-b', '/v', 'a/b', 'http://h/p/', '#x', 'a.b:c'])
    def elem(depth):
        nm = rnd.choice(names)
        attrs = ''.join(attr() for _ in range(rnd.randrange(3)))
        tail = rnd.choice(['', ' ', '\n'])
        kind = rnd.randrange(4)
        if kind == 0:
            return '<%s%s%s/>' % (nm, attrs, tail)
        inner = ''.join(part(depth + 1) for _ in range(rnd.randrange(3))) if depth < 2 else 't'
        if kind == 1:
            return '<%s%s%s>%s' % (nm, attrs, tail, inner)           # unclosed
        # (a differently-cased end tag does not close the element: ParseError or tag soup)
        close = nm if rnd.randrange(6) else nm.swapcase()
        # (text after the name of an end tag is not markup the dissection keeps: such a document is
        # rejected, never rendered without it)
        return '<%s%s%s>%s</%s%s>' % (nm, attrs, tail, inner, close,
                                      rnd.choice(['', '', ' ', '\n', ' junk', ' k="v"', '\tnowrap ']))
    def part(depth):
        k = rnd.randrange(8)
        if k == 0:
            return rnd.choice(['text', ' ', 'a &amp; b', '&#160;', 'éè', 'x > y', "q'\""])
        if k == 1:
            return '<!-- c -->'
        if k == 2:
            return '<![CDATA[ <x> & ]]>'
        if k == 3:
            return '<?pi data?>'
        return elem(depth)
    out = []
    for _ in range(n):
        d = rnd.choice(['', '<!DOCTYPE html>\n', '<?xml version="1.0"?>\n']) + \
            ''.join(part(0) for _ in range(rnd.randrange(1, 4)))
        out.append(d)
    return out


def main():
    repo, maxlen, seed = sys.argv[1], int(sys.argv[2]), int(sys.argv[3])
    sys.path.insert(0, os.path.join(repo, 'src'))
    for k in list(os.environ):
        if k.upper().startswith('CHAMELEON_'):
            del os.environ[k]
    from chameleon import PageTemplate
    from chameleon.exc import TemplateError
    from chameleon.tokenize import iter_xml
    alphabet = '<>/="\' aA1:-!'
    rnd = random.Random(seed)
    cases = distinct = 0
    seen = set()
    bad = None
    crashes = []
    misplaced = []

    def check(s, origin):
        nonlocal cases, distinct, bad
        cases += 1
        if s in seen:
            return
        seen.add(s)
        toks = list(iter_xml(s))
        pos = 0
        for t in toks:
            if t.pos != pos or s[t.pos:t.pos + len(t)] != t or not len(t):
                bad = {'body': s, 'what': 'tokens do not tile the input: %r' % ([(str(t), t.pos) for t in toks],)}
                return
            pos += len(t)
        if pos != len(s):
            bad = {'body': s, 'what': 'tokens stop at %d of %d' % (pos, len(s))}
            return
        if '${' in s or '$$' in s or '<!--!' in s or '<?python' in s:
            return
        try:
            t = PageTemplate(s)
        except TemplateError as e:
            # rejected with a proper template error: not B-VERBATIM's business, but C11's -- the
            # token must be exactly the offending substring of THIS source
            tok = getattr(e, 'token', None)
            if tok is None or not hasattr(tok, 'pos') or s[tok.pos:tok.pos + len(tok)] != tok:
                misplaced.append((s, '%s: token %r at offset %r, source there: %r' % (
                    type(e).__name__, None if tok is None else str.__str__(tok), getattr(tok, 'pos', None),
                    None if tok is None or not hasattr(tok, 'pos') else s[tok.pos:tok.pos + len(tok)])))
            return
        except Exception as e:          # noqa
            crashes.append((s, repr(e)))   # not "a document that compiles": C11's business
            return
        distinct += 1
        try:
            out = t()
        except Exception as e:  # noqa
            bad = {'body': s, 'what': 'render raised %r' % (e,)}
            return
        want = s if s.startswith('<?xml') else s.replace('\r\n', '\n').replace('\r', '\n')
        if out != want:
            bad = {'body': s, 'what': 'rendered %r' % (out,), 'origin': origin}

    for n in range(1, maxlen + 1):
        for t in itertools.product(alphabet, repeat=n):
            check(''.join(t), 'exhaustive')
            if bad:
                break
        if bad:
            break
    if not bad:
        # tag soup: elements left open and closed implicitly by an enclosing end tag, stray end tags
        soup = []
        for a in ('div', 'p', 'ul'):
            for b in ('p', 'li', 'span'):
                for mid in ('', 'text', '<br>', '<span>x</span>'):
                    soup.append('<%s><%s>a</%s>%s</%s>' % (a, b, a, mid, b))
                    soup.append('<%s><%s>a</%s>%s' % (a, b, a, mid))
        soup += ['<ul><li>a<ul><li>b</ul></li></ul>', '<p><div><p>x</div></p>', '<a><b><c>x</a>y</c>z</b>']
        for d in soup:
            check(d, 'soup')
            if bad:
                break
    if not bad:
        # tags the dissection cannot read (unterminated quotes, '=' without a value): compiled
        # verbatim or rejected with a TemplateError, never a crash
        for nm in ('p', 'td', 'x:y'):
            for a in (' t="x', " t='x", ' x= ', ' x=/', ' k="v" t="x', ' t=""x"', ' t=\'\'\''):
                for end in ('>', '/>', ' >'):
                    check('<%s%s%s' % (nm, a, end) + ('text</%s>' % nm if end != '/>' else ''), 'malformed')
                    if bad:
                        break
    if not bad:
        for d in docs_grammar(rnd, 1500 if maxlen <= 4 else 6000):
            check(d, 'grammar')
            if bad:
                break
    print(json.dumps({'cases': cases, 'distinct': distinct, 'violation': bad,
                      'non_template_errors': crashes[:5], 'n_non_template_errors': len(crashes),
                      'misplaced_errors': misplaced[:5], 'n_misplaced_errors': len(misplaced),
                      'unexpected_crashes': [c for c in crashes if 'Undefined namespace prefix' not in c[1]][:5],
                      'bound': 'all strings over %r up to length %d + grammar documents (seed %d)'
                               % (alphabet, maxlen, seed)}))


if __name__ == '__main__':
    main()
