"""Engine side of counterexample replay / directed search (DESIGN.md 3.2)."""
from __future__ import annotations

import json
import os
import subprocess
import tempfile

VERIF = os.path.dirname(os.path.dirname(os.path.abspath(__file__)))
REPO = os.environ.get('VERIF_REPO', '/repo')
PY = os.environ.get('VERIF_PYTHON', '/venv/bin/python')


def merged_raises(contract):
    """exceptional postconditions plus the clauses stated against the real code only
    (ghost `concrete_raises`: {exception name: [clauses]})"""
    rz = {k: dict(v) for k, v in contract.raises.items()}
    for en, clauses in contract.ghost.get('concrete_raises', {}).items():
        spec = rz.setdefault(en, {})
        spec['ensures'] = list(spec.get('ensures', [])) + list(clauses)
    return rz


def job_for(contract, mode, inputs=None):
    job = {
        'repo': REPO, 'verif': VERIF, 'target': contract.target, 'mode': mode,
        'params': dict(contract.params), 'requires': list(contract.requires),
        'ghost_params': list((contract.ghost or {}).get('ghost_params', [])),
        # clauses stated against an independent executable specification: evaluated on the real code
        # only (the symbolic side cannot run the specification)
        'ensures': list(contract.ensures) + list(contract.ghost.get('concrete_ensures', [])),
        'raises': merged_raises(contract),
        'spec_modules': contract.ghost.get('spec_modules', ['spec.core', 'spec.repeat']),
        'search': contract.ghost.get('search', {}),
    }
    if contract.ghost.get('harness'):
        job['harness'], job['harness_func'] = contract.ghost['harness']
    if inputs is not None:
        job['inputs'] = inputs
    return job


def run_job(job, timeout=300):
    fd, path = tempfile.mkstemp(prefix='pyvc-job-', suffix='.json')
    try:
        with os.fdopen(fd, 'w') as f:
            json.dump(job, f)
        env = dict(os.environ)
        env.pop('PYTHONPATH', None)
        p = subprocess.run([PY, os.path.join(VERIF, 'pyvc', 'replay_runner.py'), path],
                           capture_output=True, text=True, timeout=timeout, env=env)
        line = [ln for ln in p.stdout.strip().split('\n') if ln.startswith('{')]
        if not line:
            return {'verdict': 'error', 'detail': {'stdout': p.stdout[-2000:], 'stderr': p.stderr[-2000:]}}
        return json.loads(line[-1])
    except subprocess.TimeoutExpired:
        return {'verdict': 'error', 'detail': {'error': 'replay timeout'}}
    finally:
        try:
            os.unlink(path)
        except OSError:
            pass


def replay(contract, inputs):
    if any(v.get('k') in ('opaque', 'obj') for v in inputs.values()):
        return {'verdict': 'error', 'detail': {'error': 'inputs not reifiable'}}
    return run_job(job_for(contract, 'replay', inputs))


def search(contract):
    if contract.ghost.get('k3'):
        return k3_search(contract)
    return run_job(job_for(contract, 'search'), timeout=600)


def k3_search(contract, budget=3000):
    """instantiate the schema's holes and probes from the catalogues and check the same
    contract strings concretely on the real compiler + runtime"""
    spec = contract.ghost.get('spec', {})
    job = {'repo': REPO, 'verif': VERIF, 'template': contract.ghost['template'],
           'options': contract.ghost.get('options', {}), 'cls': spec.get('cls', 'PageTemplate'),
           'ensures': list(contract.ensures), 'raises': contract.raises,
           'loops': {str(k): {'lemmas': v.get('lemmas', [])} for k, v in contract.loops.items()},
           'own_names': spec.get('own_names', []), 'budget': budget,
           'children': spec.get('children'), 'probe_values': spec.get('probe_values'),
           'seed': int(os.environ.get('VERIF_SEED', '0') or 0)}
    fd, path = tempfile.mkstemp(prefix='pyvc-k3job-', suffix='.json')
    try:
        with os.fdopen(fd, 'w') as f:
            json.dump(job, f)
        env = dict(os.environ)
        env.pop('PYTHONPATH', None)
        p = subprocess.run([PY, os.path.join(VERIF, 'bounded', 'k3_harness.py'), path],
                           capture_output=True, text=True, timeout=900, env=env)
        line = [ln for ln in p.stdout.strip().split('\n') if ln.startswith('{')]
        if not line:
            return {'verdict': 'error', 'detail': {'stdout': p.stdout[-2000:], 'stderr': p.stderr[-2000:]}}
        return json.loads(line[-1])
    except subprocess.TimeoutExpired:
        return {'verdict': 'error', 'detail': {'error': 'k3 search timeout'}}
    finally:
        try:
            os.unlink(path)
        except OSError:
            pass
