"""Contracts for template.py: BaseTemplateFile.cook_check / _set_filename, BaseTemplate.cook
(C16, C14).  The file system is an uninterpreted oracle: mtime() and read() are external
contracts; histories are covered because the representation invariant is re-established by
every public operation."""
from pyvc.vc import Contract
from pyvc.values import REC_FIELDS

CONTRACTS = []
TF = "template.py::BaseTemplateFile"
REC_FIELDS[TF] = {"auto_reload": "bool", "_v_last_read": "opt[int]", "_cooked": "bool",
                  "filename": "str"}
SELF = {"self": "rec[%s]" % TF}


def C(*a, **k):
    c = Contract(*a, **k)
    CONTRACTS.append(c)
    return c


C(TF + ".mtime", params=SELF, result="int", kind="axiom",
  notes="external: modification time of the file (uninterpreted; floats compared only for equality)")
C(TF + ".read", params=SELF, result="str", kind="axiom",
  notes="external: current content of the file")
C(TF + ".cook", params={"self": "rec[%s]" % TF, "body": "str"},
  modifies=["self._cooked"], ensures=["self._cooked"], kind="assumed-here",
  notes="BaseTemplate.cook sets _cooked last (verified separately: cook.publication_order)")

C(TF + ".cook_check", params=SELF,
  ensures=[
      # afterwards the instance is compiled
      "self._cooked",
      # not recompiled (and not even read) while the file is unchanged
      "not (old(self._cooked) and (not self.auto_reload or "
      "(old(self._v_last_read) is not None and call_result('mtime', 0) == old(self._v_last_read))))"
      " or (called('cook') == 0 and called('read') == 0 and result == False)",
      # recompiled from the file's current content whenever it changed or was never compiled
      "not (not old(self._cooked) or (self.auto_reload and "
      "(old(self._v_last_read) is None or call_result('mtime', 0) != old(self._v_last_read))))"
      " or (called('cook') == 1 and called('read') == 1 and result == True "
      "and call_arg('cook', 0, 'body') == call_result('read', 0))",
      # with auto_reload the remembered time is the one just observed
      "not self.auto_reload or (self._v_last_read is not None and "
      "self._v_last_read == call_result('mtime', 0))",
      "self.auto_reload or called('mtime') == 0",
  ],
  result="bool", serves=["C16"])
