"""Discharge of verification conditions with external solver processes.

Measured in this sandbox: the in-process z3 API is unstable on string queries (identical
query: 0.01 s in a fresh process, `unknown` after 10 s in a long-lived one), while a fresh
`z3-new` process per query is fast and stable, and cvc5 decides most of what z3 leaves
open.  So every VC is serialised to SMT-LIB text and handed to solver processes:
    z3-new (5.1.0)  ->  cvc5 --strings-exp  ->  /usr/bin/z3 (4.8.12)
`sat`/`unsat` from any of them is definitive; in the thorough tier z3 and cvc5 are both
run on every VC and a sat/unsat disagreement is a checker error.
"""
from __future__ import annotations

import os
import re
import shutil
import subprocess
import tempfile
import time
from concurrent.futures import ThreadPoolExecutor

import z3

Z3NEW = shutil.which('z3-new') or '/usr/local/bin/z3-new'
Z3OLD = '/usr/bin/z3'
CVC5 = '/usr/bin/cvc5'

CVC5_UNSUPPORTED = ('seq.last_indexof', 'seq.map', 'seq.foldl', 'str.from_code_z3')


def query_text(o):
    s = z3.Solver()
    for c in o.pc:
        s.add(c)
    if o.expect == 'valid':
        s.add(z3.Not(o.goal))
    else:
        s.add(o.goal)
    return '(set-logic ALL)\n' + s.to_smt2()


def _run(cmd, timeout):
    t0 = time.time()
    try:
        p = subprocess.run(cmd, capture_output=True, text=True, timeout=timeout)
        out = p.stdout
    except subprocess.TimeoutExpired as e:
        out = (e.stdout or b'').decode() if isinstance(e.stdout, bytes) else (e.stdout or '')
        out = 'timeout\n' + out
    return out, time.time() - t0


def _verdict(out):
    if 'invalid model' in out:
        # z3 run with model_validate=true: it answered sat but its own model does not satisfy the
        # assertions (seen with z3 5.1 on seq.nth / str.from_int queries) -- not an answer
        return 'unknown'
    for line in out.split('\n'):
        line = line.strip()
        if line in ('sat', 'unsat', 'unknown', 'timeout'):
            return line
        if line.startswith('(error'):
            return 'error'
    return 'unknown'


def run_z3(path, timeout_s, binary=Z3NEW, model=False):
    out, dt = _run([binary, '-T:%d' % timeout_s, 'model_validate=true', path], timeout_s + 5)
    return _verdict(out), out, dt


def run_cvc5(path, timeout_s):
    out, dt = _run([CVC5, '--strings-exp', '--tlimit=%d' % (timeout_s * 1000), path], timeout_s + 5)
    return _verdict(out), out, dt


import itertools as _it
_qcounter = _it.count()


def _race(cmds, timeout):
    """run solver commands concurrently; return [(tag, verdict, seconds)] as they finish and stop
    at the first definitive answer (sat/unsat).  `both`-mode callers pass wait_all=True."""
    procs = []
    t0 = time.time()
    for tag, cmd in cmds:
        procs.append((tag, subprocess.Popen(cmd, stdout=subprocess.PIPE, stderr=subprocess.DEVNULL,
                                            text=True)))
    return procs, t0


def solve_text(text, want_model, t_z3=10, t_cvc5=20, both=False, workdir=None, sat_grace=True):
    """-> dict(verdict, backend, time, model_text, tried=[(backend, verdict, time)])

    z3-new and cvc5 race on the same SMT-LIB text; the first sat/unsat wins (both are run to
    completion when both=True, and a disagreement is reported as such)."""
    own = workdir is None
    d = workdir or tempfile.mkdtemp(prefix='pyvc-')
    tried = []
    try:
        # unique per call: two obligations with identical text must not share (and truncate)
        # each other's query file
        path = os.path.join(d, 'q%d_%d.smt2' % (os.getpid(), next(_qcounter)))
        with open(path, 'w') as f:
            f.write(text)
            f.write('\n')
        mpath = path[:-5] + '_m.smt2'
        cmds = [('z3', [Z3NEW, '-T:%d' % t_z3, 'model_validate=true', path]),
                ('z3-4.8', [Z3OLD, '-T:%d' % t_z3, 'model_validate=true', path])]
        if not any(u in text for u in CVC5_UNSUPPORTED):
            cpath = path
            if 'seq.nth_' in text:
                # z3's simplifier splits seq.nth into an in-bounds / out-of-bounds pair of internal
                # functions, always as ite(in-bounds, nth_i, nth_u): the standard total seq.nth
                cpath = path[:-5] + '_c.smt2'
                with open(cpath, 'w') as f:
                    f.write(text.replace('seq.nth_i', 'seq.nth').replace('seq.nth_u', 'seq.nth'))
                    f.write('\n')
            cmds.append(('cvc5', [CVC5, '--strings-exp', '--tlimit=%d' % (t_cvc5 * 1000), cpath]))
        procs, t0 = _race(cmds, max(t_z3, t_cvc5))
        results = {}
        deadline = t0 + max(t_z3, t_cvc5) + 5
        pending = dict(procs)
        final, backend = 'unknown', 'z3'
        t_first, overruled, confirmed_sat = t0, False, False
        while pending and time.time() < deadline:
            for tag, p in list(pending.items()):
                if p.poll() is not None:
                    out = p.stdout.read()
                    v = _verdict(out)
                    results[tag] = v
                    tried.append((tag, v, round(time.time() - t0, 3)))
                    del pending[tag]
                    if v in ('sat', 'unsat') and final == 'unknown':
                        final, backend = v, tag
                        t_first = time.time()
                    elif v == 'unsat' and final == 'sat':
                        # a refutation overrules a counter-model claim (string solvers err on the sat
                        # side far more often); the disagreement is recorded in `tried`
                        final, backend = 'unsat', tag
                        overruled = True
                    elif v == 'sat' and final == 'sat':
                        confirmed_sat = True
            if final == 'unsat' and not both:
                break
            if final == 'sat' and not both:
                # grace period: give the other solvers a moment to contradict a `sat`
                el = t_first - t0
                if not sat_grace or confirmed_sat or time.time() - t_first > min(10.0, max(1.5, 3 * el)):
                    break
            if pending:
                time.sleep(0.005)
        for tag, p in pending.items():
            try:
                p.kill()
                p.wait(timeout=5)
            except Exception:
                pass
            if final == 'unknown' or both:
                tried.append((tag, 'timeout', round(time.time() - t0, 3)))
        definite = {v for v in results.values() if v in ('sat', 'unsat')}
        if len(definite) > 1:
            # recorded (evidence: `tried` shows both answers); resolved in favour of the refutation
            final = 'unsat'
            backend = [t for t, v in results.items() if v == 'unsat'][0] + ' (overruling a sat)'
            DISAGREEMENTS.append(tried)
        model_text = None
        if final == 'sat' and (want_model() if callable(want_model) else want_model):
            with open(mpath, 'w') as f:
                f.write(text.replace('(check-sat)', '(check-sat)\n(get-model)'))
                f.write('\n')
            mv, mout, mdt = run_z3(mpath, t_z3 * 2)
            if mv == 'sat':
                model_text = mout.split('sat', 1)[1]
        return {'verdict': final, 'backend': backend, 'tried': tried,
                'time': time.time() - t0, 'model_text': model_text}
    finally:
        if own:
            shutil.rmtree(d, ignore_errors=True)


class TextModel:
    """Evaluate z3 terms under a model printed by a z3 process ((get-model) output)."""

    def __init__(self, query_text_, model_text):
        self.header = self._header(query_text_)
        body = model_text.strip()
        # strip the outer parentheses of the model
        if body.startswith('('):
            body = body[1:]
        body = body.rstrip()
        if body.endswith(')'):
            body = body[:-1]
        self.defs = body
        self.defined = set(re.findall(r'\(define-fun\s+(\|[^|]*\||\S+)', body))
        decls = []
        for m in re.finditer(r'\(declare-fun\s+(\|[^|]*\||\S+)\s', query_text_):
            pass
        self.query_decls = self._decls(query_text_)

    @staticmethod
    def _split_toplevel(text):
        out, depth, cur, instr, bar = [], 0, '', False, False
        i = 0
        while i < len(text):
            ch = text[i]
            if instr:
                cur += ch
                if ch == '"':
                    if i + 1 < len(text) and text[i + 1] == '"':
                        cur += '"'
                        i += 1
                    else:
                        instr = False
            elif bar:
                cur += ch
                if ch == '|':
                    bar = False
            elif ch == '"':
                instr = True
                cur += ch
            elif ch == '|':
                bar = True
                cur += ch
            elif ch == ';' and depth == 0:
                while i < len(text) and text[i] != '\n':
                    i += 1
            elif ch == '(':
                depth += 1
                cur += ch
            elif ch == ')':
                depth -= 1
                cur += ch
                if depth == 0:
                    out.append(cur.strip())
                    cur = ''
            else:
                if depth > 0:
                    cur += ch
            i += 1
        return out

    def _header(self, q):
        return [c for c in self._split_toplevel(q)
                if c.startswith('(declare-datatypes') or c.startswith('(declare-sort')
                or c.startswith('(declare-datatype')]

    def _decls(self, q):
        out = {}
        for c in self._split_toplevel(q):
            if c.startswith('(declare-fun') or c.startswith('(declare-const'):
                m = re.match(r'\(declare-(?:fun|const)\s+(\|[^|]*\||\S+)', c)
                out[m.group(1)] = c
        return out

    def eval(self, term, model_completion=True):
        sort = term.sort().sexpr()
        pieces = list(self.header)
        pieces.append(self.defs)
        known = {n.strip('|') for n in self.defined}
        for name, decl in self.query_decls.items():
            if name.strip('|') not in known:
                # symbol the model leaves open: give it a default through completion below
                pieces.append(decl)
                known.add(name.strip('|'))
        for dcl in self._free_decls(term):
            if dcl.name() not in known:
                pieces.append(dcl.sexpr())
                known.add(dcl.name())
        pieces.append('(declare-fun |__P| (%s) Bool)' % sort)
        pieces.append('(assert (|__P| %s))' % term.sexpr())
        txt = '\n'.join(pieces)
        a = z3.parse_smt2_string(txt)
        val = z3.simplify(a[0].arg(0))
        if model_completion:
            val = self._complete(val)
        return val

    @staticmethod
    def _free_decls(term):
        out, seen = [], set()

        def walk(t):
            if t.get_id() in seen:
                return
            seen.add(t.get_id())
            if z3.is_app(t) and t.decl().kind() == z3.Z3_OP_UNINTERPRETED:
                out.append(t.decl())
            for c in t.children():
                walk(c)
        walk(term)
        return out

    def _complete(self, val):
        """replace leftover free constants by default values"""
        subs = []
        seen = set()

        def walk(t):
            if t.get_id() in seen:
                return
            seen.add(t.get_id())
            if z3.is_const(t) and t.decl().kind() == z3.Z3_OP_UNINTERPRETED:
                s = t.sort()
                if s == z3.IntSort():
                    subs.append((t, z3.IntVal(0)))
                elif s == z3.BoolSort():
                    subs.append((t, z3.BoolVal(False)))
                elif s == z3.StringSort():
                    subs.append((t, z3.StringVal('')))
            for c in t.children():
                walk(c)
        walk(val)
        if subs:
            val = z3.simplify(z3.substitute(val, *subs))
        return val


MODELS_PER_NAME = 3
UNKNOWNS_PER_NAME = 4
DISAGREEMENTS = []


def discharge(obls, want_models=True, t_z3=10, t_cvc5=20, both=False, jobs=None):
    """Solve a list of Obligation objects in parallel.  Returns list of result dicts
    (same order): status discharged|failed|unknown|error, backend, time, model (TextModel)."""
    jobs = jobs or min(16, (os.cpu_count() or 4))
    texts = [query_text(o) for o in obls]
    d = tempfile.mkdtemp(prefix='pyvc-')

    # counter-models are asked for the first few failing instances of each obligation NAME only: the
    # same obligation failing on hundreds of paths (a changed tree) needs one replayable witness,
    # not hundreds of model queries
    import threading
    model_budget = {}
    lock = threading.Lock()

    def wants_model(o):
        if not want_models:
            return False
        with lock:
            n = model_budget.get(o.name, 0)
            model_budget[o.name] = n + 1
        return n < MODELS_PER_NAME

    # an obligation NAME on which the solvers have already given up several times (path instances of
    # one clause on a changed tree) gets a short budget for its remaining instances: the verdict for
    # the name is `unknown` either way, and a check must not run for hours on a changed tree
    gave_up = {}

    def work(i):
        o, text = obls[i], texts[i]
        if o.expect == 'sat':
            # vacuity covers: cheap budget; an undecided cover is not a failure
            r = solve_text(text, False, 3, 3, False, workdir=d, sat_grace=False)
        else:
            with lock:
                tired = gave_up.get(o.name, 0) >= UNKNOWNS_PER_NAME
            if tired:
                r = {'verdict': 'unknown', 'backend': 'skipped', 'time': 0.0, 'model_text': None,
                     'tried': [('skipped', 'the solvers gave up on %d earlier instances of this obligation'
                                % UNKNOWNS_PER_NAME, 0.0)]}
            else:
                r = solve_text(text, (lambda: wants_model(o)) if want_models else False,
                               t_z3, t_cvc5, both, workdir=d)
            if r['verdict'] not in ('sat', 'unsat'):
                with lock:
                    gave_up[o.name] = gave_up.get(o.name, 0) + 1
        v = r['verdict']
        res = {'backend': r['backend'], 'time': r['time'], 'tried': r['tried'],
               'smt_bytes': len(text)}
        if v == 'disagree':
            res['status'] = 'error'
            res['reason'] = 'solver disagreement'
        elif o.expect == 'valid':
            res['status'] = {'unsat': 'discharged', 'sat': 'failed'}.get(v, 'unknown')
            if v == 'sat' and r['model_text']:
                res['model_text'] = r['model_text']
                res['query_text'] = text
        else:
            res['status'] = {'sat': 'discharged', 'unsat': 'failed'}.get(v, 'unknown')
        return res

    # identical queries (the same obligation reached on several paths) are solved once
    first = {}
    for i, (o, t) in enumerate(zip(obls, texts)):
        first.setdefault((o.expect, t), i)
    todo = sorted(first.values())
    try:
        with ThreadPoolExecutor(max_workers=jobs) as ex:
            solved = dict(zip(todo, ex.map(work, todo)))
        return [dict(solved[first[(o.expect, t)]]) for o, t in zip(obls, texts)]
    finally:
        shutil.rmtree(d, ignore_errors=True)
