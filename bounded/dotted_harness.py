"""Concrete demonstration harness for utils._resolve_dotted (C04): the REAL function runs with
`__import__` and `getattr` replaced (as module globals of chameleon.utils, which shadow the
builtins) by scripted versions over a fake package tree; the trace primitives of the contract read
the recorded events."""
import itertools

_trace = []
_script = {}


class Node:
    def __init__(self, path):
        self._path = path

    def __repr__(self):
        return '<obj %s>' % self._path


class Boom(Exception):
    pass


def setup(lazy=(), missing=(), boom=()):
    """lazy: dotted paths that exist only after having been imported; missing: paths that never
    exist; boom: paths whose attribute fetch raises something that is not an AttributeError"""
    _script.clear()
    _script.update(lazy=set(lazy), missing=set(missing), boom=set(boom), imported=set(), nodes={})


def _node(path):
    return _script['nodes'].setdefault(path, Node(path))


def _import(name):
    rec = {'name': 'import', 'args': [name], 'raised': False}
    _trace.append(rec)
    if name in _script['missing']:
        rec['raised'] = True
        raise ModuleNotFoundError(name)
    parts = name.split('.')
    for i in range(1, len(parts) + 1):
        _script['imported'].add('.'.join(parts[:i]))
    rec['result'] = _node(parts[0])          # like the builtin: the TOP-LEVEL package
    return rec['result']


def _getattr(obj, n):
    rec = {'name': 'getattr', 'args': [obj, n], 'raised': False}
    _trace.append(rec)
    path = obj._path + '.' + n
    if path in _script['boom']:
        rec['raised'] = True
        raise Boom(path)
    if path in _script['missing'] or (path in _script['lazy'] and path not in _script['imported']):
        rec['raised'] = True
        raise AttributeError(n)
    rec['result'] = _node(path)
    return rec['result']


def resolve(name, module):
    from chameleon import utils
    del _trace[:]
    utils.__dict__['__import__'] = _import
    utils.__dict__['getattr'] = _getattr
    try:
        return utils._resolve_dotted(name)
    finally:
        del utils.__dict__['__import__']
        del utils.__dict__['getattr']


def gen_names():
    for name in ('pa', 'pa.qb', 'pa.qb.rc'):
        comps = name.split('.')
        prefixes = ['.'.join(comps[:i]) for i in range(2, len(comps) + 1)]
        states = ('present', 'lazy', 'missing', 'boom')
        for combo in itertools.product(states, repeat=len(prefixes)):
            kw = {'lazy': [p for p, s in zip(prefixes, combo) if s == 'lazy'],
                  'missing': [p for p, s in zip(prefixes, combo) if s == 'missing'],
                  'boom': [p for p, s in zip(prefixes, combo) if s == 'boom']}
            yield ({'name': name, 'module': None}, kw)


# --- concrete versions of the trace primitives -------------------------------------------
def _evs(nm):
    return [r for r in _trace if r['name'] == nm]


def ext_index(nm, k=0):
    idx = [i for i, r in enumerate(_trace) if r['name'] == nm]
    return idx[k] if k < len(idx) else -1


def ext_call_arg(nm, k, j):
    return _evs(nm)[k]['args'][j]


def ext_call_result(nm, k):
    return [r for r in _evs(nm) if 'result' in r][k]['result']


def ext_last_ok(nm):
    return [r for r in _evs(nm) if not r['raised']][-1]['result']


def ext_ok_args(nm, j):
    return tuple(r['args'][j] for r in _evs(nm) if not r['raised'])


def ext_chain(step, start):
    cur = None
    for r in _trace:
        if r['name'] == start and cur is None and not r['raised']:
            cur = r['result']
        elif r['name'] == step:
            if cur is None or r['args'][0] is not cur:
                return False
            if not r['raised']:
                cur = r['result']
    return True
