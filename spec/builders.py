"""Concrete builders: turn a reified record (class key + field values from a solver model or
from the small-scope generator) into a real object of the class under verification."""


class Unbuildable(Exception):
    pass


def build_rec(cls, fields):
    if cls == 'tal.py::RepeatItem':
        from chameleon.tal import RepeatItem
        n = fields['length']
        rem = fields['_iterator']['remaining']
        if not (0 <= rem <= n) or n > 100000:
            raise Unbuildable('no list iterator with %r of %r items remaining' % (rem, n))
        it = iter(list(range(n)))
        for _ in range(n - rem):
            next(it)
        return RepeatItem(it, n)
    if cls == 'node::End':
        from chameleon import nodes
        return nodes.End(fields['name'], fields['space'], fields['prefix'], fields['suffix'])
    if cls == 'compiler.py::Compiler':
        return None
    if cls == 'template.py::BaseTemplate':
        import types
        return types.SimpleNamespace(**fields)
    if cls == 'builtins::ListIter':
        return dict(fields)
    raise Unbuildable('no builder for %s' % cls)


def gen_rec(cls, hints):
    if cls == 'tal.py::RepeatItem':
        hi = hints.get('repeat_max', 30)
        return [build_rec(cls, {'length': n, '_iterator': {'remaining': r}})
                for n in range(hi + 1) for r in range(n + 1)]
    raise Unbuildable('no generator for %s' % cls)
