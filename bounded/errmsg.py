"""B-ERRMSG (bounded stand-in, never counted as proved): C12's message claim over a catalogue of
failing renders -- where the failing expression stands (plain element, attribute, loop, in-template
macro, external macro, slot filler, nested render) x what precedes it.  For every member render()
must raise an exception that is an instance of the original class, and the FIRST record of its
message must name exactly the failing expression's text with the line and column at which that
text stands in its template.

usage: errmsg.py <repo> -> one JSON line.  Runs under /venv/bin/python."""
import json
import os
import re
import sys


class Boom(Exception):
    pass


def boom():
    raise Boom('x')


def catalogue(PageTemplate):
    """-> (family, template to render, kwargs, source the expression stands in, expression text)"""
    out = []
    lib = PageTemplate('<div metal:define-macro="m">\n <b metal:define-slot="s">d</b>\n <i>${tail}</i></div>')
    bad = PageTemplate('<div metal:define-macro="m">\n  <u tal:content="boom()"/></div>')
    for lead in ('', 'x\n', '<p>a</p>\r\n', 'é\n  '):
        fam = 'plain' if '\r' not in lead else 'crlf'
        src = lead + '<p>${boom()}</p>'
        out.append((fam + ':text', src, {}, src, 'boom()'))
        src = lead + '<p t="a ${boom()}">y</p>'
        out.append((fam + ':attribute', src, {}, src, 'boom()'))
        src = lead + '<p tal:repeat="i (1, 2)"><b tal:condition="boom()"/></p>'
        out.append((fam + ':repeat', src, {}, src, 'boom()'))
        src = lead + '<p tal:content="nope | boom()"/>'
        out.append((fam + ':pipe', src, {}, src, 'nope | boom()'))
    src = '<div>\n<m metal:define-macro="m"><u tal:replace="boom()"/></m></div>'
    out.append(('macro:internal', src, {}, src, 'boom()'))
    src = '<x metal:use-macro="bad.macros[\'m\']"/>'
    out.append(('macro:external', src, {'bad': bad}, bad.body if hasattr(bad, 'body') else None, 'boom()'))
    src = '<x metal:use-macro="lib.macros[\'m\']">\n  <i metal:fill-slot="s">${boom()}</i></x>'
    out.append(('macro:filler', src, {'lib': lib, 'tail': 1}, src, 'boom()'))
    src = '<x metal:use-macro="lib.macros[\'m\']">\n  <i metal:fill-slot="s" tal:content="boom()"/></x>'
    out.append(('macro:filler', src, {'lib': lib, 'tail': 1}, src, 'boom()'))
    src = '<p tal:on-error="string:E"><x metal:use-macro="bad.macros[\'m\']"/></p>\n<q>${boom()}</q>'
    out.append(('after-handled-failure', src, {'bad': bad}, src, 'boom()'))
    return out


def main():
    repo = sys.argv[1]
    sys.path.insert(0, os.path.join(repo, 'src'))
    for k in list(os.environ):
        if k.upper().startswith('CHAMELEON_'):
            del os.environ[k]
    from chameleon import PageTemplate
    bad = []
    cases = 0
    for fam, src, kw, where, expr in catalogue(PageTemplate):
        cases += 1
        if where is None:
            where = '<div metal:define-macro="m">\n  <u tal:content="boom()"/></div>'
        norm = where if where.startswith('<?xml') else where.replace('\r\n', '\n').replace('\r', '\n')
        pos = norm.rindex(expr) if fam == 'after-handled-failure' else norm.index(expr)
        before = norm[:pos]
        want = (expr, before.count('\n') + 1, pos - (before.rfind('\n') + 1))
        try:
            PageTemplate(src)(boom=boom, **kw)
            bad.append({'family': fam, 'template': src, 'what': 'no exception'})
            continue
        except Boom as e:
            msg = str(e)
        except Exception as e:  # noqa
            bad.append({'family': fam, 'template': src, 'what': 'raised %r (not an instance of the original class)' % (e,)})
            continue
        m = re.search(r' - Expression: "(.*)"\n - Filename:   .*\n - Location:   \(line (\d+): col (\d+)\)', msg)
        got = (m.group(1), int(m.group(2)), int(m.group(3))) if m else None
        if got != want:
            bad.append({'family': fam, 'template': src,
                        'what': 'first record of the message is %r, the failing expression is %r' % (got, want)})
    print(json.dumps({'cases': cases, 'distinct': cases, 'violations': bad,
                      'bound': '%d failing renders: expression sites x preceding text' % cases}))


if __name__ == '__main__':
    main()
