"""--setup smoke test: solvers present, one trivial obligation discharged, one refuted."""
import shutil
import subprocess
import sys

import z3

from .paths import Obligation
from .solve import discharge


def smoke():
    ok = True
    for b in ('z3-new', '/usr/bin/cvc5', '/usr/bin/z3', '/venv/bin/python'):
        if shutil.which(b) is None:
            print('missing tool: %s' % b)
            ok = False
    x = z3.Int('x')
    s = z3.String('s')
    r = discharge([Obligation('smoke.valid', [x > 2], x > 1),
                   Obligation('smoke.invalid', [x > 1], x > 2),
                   Obligation('smoke.str', [z3.Length(s) > 2], z3.Length(z3.SubString(s, 1, 1)) == 1)])
    st = [q['status'] for q in r]
    if st != ['discharged', 'failed', 'discharged']:
        print('solver smoke test failed: %r' % (st,))
        ok = False
    p = subprocess.run(['/venv/bin/python', '-c', 'import chameleon; print(chameleon.__file__)'],
                       capture_output=True, text=True)
    if p.returncode != 0:
        print('chameleon not importable under /venv/bin/python')
        ok = False
    print('setup smoke test: %s' % ('ok' if ok else 'FAILED'))
    return 0 if ok else 3


def full(argv):
    from . import mutants
    return mutants.run(argv)
