"""Axiom conformance (DESIGN.md 2.5): every trusted model of a Python builtin is exercised on
concrete instances (boundary cases + VERIF_SEED-driven random ones); the model's formula, with the
concrete arguments substituted, must ADMIT what CPython actually computes (soundness of the
model), and where the model is meant to be exact it must admit nothing else.  Any disagreement is
a checker error (exit 3): a wrong model would make every proof that uses it worthless."""
from __future__ import annotations

import codecs
import random
import re
import time

import z3

from . import models
from .interp import Interp, Raised
from .paths import Explorer, Path
from .values import (NONE, Ty, VAny, VBool, VBytes, VInt, VNone, VOpt, VSeq, VSlice, VStr,
                     VTuple, Val, fresh_name, lit)


class FakeVC:
    qual = 'conformance'
    exclusions = {}

    def model_option(self, k, d):
        return self.opts.get(k, d)

    def __init__(self):
        self.opts = {}
        self.c = None

    def regex_fact(self, *a):
        return None


def new_interp(opts=None):
    vc = FakeVC()
    vc.opts = dict(opts or {})
    I = Interp(vc, Path(Explorer(), []), None, None)
    I.contract = None
    return I


UNCONFIRMED = []


def admits(I, facts, exact=None, refutable=False):
    """the assumptions collected on I's path together with `facts` are satisfiable"""
    s = z3.Solver()
    s.set('timeout', 5000)
    for c in I.path.pc:
        s.add(c)
    for f in facts:
        s.add(f)
    r = s.check()
    if r == z3.unsat and not refutable:
        # the in-process solver is not trusted with a refutation on its own (it has been seen to
        # flip on quantified string facts): the query is repeated on the external solvers, and a
        # validated `sat` from any of them means the model does admit the real behaviour
        from .solve import solve_text
        rr = solve_text('(set-logic ALL)\n' + s.to_smt2(), False, 10, 10, both=True)
        tried = rr.get('tried', [])
        if any(t[1] == 'sat' for t in tried):
            return True, 'sat (external solver; in-process z3 answered unsat)'
        if not any(t[1] == 'unsat' for t in tried):
            # nobody else can refute it either (quantified string facts are beyond all three solvers:
            # they answer `unknown`); an unconfirmed refutation by the in-process solver alone --
            # seen about once in sixty runs on the very same facts -- is not a conformance failure
            UNCONFIRMED.append([str(t) for t in tried])
            return True, 'unconfirmed in-process refutation'
    return r != z3.unsat, r


def strval(x):
    return z3.StringVal(x)


def run(seed=0, n_random=25, full=True):
    rnd = random.Random(seed)
    results = []   # (name, instances, failures[list])
    alpha = 'ab ;\n\t&<x'

    def rstr(maxlen=6, alphabet=alpha):
        return ''.join(rnd.choice(alphabet) for _ in range(rnd.randrange(maxlen + 1)))

    def group(name):
        g = {'name': name, 'n': 0, 'fail': []}
        results.append(g)
        return g

    def check_value(g, desc, I, term, expected, exact=True):
        g['n'] += 1
        if isinstance(expected, bool):
            ev = z3.BoolVal(expected)
        elif isinstance(expected, int):
            ev = z3.IntVal(expected)
        else:
            ev = z3.StringVal(expected)
        ok, r = admits(I, [term == ev])
        if not ok:
            g['fail'].append('%s: model excludes CPython result %r' % (desc, expected))
            return
        if exact:
            ok2, r2 = admits(I, [term != ev], refutable=True)
            if ok2 and r2 == z3.sat:
                g['fail'].append('%s: model also admits a result other than %r' % (desc, expected))

    strings = ['', 'a', ' a ', 'a;b', ';;', 'a b  c', '\n a\tb \n', 'ab&<x', '  ', 'x' * 5] + \
        [rstr() for _ in range(n_random)]
    if not full:
        # quick tier: the boundary cases that have bitten before plus a seeded sample
        strings = ['', ' a ', 'a;b', '\n a\tb \n'] + [rstr() for _ in range(n_random)]

    # ---- slicing -----------------------------------------------------------------
    g = group('str.__getitem__(slice)')
    bounds = [None, 0, 1, 2, -1, -2, 5, -7, 100] if full else [None, 0, 1, -1, 5, -7]
    for s in strings[:12]:
        for a in bounds:
            for b in bounds:
                I = new_interp()
                sl = VSlice(lit(a), lit(b), NONE)
                check_value(g, '%r[%r:%r]' % (s, a, b), I, models.str_slice(strval(s), sl), s[a:b])

    # ---- simple methods -----------------------------------------------------------
    g = group('str.startswith/endswith/find/rfind/in/len')
    for s in strings:
        for sub in ['', 'a', ';', ' ', 'ab', 'b ']:
            I = new_interp()
            check_value(g, '%r.startswith(%r)' % (s, sub), I,
                        models.str_method(I, strval(s), 'startswith', [VStr(sub)], {}).t, s.startswith(sub))
            I = new_interp()
            check_value(g, '%r.endswith(%r)' % (s, sub), I,
                        models.str_method(I, strval(s), 'endswith', [VStr(sub)], {}).t, s.endswith(sub))
            I = new_interp()
            check_value(g, '%r.find(%r)' % (s, sub), I,
                        models.str_method(I, strval(s), 'find', [VStr(sub)], {}).t, s.find(sub))
            for st in (0, 1, 3):
                I = new_interp()
                check_value(g, '%r.find(%r,%d)' % (s, sub, st), I,
                            models.str_method(I, strval(s), 'find', [VStr(sub), VInt(st)], {}).t, s.find(sub, st))
            I = new_interp()
            check_value(g, '%r.rfind(%r)' % (s, sub), I,
                        models.str_method(I, strval(s), 'rfind', [VStr(sub)], {}).t, s.rfind(sub), exact=bool(sub))
            I = new_interp()
            check_value(g, '%r in %r' % (sub, s), I, models.contains(I, VStr(s), VStr(sub)), sub in s)
            I = new_interp()
            check_value(g, '%r.count(%r)' % (s, sub), I,
                        models.str_method(I, strval(s), 'count', [VStr(sub)], {}).t, s.count(sub), exact=False)

    # ---- strip family (symbolic path: constants are shielded by a fresh equal variable) ----
    g = group('str.strip/lstrip/rstrip')
    for s in strings:
        for which in ('strip', 'lstrip', 'rstrip'):
            for chars in (None, '()', ' ;'):
                I = new_interp()
                v = z3.String(fresh_name('conf'))
                I.assume(v == strval(s))
                args = [] if chars is None else [VStr(chars)]
                r = models.str_method(I, v, which, args, {}).t
                check_value(g, '%r.%s(%r)' % (s, which, chars), I, r, getattr(s, which)(chars))

    # ---- split ---------------------------------------------------------------------
    g = group('str.split (+ split_facts, WSFIND)')
    for s in strings:
        for sep in (None, ';', ' ', 'ab'):
            for quantified in (True, False):
                I = new_interp({'str.split.quantified': quantified})
                v = z3.String(fresh_name('conf'))
                I.assume(v == strval(s))
                r = models.str_method(I, v, 'split', [lit(sep)], {})
                exp = s.split(sep)
                facts = [z3.Length(r.t) == len(exp)]
                off = 0
                offs = []
                for k, p in enumerate(exp):
                    o = s.find(p, off) if sep is None else off
                    offs.append(o)
                    facts.append(r.split_parts[k] == strval(p))
                    facts.append(r.split_off(k) == o)
                    off = o + len(p) + (0 if sep is None else len(sep))
                    if not quantified:
                        facts.append(r.split_facts(z3.IntVal(k)))
                if sep is not None:
                    facts.append(r.split_off(len(exp)) == off)
                g['n'] += 1
                ok, _ = admits(I, facts)
                if not ok:
                    g['fail'].append('%r.split(%r) quantified=%s: model excludes %r' % (s, sep, quantified, exp))

    # ---- replace (exact on constants / single-character instances) ------------------------
    g = group('str.replace')
    for s in strings:
        for old, new in (('&', '&amp;'), ('<', '&lt;'), (';', ''), ('a', 'aa'), ('ab', 'x')):
            I = new_interp()
            check_value(g, '%r.replace(%r,%r)' % (s, old, new), I,
                        models.replace_model(I, strval(s), strval(old), strval(new), None),
                        s.replace(old, new), exact=len(old) == 1)
            I = new_interp()
            v = z3.String(fresh_name('conf'))
            I.assume(v == strval(s))
            check_value(g, 'sym %r.replace(%r,%r)' % (s, old, new), I,
                        models.replace_model(I, v, strval(old), strval(new), None),
                        s.replace(old, new), exact=False)
    for c in '&<>"\'\0a':
        for old, new in (('&', '&amp;'), ('<', '&lt;'), ('"', '&quot;')):
            I = new_interp()
            ch = z3.String(fresh_name('ch'))
            I.ghost['chars'] = [ch]
            I.assume(ch == strval(c))
            check_value(g, 'char %r.replace(%r,%r)' % (c, old, new), I,
                        models.replace_model(I, ch, strval(old), strval(new), None), c.replace(old, new))

    # ---- integers --------------------------------------------------------------------
    g = group('int // % divmod, str(int), chr/ord')
    for a in (-7, -1, 0, 1, 5, 26, 27, 3999, 4000, 10 ** 6):
        for b in (-3, 1, 2, 26, 1000):
            I = new_interp()
            check_value(g, '%d // %d' % (a, b), I, models.py_floordiv(z3.IntVal(a), z3.IntVal(b)), a // b)
            check_value(g, '%d %% %d' % (a, b), I, models.py_mod(z3.IntVal(a), z3.IntVal(b)), a % b)
        I = new_interp()
        check_value(g, 'str(%d)' % a, I, models.to_str(I, VInt(a)).t, str(a))
    for c in (0, 65, 97, 122, 0x2028, 0xfeff):
        I = new_interp()
        check_value(g, 'chr(%d)' % c, I, z3.StrFromCode(z3.IntVal(c)), chr(c))
        check_value(g, 'ord(chr(%d))' % c, I, z3.StrToCode(strval(chr(c))), c)

    # ---- formatting ---------------------------------------------------------------------
    g = group('str % args')
    for fmt, args in (('%s%s', ('a', 'b')), (' k="%s"', ('v',)), ('%d:%s', (3, 'x')), ('100%%', ())):
        I = new_interp()
        a = VTuple([lit(x) for x in args])
        check_value(g, '%r %% %r' % (fmt, args), I, models.str_format(I, VStr(fmt), a).t, fmt % args)

    # ---- lists as sequences -----------------------------------------------------------------
    g = group('list ops on symbolic sequences')
    for _ in range(n_random):
        xs = [rnd.randrange(5) for _ in range(rnd.randrange(5))]
        I = new_interp()
        sq = models.seq_of(I, lit(tuple(xs)) if False else VTuple([VInt(x) for x in xs]), Ty('int'))
        ys = list(xs)
        op = rnd.choice(['append', 'insert', 'pop', 'setitem', 'delitem'])
        try:
            if op == 'append':
                models.list_method(I, sq, 'append', [VInt(9)], {})
                ys.append(9)
            elif op == 'insert':
                k = rnd.randrange(-2, 7)
                models.list_method(I, sq, 'insert', [VInt(k), VInt(9)], {})
                ys.insert(k, 9)
            elif op == 'pop' and xs:
                k = rnd.randrange(len(xs))
                models.list_method(I, sq, 'pop', [VInt(k)], {})
                ys.pop(k)
            elif op == 'setitem' and xs:
                k = rnd.randrange(len(xs))
                models.set_item(I, sq, VInt(k), VInt(9))
                ys[k] = 9
            elif op == 'delitem' and xs:
                k = rnd.randrange(len(xs))
                models.del_item(I, sq, VInt(k))
                del ys[k]
        except Raised:
            continue
        g['n'] += 1
        want = models.seq_of(I, VTuple([VInt(y) for y in ys]), Ty('int')).t
        ok, _ = admits(I, [sq.t == want])
        ok2, r2 = admits(I, [sq.t != want], refutable=True)
        if not ok or (ok2 and r2 == z3.sat):
            g['fail'].append('%s on %r: model disagrees with %r' % (op, xs, ys))

    # ---- codecs (BOM axioms) ----------------------------------------------------------------------
    g = group('bytes.decode BOM axioms')
    payload = '<?xml version="1.0"?><a>é</a>'
    for enc in ('utf-8', 'utf-8-sig', 'utf-16', 'utf-16-le', 'utf-16-be', 'utf-32', 'utf-32-le', 'utf-32-be'):
        base = {'utf-8-sig': 'utf-8', 'utf-16': 'utf-16-le', 'utf-32': 'utf-32-le'}.get(enc, enc)
        for bom in (codecs.BOM_UTF8, codecs.BOM_UTF16_LE, codecs.BOM_UTF16_BE, codecs.BOM_UTF32_LE,
                    codecs.BOM_UTF32_BE, b''):
            data = bom + payload.encode(base)
            try:
                exp = data.decode(enc)
            except UnicodeDecodeError:
                continue
            I = new_interp()
            b = strval(data.decode('latin-1'))
            models.decode_axioms(I, enc, b)
            # ground the uninterpreted decoder on every sub-call the axioms mention
            facts = [models.f_decode(strval(enc), b) == strval(exp)]
            for benc in models.BOMS:
                for cut in (2, 3, 4):
                    rest = data[cut:]
                    try:
                        facts.append(models.f_decode(strval(benc), strval(rest.decode('latin-1')))
                                     == strval(rest.decode(benc)))
                    except UnicodeDecodeError:
                        pass
            g['n'] += 1
            ok, _ = admits(I, facts)
            if not ok:
                g['fail'].append('decode(%s) of %r: BOM axioms contradict CPython' % (enc, data[:8]))

    # ---- re.Match model --------------------------------------------------------------------------
    g = group('re.Match spans')
    pats = [re.compile(r'\s*(?:(global|local)\s+)?(\w+)\s+(.*)\Z', re.S), re.compile(r'(a)|(b)'),
            re.compile(r'(?P<x>\w+)=(?P<q>["\'])(?P<v>.*?)(?P=q)')]
    for pat in pats:
        for s in strings + ['k="v"', "k='v' j=\"w\"", 'global a 1']:
            m = pat.search(s)
            I = new_interp()
            vm = models.pattern_method(I, pat, 'search', [VStr(s)], {})
            facts = [vm.none == z3.BoolVal(m is None)]
            if m is not None:
                for k in range(pat.groups + 1):
                    facts.append(vm.val.isnone(k) == z3.BoolVal(m.group(k) is None))
                    facts.append(vm.val.start(k) == m.start(k))
                    facts.append(vm.val.end(k) == m.end(k))
            g['n'] += 1
            ok, _ = admits(I, facts)
            if not ok:
                g['fail'].append('%r.search(%r): span axioms contradict CPython' % (pat.pattern, s))

    # ---- Pattern.match(s, pos) for context-free patterns; minimum width; sub identity ---------------
    g = group('re.Pattern.match(s, pos) / min width / sub identity')
    cf = [re.compile(r'(&(#?)(x?)(\d{1,5}|\w{1,8});)'), re.compile(r'(a)|(bc)')]
    subjects = strings[:10] + ['&amp;x', 'a&#38;b', '&;', 'x&lt;&gt;', 'abc', 'bca&#x41;']
    for pat in cf:
        g['n'] += 1
        if not models.context_free(pat):
            g['fail'].append('%r is not recognised as context-free' % pat.pattern)
        for s in subjects:
            for pos in sorted({0, 1, 2, len(s), len(s) + 2, -1, rnd.randrange(0, len(s) + 1)}):
                m = pat.match(s, pos)
                I = new_interp()
                vm = models.pattern_method(I, pat, 'match', [VStr(s), VInt(pos)], {})
                facts = [vm.none == z3.BoolVal(m is None)]
                if m is not None:
                    for k in range(pat.groups + 1):
                        facts.append(vm.val.isnone(k) == z3.BoolVal(m.group(k) is None))
                        facts.append(vm.val.start(k) == m.start(k))
                        facts.append(vm.val.end(k) == m.end(k))
                g['n'] += 1
                ok, _ = admits(I, facts)
                if not ok:
                    g['fail'].append('%r.match(%r, %d): shifted-span model contradicts CPython' % (pat.pattern, s, pos))
    for pat in (re.compile(r'\\\s*$', re.M), re.compile(r'(&(#?)(x?)(\d{1,5}|\w{1,8});)')):
        for s in subjects + ['a \\\n b', 'x\\']:
            I = new_interp()
            out = models.pattern_method(I, pat, 'sub', [lit('\n'), VStr(z3.String(fresh_name('subj')))], {})
            # the subject is symbolic (a constant subject is evaluated exactly): bind it afterwards
            subj = [a for a in z3.z3util.get_vars(out.t)][0] if z3.z3util.get_vars(out.t) else None
            g['n'] += 1
            if subj is None:
                continue
            ok, _ = admits(I, [subj == z3.StringVal(s), out.t == z3.StringVal(pat.sub('\n', s))])
            if not ok:
                g['fail'].append('%r.sub(NL, %r): identity fact contradicts CPython' % (pat.pattern, s))

    g = group('bytes.lstrip/rstrip(SET)')
    import codecs as _codecs
    sets = [_codecs.BOM_UTF16_BE, _codecs.BOM_UTF32_BE, b'\x00', b'ab']
    datas = [b'', b'\xfe\xff\x00<', b'\x00\x00\xfe\xff\x00\x00\x00<', b'\xfe\xff\xff\x21', b'abba c', b'\x00\x00',
             b'<\x00\xfe']
    for cs in sets:
        for d in datas:
            for meth in ('lstrip', 'rstrip'):
                I = new_interp()
                vb = VBytes(z3.StringVal(d.decode('latin-1')))
                r_ = models.bytes_method(I, vb, meth, [lit(cs)], {})
                check_value(g, '%r.%s(%r)' % (d, meth, cs), I, r_.t, getattr(d, meth)(cs).decode('latin-1'))

    # ---- hint lemmas ------------------------------------------------------------------------------
    g = group('SUBSTR-TRANS lemma')
    from .prims import p_substr_lemma
    for _ in range(n_random * 2):
        base = rstr(10)
        p_, n_, lo, ln = [rnd.randrange(-1, 8) for _ in range(4)]
        I = new_interp()
        I.spec_mode = 1
        t = p_substr_lemma(I, [VStr(base), VInt(p_), VInt(n_), VInt(lo), VInt(ln)], {}, None).t
        g['n'] += 1
        if not z3.is_true(z3.simplify(t)):
            g['fail'].append('substr_lemma(%r,%d,%d,%d,%d) is not valid' % (base, p_, n_, lo, ln))
    return results


def unit(spec):
    t0 = time.time()
    full = spec.get('tier') == 'thorough'
    res = run(spec.get('seed', 0) or 0, n_random=25 if full else 3, full=full)
    obls = []
    for g in res:
        o = {'name': 'conformance[%s]' % g['name'], 'expect': 'valid',
             'status': 'discharged' if not g['fail'] else 'error', 'backend': 'cpython-crosscheck',
             'time': 0.0, 'okind': 'lemma', 'tried': 'instances=%d' % g['n'],
             'text': 'the model of %s admits what CPython computes on %d concrete instances' % (g['name'], g['n'])}
        if g['fail']:
            o['reason'] = 'axiom conformance failure: ' + '; '.join(g['fail'][:3])
        if g['n'] == 0:
            o['status'] = 'error'
            o['reason'] = 'vacuity: no conformance instance executed'
        obls.append(o)
    return {'unit': 'conformance', 'obligations': obls, 'wall': time.time() - t0,
            'conformance': {g['name']: g['n'] for g in res}}
