"""./check <Cnn> [--tier quick|thorough]  |  --replay <file>  |  --setup

Exit codes: 0 property held on everything decided (known findings printed) ·
1 VIOLATION (line printed, replay file written) · 2 undecided · 3 checker error.
"""
from __future__ import annotations

import importlib
import json
import os
import sys
import time
import traceback
from concurrent.futures import ProcessPoolExecutor

VERIF = os.path.dirname(os.path.dirname(os.path.abspath(__file__)))
if VERIF not in sys.path:
    sys.path.insert(0, VERIF)


def load_known():
    p = os.path.join(VERIF, 'known_findings.json')
    if not os.path.exists(p):
        return {'findings': [], 'fixed': []}
    return json.load(open(p))


def load_baseline():
    p = os.path.join(VERIF, 'baseline_obligations.json')
    if not os.path.exists(p):
        return {}
    return json.load(open(p))


# ---------------------------------------------------------------------------
# unit execution (in worker processes)
# ---------------------------------------------------------------------------
def run_unit(spec):
    """spec: dict(kind, ...) -> unit result dict"""
    t0 = time.time()
    try:
        if spec['kind'] == 'contract':
            from pyvc import units
            r = units.contract_unit(spec)
        else:
            mod = importlib.import_module(spec['module'])
            r = getattr(mod, spec['func'])(spec)
        r.setdefault('unit', spec.get('name') or spec.get('target'))
        r['wall'] = time.time() - t0
        return r
    except Exception:
        return {'unit': spec.get('name') or spec.get('target'), 'crash': traceback.format_exc(),
                'obligations': [], 'wall': time.time() - t0}


def write_baseline(pids):
    """record, per property, the names of the obligations discharged on the current tree
    (run on the unchanged tree only; committed as baseline_obligations.json)"""
    import props
    base = load_baseline()
    for pid in (pids or sorted(props.PROPS)):
        ev = os.path.join(VERIF, 'evidence', '%s.json' % pid)
        os.environ['VERIF_DUMP_NAMES'] = os.path.join(VERIF, 'evidence', '.names-%s.json' % pid)
        rc = main([pid])
        names = json.load(open(os.environ['VERIF_DUMP_NAMES'])) if os.path.exists(
            os.environ['VERIF_DUMP_NAMES']) else []
        try:
            os.unlink(os.environ['VERIF_DUMP_NAMES'])
        except OSError:
            pass
        if rc == 0:
            base[pid] = sorted(set(names))
        else:
            print('baseline for %s not updated (exit %d)' % (pid, rc))
    os.environ.pop('VERIF_DUMP_NAMES', None)
    json.dump(base, open(os.path.join(VERIF, 'baseline_obligations.json'), 'w'), indent=0, sort_keys=True)
    return 0


def main(argv=None):
    argv = list(argv if argv is not None else sys.argv[1:])
    if not argv or argv[0] in ('-h', '--help'):
        print(__doc__)
        return 0
    if argv[0] == '--setup':
        from pyvc import selftest
        return selftest.smoke()
    if argv[0] == '--replay':
        from pyvc import units
        return units.replay_file(argv[1])
    if argv[0] == '--baseline':
        return write_baseline(argv[1:])
    if argv[0] == '--selftest':
        from pyvc import selftest
        return selftest.full(argv[1:])
    pid = argv[0]
    tier = os.environ.get('VERIF_TIER', 'quick')
    if '--tier' in argv:
        tier = argv[argv.index('--tier') + 1]
    seed = int(os.environ.get('VERIF_SEED', '0') or 0)
    import props
    if pid not in props.PROPS:
        print('unknown property %s' % pid)
        return 3
    P = props.PROPS[pid]
    t0 = time.time()
    units_ = [dict(u, tier=tier, seed=seed, property=pid) for u in P['units']
              if tier == 'thorough' or not u.get('thorough_only')]
    jobs = int(os.environ.get('VERIF_JOBS', '0') or 0) or min(8, max(1, len(units_)))
    results = []
    import shutil
    import tempfile
    scratch = tempfile.mkdtemp(prefix='pyvc-check-')
    os.environ['VERIF_K3_CACHE'] = os.path.join(scratch, 'k3cache.json')
    try:
        if any(str(u.get('target', '')).startswith('k3::') or u.get('needs_k3') for u in units_):
            # compile every schema once, in this process; workers read the cache
            from pyvc import units as _u
            _u.registry()
        if jobs == 1 or len(units_) == 1:
            results = [run_unit(u) for u in units_]
        else:
            with ProcessPoolExecutor(max_workers=jobs) as ex:
                results = list(ex.map(run_unit, units_))
    finally:
        shutil.rmtree(scratch, ignore_errors=True)
    from pyvc import report
    return report.conclude(pid, P, tier, seed, results, time.time() - t0)


if __name__ == '__main__':
    sys.exit(main())
