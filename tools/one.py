#!/usr/bin/env python3-vt
"""dev helper: run one contract unit (or several) and print its obligations
usage: python3-vt tools/one.py <target> [--thorough] [--concrete]"""
import os, sys, json
VERIF = os.path.dirname(os.path.dirname(os.path.abspath(__file__)))
sys.path.insert(0, VERIF)
os.chdir(VERIF)
from pyvc import check

if __name__ == '__main__':
    args = [a for a in sys.argv[1:] if not a.startswith('--')]
    tier = 'thorough' if '--thorough' in sys.argv else 'quick'
    import tempfile
    scratch = tempfile.mkdtemp(prefix='one-')
    os.environ.setdefault('VERIF_K3_CACHE', os.path.join(scratch, 'k3cache.json'))
    for t in args:
        r = check.run_unit({'kind': 'contract', 'target': t, 'tier': tier})
        if r.get('crash'):
            print(t, 'CRASH'); print(r['crash']); continue
        print(t, 'paths', r.get('paths'), 'undecided', r.get('undecided'), 'wall %.1f' % r['wall'])
        for o in r['obligations']:
            if o['status'] != 'discharged' or '--all' in sys.argv:
                print('  ', o['status'], o['name'], o.get('backend'), o.get('time'), (o.get('text') or '')[:120])
                if o.get('witness'):
                    print('      witness', json.dumps(o['witness'], default=str)[:600])
                if o.get('reason'):
                    print('      reason', str(o['reason'])[:600])
        print('  discharged', sum(1 for o in r['obligations'] if o['status'] == 'discharged'), 'of', len(r['obligations']))
    import shutil; shutil.rmtree(scratch, ignore_errors=True)
