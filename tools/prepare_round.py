#!/usr/bin/env python3
"""tools/prepare_round.py <round>: scratch worktrees /tmp/wt<round>-Cnn and task files
/tmp/seed<round>-Cnn/TASK.md for a round of independent seeded changes (one sub-agent per
property; each gets only the property text).  Earlier mechanisms are listed as 'avoid'."""
import json
import os
import subprocess
import sys

VERIF = os.path.dirname(os.path.dirname(os.path.abspath(__file__)))
AVOID = {
 'C01': ['skipping the omit-tag cache when the element has no children', 'functools.lru_cache on tal.parse_defines'],
 'C02': ['isinstance(target, (int, float)) fast path in __quote', 'escaping & with the __re_amp regex'],
 'C03': ['prepare_attributes dropping repeated attribute names', 'content type from the meta element overriding the XML declaration in BaseTemplate.write'],
 'C04': ['lambda scope aliasing in the name rewriter', 'dict fast path in utils.lookup_attr'],
 'C05': ['merging rcontext into econtext only when len(rcontext) changed', 'scope keyword of a tal:define clause carried over to later clauses'],
 'C06': ['_interpolation stack moved to class level'],
 'C07': ['default marker value run through escaping in __quote'],
 'C08': ['repeat index variable named after the loop variable instead of id(node)'],
 'C09': ['merging rcontext into econtext only when len(rcontext) changed'],
 'C10': ['i18n backup variable named after the value', 'i18n:name stream variables named by name only'],
 'C11': ['lru_cache on parse_defines', 'PythonExpr rejection cache keyed by token text'],
 'C12': ['removing __token = None before an in-template macro call', 'token table line/column via str.splitlines'],
 'C13': ['`if handler:` instead of `is not None`', '__length = __stream.__len__ bound once per function'],
 'C14': ['mutable default argument in RepeatDict.__init__', 'search_path list not copied'],
 'C15': ['os.rename inside the with block before close', 'digest computed on a newline-normalised body'],
 'C16': ['search_path copied only if not a list', 'parse() storing resolved boolean_attributes on the instance'],
 'C17': ['meta charset searched only in the first 1024 bytes', 'XML detection by match_xml_declaration regex on str input'],
 'C18': ['empty tag sharing the namespace map (no copy)'],
 'C19': ['deferred error statements cached by token text', 'ExpressionParser caching compiled expressions by string'],
 'C20': ['$-parity decided by the regex \\$*$', 'visit_text gate regex (?<!\\$)\\$\\{'],
}


def main():
    rnd = sys.argv[1]
    tmpl = open(os.path.join(VERIF, 'tools', 'agent_prompt.txt')).read()
    props = [json.loads(l) for l in open(os.path.join(VERIF, 'properties.jsonl'))]
    for p in props:
        pid = p['id']
        wt, sd = '/tmp/wt%s-%s' % (rnd, pid), '/tmp/seed%s-%s' % (rnd, pid)
        subprocess.run(['git', '-C', '/repo', 'worktree', 'add', '-q', '--detach', wt, 'HEAD'], check=True)
        os.makedirs(sd, exist_ok=True)
        text = '%s: %s\n\n%s\n\n(It must hold for: %s)' % (pid, p['title'], p['statement'], p['quantifier']['text'])
        t = tmpl.replace('@R@', rnd).replace('@ID@', pid).replace('@PROP@', text)
        t = t.replace('@AVOID@', '\n'.join('  - ' + a for a in AVOID.get(pid, ['(none)'])))
        open(os.path.join(sd, 'TASK.md'), 'w').write(t)
    print('prepared', len(props))


if __name__ == '__main__':
    main()
