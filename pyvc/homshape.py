"""HOM-2 side condition (DESIGN.md 2.7): the single-character instance K2.__quote@char lifts to
all strings only if the string branch of the routine is a character homomorphism (up to the one
global `escape` flag).  That is a fact about the SHAPE of the code, decided on the AST of the
`source=` string compiler.py carries (re-read every run):

  * every assignment to `target` is either a *conversion* (decode(target), str(target),
    __converted: the value's string form, before escaping) or a *replace step*
    `target = target.replace(P, R)` with P a one-character constant or `quote`
    (one character by the caller's contract) and R a constant or `quote_entity`;
  * all conversions precede all replace steps;
  * a replace step is guarded only by tests that hold whenever P occurs in target and the
    string needs escaping: `target is not None`, `escape`, `P in target`,
    `quote is not None and quote in target`;
  * `escape` is assigned once, from `__re_needs_escape(target) is not None`, and every P that is a
    constant belongs to the character class of that pattern.

Each replace with a one-character pattern distributes over concatenation, so under this shape
f(s) = concat(f(c) for c in s) for the same value of the flag -- the lemma the @char proof needs.
A failed shape is replayed by a directed search over multi-character strings on the real routine
against the per-character specification."""
from __future__ import annotations

import ast
import json
import os
import subprocess
import time

from . import k2
from .replay import PY, REPO, VERIF


def _is_name(n, ident):
    return isinstance(n, ast.Name) and n.id == ident


def classify(fn):
    problems = []
    convs, reps = [], []
    parents = {}
    for node in ast.walk(fn):
        for ch in ast.iter_child_nodes(node):
            parents[ch] = node
    klass = k2.escape_class() or ''
    escape_assigns = []
    for node in ast.walk(fn):
        if isinstance(node, (ast.AugAssign, ast.AnnAssign)) and _is_name(node.target, 'target'):
            problems.append('line %d: augmented assignment to target' % node.lineno)
        if not isinstance(node, ast.Assign):
            continue
        if any(_is_name(t, 'escape') for t in node.targets):
            escape_assigns.append(node)
        if not any(_is_name(t, 'target') for t in node.targets):
            continue
        v = node.value
        if isinstance(v, ast.Call) and isinstance(v.func, ast.Attribute) and v.func.attr == 'replace' \
                and _is_name(v.func.value, 'target') and len(v.args) == 2 and not v.keywords:
            p, r = v.args
            okp = (isinstance(p, ast.Constant) and isinstance(p.value, str) and len(p.value) == 1) \
                or _is_name(p, 'quote')
            okr = (isinstance(r, ast.Constant) and isinstance(r.value, str)) or _is_name(r, 'quote_entity')
            if not (okp and okr):
                problems.append('line %d: replace(%s, %s) is not a one-character replace'
                                % (node.lineno, ast.unparse(p), ast.unparse(r)))
            if isinstance(p, ast.Constant) and isinstance(p.value, str) and p.value not in klass:
                problems.append('line %d: %r is not in the class of __re_needs_escape (%r)'
                                % (node.lineno, p.value, klass))
            reps.append((node, p))
            continue
        src = ast.unparse(v)
        allowed = ('decode(target)', 'str(target)', '__converted',
                   'str(target) if target is __converted else __converted')
        if src in allowed:
            convs.append(node)
            continue
        problems.append('line %d: `target = %s` is neither a conversion nor a one-character replace'
                        % (node.lineno, src))
    if convs and reps and max(c.lineno for c in convs) > min(r.lineno for r, _ in reps):
        problems.append('a conversion follows a replace step')
    for node, p in reps:
        cur = node
        pat = ast.unparse(p)
        ok_tests = {'target is not None', 'escape', '%s in target' % pat,
                    'quote is not None and quote in target'}
        while cur in parents and parents[cur] is not fn:
            par = parents[cur]
            if isinstance(par, ast.If):
                if cur in par.orelse:
                    problems.append('line %d: replace step in an else branch' % node.lineno)
                elif ast.unparse(par.test) not in ok_tests:
                    problems.append('line %d: replace of %s is guarded by `%s`'
                                    % (node.lineno, pat, ast.unparse(par.test)))
            elif isinstance(par, ast.Try):
                if cur in par.body or any(cur in h.body for h in par.handlers) or cur in par.finalbody:
                    problems.append('line %d: replace step inside try/except/finally body' % node.lineno)
            elif isinstance(par, (ast.For, ast.While, ast.With, ast.FunctionDef)):
                problems.append('line %d: replace step inside %s' % (node.lineno, type(par).__name__))
            cur = par
    if len(escape_assigns) != 1 or \
            ast.unparse(escape_assigns[0].value) != '__re_needs_escape(target) is not None':
        problems.append('`escape` is not assigned exactly once from `__re_needs_escape(target) is not None`')
    if not reps:
        problems.append('no replace steps found')
    return problems, len(convs), len(reps)


SEARCH = r'''
import itertools, json, sys
sys.path.insert(0, sys.argv[1] + '/src'); sys.path.insert(0, sys.argv[2])
from bounded import k2_harness as h
PIECES = ['&', 'amp;', 'lt;', '#38;', '<', '>', '"', "'", 'a', ';', '\0']
def spec(s, q, qe):
    if not any(c in s for c in h.prelude_env()['__re_needs_escape'].__self__.pattern.strip('[]').replace('\\', '')):
        return s
    out = []
    for c in s:
        out.append('&amp;' if c == '&' else '&lt;' if c == '<' else '&gt;' if c == '>' else
                   qe if (q is not None and c == q) else c)
    return ''.join(out)
bad = None
n = 0
for k in range(1, 5):
    for t in itertools.product(PIECES, repeat=k):
        s = ''.join(t)
        for q in (None, '"', "'", '\0'):
            n += 1
            qe = h.entity_of(q) if q is not None else '\xad'
            h.setup('same')
            try:
                got = h.quote(s, q, qe, None, h.MARKER)
            except Exception as e:
                got = 'raised %r' % (e,)
            want = spec(s, q, qe)
            if got != want:
                bad = {'target': s, 'quote': q, 'quote_entity': qe, 'expected': want, 'observed': got}
                break
        if bad: break
    if bad: break
print(json.dumps({'tried': n, 'violation': bad}))
'''


def unit(spec):
    t0 = time.time()
    src = k2.template_sources()['emit_func_convert_and_escape']['source']
    fn = ast.parse(src).body[0]
    problems, nconv, nrep = classify(fn)
    o = {'name': 'K2.__quote.hom.shape', 'expect': 'valid', 'backend': 'ast-shape', 'time': 0.0,
         'okind': 'hom', 'tried': 'ast-shape',
         'status': 'discharged' if not problems else 'failed',
         'text': 'the string branch of __quote is a character homomorphism: %d conversions, then '
                 '%d one-character replace steps guarded only by occurrence tests (side condition of '
                 'lemma HOM-2, which lifts K2.__quote@char to all strings)' % (nconv, nrep)}
    if problems:
        o['verifier_output'] = {'shape_violations': problems}
        env = dict(os.environ)
        env.pop('PYTHONPATH', None)
        try:
            p = subprocess.run([PY, '-c', SEARCH, REPO, VERIF], capture_output=True, text=True,
                               timeout=600, env=env)
            line = [ln for ln in p.stdout.strip().split('\n') if ln.startswith('{')]
            r = json.loads(line[-1]) if line else {'error': (p.stderr or p.stdout)[-800:]}
        except subprocess.TimeoutExpired:
            r = {'error': 'search timeout'}
        if r.get('violation'):
            o['confirmed'] = True
            o['witness'] = {'inputs': r['violation'],
                            'detail': 'the real __quote returns %r; the per-character specification gives %r'
                                      % (r['violation']['observed'], r['violation']['expected'])}
        else:
            o['confirmed'] = False
            o['search'] = r
    return {'unit': 'homshape', 'function': 'compiler.py::emit_func_convert_and_escape (source= text)',
            'obligations': [o], 'wall': time.time() - t0,
            'trusted': ['str.replace with a one-character pattern distributes over concatenation '
                        '(theorem of strings; conformance-tested)']}
