"""K3 schemas for METAL (C09, C05): calling convention of use-macro and the slot protocol."""
from pyvc.k3 import hole, schema_contracts

H1, H2 = hole(1), hole(2)

CALL = [
    # same stream, a COPY of the scope, same render-wide context, current i18n parameters
    "is_stream(ext_arg(%(i)d, 0))", "is_scope_copy(ext_arg(%(i)d, 1))", "is_rcontext(ext_arg(%(i)d, 2))",
    "ext_arg(%(i)d, 3) is ext_i18n(%(i)d, 'domain')", "ext_arg(%(i)d, 4) is ext_i18n(%(i)d, 'context')",
    "ext_arg(%(i)d, 5) is ext_i18n(%(i)d, 'target_language')",
]

SPECS = [
    dict(id='S-UseExternal',
         text='A<u metal:use-macro="e1"><f metal:fill-slot="s">%s</f></u>B' % H1,
         own_names=['macroname', '__slot_s'],
         ensures=[
             "evals(1) == 1",
             # exactly one call, of the macro object's `include`
             "ext_count() == 1", "ext_callee(0) is attr_of(val(1), 'include')",
         ] + [c % {'i': 0} for c in CALL] + [
             "ext_i18n(0, 'domain') is i18n0('domain')",
             # an error inside the macro is reported against the use-macro expression (C12)
             "ext_token(0) == token_pos(1)",
             # the macro sees the name it was called with and the caller's slot filler
             "scope_arg_visible(ext_arg(0, 1), 'macroname') == 'e1'",
             "scope_arg_visible(ext_arg(0, 1), '__slot_s') is not UNBOUND()",
             # the filler is not run by the caller; the macro's output lands between A and B
             "holes_here(1) == 0",
             "S() == S0() + 'A' + ext_out(0) + 'B'",
             # afterwards: the macro's global definitions are visible, macroname is restored
             "globals_visible('macroname')",
             "visible('macroname') is visible0('macroname') or global_now('macroname') is not UNBOUND()",
             # "fill-slots that name no slot are discarded": whatever the macro did with the filler, it
             # is not left behind in the caller's scope for a later macro to pick up
             # (a macro that itself publishes the name globally is its own business)
             "in_globals('__slot_s') or not in_local('__slot_s')",
         ],
         raises={'*': {'ensures': ["raised('e1') or ext_raised(0)"]}},
         serves=['C09', 'C05'], no_fresh=True),
    dict(id='S-UseExternal-filler-i18n',
         # a value inserted inside a slot filler is converted (and, for message objects, translated)
         # with the i18n settings of the filler's own elements: static linking check i18n_helpers_local
         text='A<u metal:use-macro="e1"><f metal:fill-slot="s" i18n:domain="fd"><i tal:content="e2"/>${e3}</f></u>B',
         own_names=['macroname', '__slot_s'],
         ensures=["evals(1) == 1", "ext_count() == 1"],
         raises={'*': {'ensures': ["raised('e1') or ext_raised(0)"]}},
         serves=['C09', 'C10'], no_fresh=True),
    dict(id='S-MacroUseInternal',
         text='A<m metal:define-macro="m">%s</m>B' % H1,
         ensures=[
             "ext_count() == 1", "ext_callee(0) is module_function('render_m')",
             # the caller's position is cleared: the macro function records its own failing
             # expression, the enclosing function must not add an unrelated one (C12)
             "ext_token(0) is None",
         ] + [c % {'i': 0} for c in CALL] + [
             "holes_here(1) == 0",
             "S() == S0() + 'A' + ext_out(0) + 'B'",
             "globals_visible()",
         ],
         raises={'*': {'ensures': ["ext_raised(0)"]}},
         serves=['C09', 'C05'], no_fresh=True),
    dict(id='S-MacroUseInternal-after-expr',
         text='A<i tal:content="e1"/><m metal:define-macro="m">%s</m>B' % H1,
         ensures=[
             "ext_count() == 1", "ext_callee(0) is module_function('render_m')",
             # an expression evaluated earlier must not be blamed for a failure inside the macro
             "ext_token(0) is None",
         ],
         raises={'*': {'ensures': ["raised('e1') or (ext_count() == 1 and ext_raised(0) and ext_token(0) is None)"]}},
         serves=['C12', 'C09'], no_fresh=True),
    dict(id='S-TwoMacros',
         # two macros in one template: the second one (and the whole-template function) do not touch
         # the first one's slot
         text='A<m metal:define-macro="m1"><d metal:define-slot="s">%s</d></m><n metal:define-macro="m2">y</n>B' % H1,
         ensures=["ext_count() == 2"],
         raises={'*': {'ensures': ["ext_raised(0) or ext_raised(1)"]}},
         serves=['C09'], no_fresh=True),
    dict(id='S-MacroBody', fname='render_m',
         text='A<m metal:define-macro="m">%s<d metal:define-slot="s">%s</d></m>B' % (H1, H2),
         ensures=[
             "holes(1) == 1",
             # no filler available (nothing stored, or the lookup failed): the default content
             "local('__slot_s') is not None or (holes(2) == 1 and ext_count() <= 1 "
             " and S() == S0() + '<m>' + out(1) + '<d>' + out(2) + '</d></m>')",
             # a filler was taken (once): it is called instead, on the same stream, a copy of
             # the scope and the same render-wide context; the default content is not run
             "local('__slot_s') is None or (holes(2) == 0 and ext_count() == 2 "
             " and local('__slot_s') is ext_result(0) and ext_callee(1) is ext_result(0) "
             " and is_stream(ext_arg(1, 0)) and is_scope_copy(ext_arg(1, 1)) and is_rcontext(ext_arg(1, 2)) "
             " and S() == S0() + '<m>' + out(1) + ext_out(1) + '</m>')",
             # ... and with NOTHING else: the filler keeps the i18n settings (domain, context, target
             # language) of the place it was written at, the macro's are not handed in (C10)
             "local('__slot_s') is None or (ext_nargs(1) == 3 and ext_nargs(1, 'kw') == 0)",
         ],
         raises={'*': {'ensures': ["raised('h1') or raised('h2') or (ext_count() == 2 and ext_raised(1))"]}},
         serves=['C09', 'C10'], no_fresh=True),
    dict(id='S-UseExternal-two-fills',
         # every filler of the element is discarded after the call, not only the last one
         text='A<u metal:use-macro="e1"><f metal:fill-slot="s">%s</f><g metal:fill-slot="t">x</g></u>B' % H1,
         own_names=['macroname', '__slot_s', '__slot_t'],
         ensures=[
             "evals(1) == 1", "ext_count() == 1",
             "scope_arg_visible(ext_arg(0, 1), '__slot_s') is not UNBOUND()",
             "scope_arg_visible(ext_arg(0, 1), '__slot_t') is not UNBOUND()",
             "in_globals('__slot_s') or not in_local('__slot_s')",
             "in_globals('__slot_t') or not in_local('__slot_t')",
         ],
         raises={'*': {'ensures': ["raised('e1') or ext_raised(0)"]}},
         serves=['C09', 'C05'], no_fresh=True),
    dict(id='S-MacroBody-slot-define', fname='render_m',
         # the statements of a define-slot element belong to its DEFAULT content: when the caller fills
         # the slot the element is replaced as a whole -- its tal:define is not evaluated and the filler
         # runs in the scope the slot element itself would have been entered with
         text='A<m metal:define-macro="m"><d metal:define-slot="s" tal:define="a e1">%s</d></m>B' % H1,
         own_names=['a'],
         ensures=[
             "local('__slot_s') is not None or (evals(1) == 1 and holes(1) == 1)",
             "local('__slot_s') is None or (evals(1) == 0 and holes(1) == 0 and ext_count() == 2 "
             " and ext_callee(1) is ext_result(0) and is_scope_copy(ext_arg(1, 1)) "
             " and scope_arg_visible(ext_arg(1, 1), 'a') is visible0('a'))",
             "visible('a') is visible0('a')",
         ],
         raises={'*': {'ensures': ["raised('e1') or raised('h1') or (ext_count() == 2 and ext_raised(1))"]}},
         serves=['C09', 'C05'], no_fresh=True),
    dict(id='S-TemplateBody-slot',
         # "whole templates used as macros": the template body itself is a macro body -- a slot defined
         # outside any define-macro takes the filler its user left in the scope, exactly like a slot of
         # a named macro does
         text='A<d metal:define-slot="s">%s</d>B' % H1,
         own_names=['__slot_s'],
         ensures=[
             # the filler stack bound in the scope is consulted: its pop() is the first thing called
             "visible0('__slot_s') is UNBOUND() or (ext_count() >= 1 and "
             "ext_callee(0) is attr_of(visible0('__slot_s'), 'pop'))",
             "visible0('__slot_s') is UNBOUND() or ext_raised(0) or local('__slot_s') is ext_result(0)",
             "local('__slot_s') is not None or (holes(1) == 1 and S() == S0() + 'A<d>' + out(1) + '</d>B')",
             "local('__slot_s') is None or (holes(1) == 0 and ext_count() == 2 "
             " and ext_callee(1) is local('__slot_s') and is_stream(ext_arg(1, 0)) "
             " and is_scope_copy(ext_arg(1, 1)) and is_rcontext(ext_arg(1, 2)) "
             " and S() == S0() + 'A' + ext_out(1) + 'B')",
         ],
         raises={'*': {'ensures': ["raised('h1') or (ext_count() == 2 and ext_raised(1))"]}},
         serves=['C09'], no_fresh=True),
    dict(id='S-UseExternal-filler-define',
         # a slot filler with its own local definition: the filler is compiled into a function of its
         # own that runs with the scope the MACRO hands it; saving / restoring the outer binding of the
         # name goes through that scope (static check scope_helpers_local on the emitted functions)
         text='A<u metal:use-macro="e1"><f metal:fill-slot="s" tal:define="len e2">%s ${len}</f></u>B' % H1,
         own_names=['macroname', '__slot_s'],
         ensures=["evals(1) == 1", "ext_count() == 1", "holes_here(1) == 0", "evals(2) == 0"],
         raises={'*': {'ensures': ["raised('e1') or ext_raised(0)"]}},
         serves=['C09', 'C05'], no_fresh=True),
    dict(id='S-ExtendMacro',
         # metal:extend-macro: the filler JOINS the chain of fillers for its slot -- in front of the ones
         # the extended macros' users left, once; where no chain exists yet it starts one that holds
         # exactly this filler
         text='A<u metal:extend-macro="e1"><f metal:fill-slot="s">%s</f></u>B' % H1,
         own_names=['macroname', '__slot_s'],
         ensures=[
             "evals(1) == 1", "holes_here(1) == 0",
             # no chain yet: only the macro is called, and it finds a chain holding exactly this filler
             "visible0('__slot_s') is not UNBOUND() or (ext_count() == 1 and "
             "chain_len(scope_arg_visible(ext_arg(0, 1), '__slot_s')) == 1)",
             # a chain exists: the filler is put in front of it, once, before the macro is called
             "visible0('__slot_s') is UNBOUND() or (ext_count() == 2 and "
             "ext_callee(0) is attr_of(visible0('__slot_s'), 'appendleft') and "
             "ext_callee(1) is attr_of(val(1), 'include'))",
         ],
         raises={'*': {'ensures': ["raised('e1') or ext_count() > 0"]}},
         serves=['C09'], no_fresh=True),
    dict(id='S-MacroBody-slots-nonascii', fname='render_m',
         # slot names are names, whatever alphabet they are written in: two slots whose names differ only
         # in non-ASCII letters are two slots (static check slot_names_distinct)
         text='A<m metal:define-macro="m"><d metal:define-slot="gr\u00f6\u00dfe">%s</d>'
              '<d metal:define-slot="gr\u00fc\u00dfe">%s</d></m>B' % (H1, H2),
         ensures=["ext_count() <= 4"],
         raises={'*': {'ensures': ["True"]}},
         serves=['C09'], no_fresh=True),
]

CONTRACTS = schema_contracts(SPECS)
