"""BaseTemplate.render (C12): what happens to an exception raised while rendering.

Property-derived postconditions: RecursionError passes through untouched; an exception outside the
Exception hierarchy (KeyboardInterrupt, SystemExit, GeneratorExit) is never turned into something
else; an Exception is re-raised as the object create_formatted_exception built from it (same
class + RenderError, same args) with the original traceback, or unchanged if no error record
exists; the joined stream is returned only on normal completion."""
from pyvc.vc import Contract
from pyvc.values import REC_FIELDS

CONTRACTS = []
BT = "template.py::BaseTemplate"
REC_FIELDS[BT] = {"value_repr": "any", "default_encoding": "str", "default_content_type": "str",
                  "content_type": "str", "content_encoding": "opt[str]"}

EXT = {
    'Scope': {'result': 'any'},
    'self.cook_check': {},
    'self.output_stream_factory': {'result': 'any', 'as': 'new_stream'},
    '__kw.get': {'result': 'any', 'as': 'kwget'},
    'self._render': {'raises_any': True, 'havoc': ['rcontext'], 'as': '_render'},
    'sys.exc_info': {'exc_info': True},
    'ExceptionFormatter': {'result': 'any'},
    'create_formatted_exception': {'result': 'exception', 'raises': ['TypeError'], 'as': 'cfe'},
    'raise_with_traceback': {'raises_arg': 0, 'as': 'reraise'},
    'formatter._errors.extend': {'as': 'extend'},
    'join': {'result': 'str'},
}

CONTRACTS.append(Contract(
    BT + ".render", params={"self": "rec[%s]" % BT, "__kw": "map[str,any]"},
    ensures=["not ext_raised_in('_render')", "result == ext_call_result('join', 0)"],
    raises={'*': {'ensures': [
        "ext_raised_in('_render')",
        # no partial output: join() is never reached
        "ext_index('join') == -1",
        # an exception that is not an Exception instance propagates as itself
        "raised_is_exception('_render') or exc is raised_by('_render')",
        # RecursionError is re-raised untouched
        "not raised_is('_render', 'RecursionError') or exc is raised_by('_render')",
        # an Exception is either re-raised unchanged or replaced by the object built from it by
        # create_formatted_exception (class preserved + RenderError, args preserved: B-EXC / utils)
        "exc is raised_by('_render') or (ext_index('cfe') != -1 and exc is ext_call_result('cfe', 0) "
        "and ext_call_arg('cfe', 0, 0) is raised_by('_render'))",
    ]}},
    ghost={'externals': EXT, 'harness': ('bounded.render_harness', 'render_raising'),
           'search': {'generator': ('bounded.render_harness', 'gen_exceptions')},
           # stated against the real code only (nested explicit render() calls through one call site):
           # "followed by the enclosing template/macro call sites from innermost to outermost" -- one
           # per level, also when the levels' records are equal
           'concrete_raises': {'*': ["call_sites_complete()"]}},
    serves=["C12"]))


# ---------------------------------------------------------------------------
# BaseTemplate.write (C17, C03): the sniffing decision, and that cook() sees it
# ---------------------------------------------------------------------------
WEXT = {
    'read_bytes': {'result': 'tuple[str,str,opt[str]]', 'raises': ['UnicodeDecodeError', 'LookupError']},
    'read_xml_encoding': {'result': 'opt[str]', 'as': 'rxe'},
    'detect_encoding': {'result': 'tuple[opt[str],str]', 'as': 'detect'},
    'self.cook': {'as': 'cook', 'raises_any': True,
                  'snapshot': ['self.content_type', 'self.content_encoding']},
}
SEEN_T = "ext_snapshot('cook', 0, 'self.content_type')"
SEEN_E = "ext_snapshot('cook', 0, 'self.content_encoding')"
ONCE = "ext_index('cook') != -1 and ext_index('cook', 1) == -1"
G_W = {}

CONTRACTS.append(Contract(
    BT + ".write@str", params={"self": "rec[%s]" % BT, "body": "str"},
    requires=["self.default_content_type != ''"],
    ensures=[
        # the document is compiled exactly once, as given
        ONCE + " and ext_call_arg('cook', 0, 0) == body",
        # "Documents that start with an XML declaration are treated as XML, all others as HTML":
        # the decision is in place when the document is compiled (PageTemplate.parse reads it)
        "not body.startswith('<?xml') or %s == 'text/xml'" % SEEN_T,
        "body.startswith('<?xml') or %s == (ext_call_result('detect', 0)[0] or self.default_content_type)" % SEEN_T,
        "body.startswith('<?xml') or (ext_call_arg('detect', 0, 0) == body and "
        "ext_call_arg('detect', 0, 1) == self.default_encoding)",
        "not body.startswith('<?xml') or %s == ext_call_result('rxe', 0)" % SEEN_E,
        "body.startswith('<?xml') or %s == ext_call_result('detect', 0)[1]" % SEEN_E,
        # ... and is what the attributes report afterwards
        "self.content_type == %s and self.content_encoding == %s" % (SEEN_T, SEEN_E),
    ],
    raises={'*': {'ensures': ["ext_raised_in('cook')"]}},
    ghost=dict(G_W, externals=WEXT, harness=('bounded.write_harness', 'write_str'),
               search={'generator': ('bounded.write_harness', 'gen_str_docs')}),
    serves=["C17", "C03"],
    notes="str input.  read_xml_encoding / detect_encoding are external here (their own contracts: "
          "contracts/utils_bytes.py); cook() is external and observes the instance at the call"))

CONTRACTS.append(Contract(
    BT + ".write@bytes", params={"self": "rec[%s]" % BT, "body": "bytes"},
    requires=["self.default_content_type != ''"],
    ensures=[
        "ext_call_arg('read_bytes', 0, 0) == body and ext_call_arg('read_bytes', 0, 1) == self.default_encoding",
        # the decoded document (no byte-order mark: read_bytes' contract) is what is compiled
        ONCE + " and ext_call_arg('cook', 0, 0) == ext_call_result('read_bytes', 0)[0]",
        "%s == (ext_call_result('read_bytes', 0)[2] or self.default_content_type)" % SEEN_T,
        "%s == ext_call_result('read_bytes', 0)[1]" % SEEN_E,
        "self.content_type == %s and self.content_encoding == %s" % (SEEN_T, SEEN_E),
    ],
    raises={'UnicodeDecodeError': {'ensures': ["ext_index('cook') == -1"]},
            'LookupError': {'ensures': ["ext_index('cook') == -1"]},
            '*': {'ensures': ["ext_raised_in('cook')"]}},
    ghost=dict(G_W, externals=WEXT, harness=('bounded.write_harness', 'write_bytes'),
               search={'generator': ('bounded.write_harness', 'gen_bytes_docs')}),
    serves=["C17", "C03"],
    notes="bytes input: everything is read_bytes' decision (verified: contracts/utils_bytes.py)"))
