"""Contracts for utils.read_bytes and friends (C17).

The postcondition is the sniffing rule of the property: BOM (longest first) > XML declaration >
meta charset > default, and the decoded document is the decoding of the bytes *after* the
byte-order mark ("no byte-order mark ... reaches the output")."""
from pyvc.vc import Contract

CONTRACTS = []


def C(*a, **k):
    c = Contract(*a, **k)
    CONTRACTS.append(c)
    return c


B8, B16LE, B16BE = "b'\\xef\\xbb\\xbf'", "b'\\xff\\xfe'", "b'\\xfe\\xff'"
B32LE, B32BE = "b'\\xff\\xfe\\x00\\x00'", "b'\\x00\\x00\\xfe\\xff'"
NOBOM = ("not body.startswith(%s) and not body.startswith(%s) and not body.startswith(%s) "
         "and not body.startswith(%s)" % (B8, B16LE, B16BE, B32BE))

DECL = "body[:body.find(b'?>')]"
C("utils.py::read_xml_encoding", params={"body": "bytes"},
  ensures=[
      "result is None or body.startswith(b'<?xml')",
      # "the encoding named in its XML declaration": the name is taken from the declaration,
      # i.e. from the text before its closing '?>' -- not from anywhere else in the document
      "result is None or body.find(b'?>') != -1",
      "result is None or (not re_nomatch('RE_ENCODING', 'search', %s) and "
      "result == dec('ascii', re_group('RE_ENCODING', 'search', %s, 1)))" % (DECL, DECL),
      "not (body.startswith(b'<?xml') and body.find(b'?>') != -1 and "
      "not re_nomatch('RE_ENCODING', 'search', %s)) or result is not None" % DECL,
  ],
  result="opt[str]", serves=["C17"],
  ghost={'harness': ('bounded.bytes_harness', 'read_xml_encoding'),
         'search': {'generator': ('bounded.bytes_harness', 'gen_xml_decls')}},
  notes="RE_ENCODING's match is an uninterpreted function of the searched bytes (plus structural "
        "facts: group 1 is mandatory and ASCII-only)")

TEXT = "ascii_ignore(body)"
M1 = "re_nomatch('RE_META', 'search', %s)" % TEXT
M2 = "re_nomatch('RE_META_CONTENT_FIRST', 'search', %s)" % TEXT
C("utils.py::detect_encoding", params={"body": "bytes", "default_encoding": "str"},
  ensures=[
      # the WHOLE document is searched for the meta element, in either attribute order
      "%s or (result[0] == re_group('RE_META', 'search', %s, 1) "
      "and result[1] == re_group('RE_META', 'search', %s, 2))" % (M1, TEXT, TEXT),
      "not %s or %s or (result[0] == re_group('RE_META_CONTENT_FIRST', 'search', %s, 1) "
      "and result[1] == re_group('RE_META_CONTENT_FIRST', 'search', %s, 2))" % (M1, M2, TEXT, TEXT),
      "not (%s and %s) or (result[0] is None and result[1] == default_encoding)" % (M1, M2),
  ],
  result="tuple[opt[str],str]", serves=["C17"],
  ghost={'search': {'generator': ('bounded.bytes_harness', 'gen_meta_docs')},
         'harness': ('bounded.bytes_harness', 'detect_encoding')},
  notes="bytes input (the read_bytes call path); each pattern's match is an uninterpreted function of "
        "the searched text; that the two patterns cover both attribute orders is unit re_meta.order")

C("utils.py::read_bytes", params={"body": "bytes", "default_encoding": "str"},
  inline=["encode_string"],
  ensures=[
      # --- byte-order marks, longest first; the document is the payload after the BOM
      "not body.startswith(%s) or result[0] == dec('utf-32-le', body[4:])" % B32LE,
      "not body.startswith(%s) or result[0] == dec('utf-32-be', body[4:])" % B32BE,
      "not (body.startswith(%s) and not body.startswith(%s)) or result[0] == dec('utf-16-le', body[2:])"
      % (B16LE, B32LE),
      "not body.startswith(%s) or result[0] == dec('utf-16-be', body[2:])" % B16BE,
      "not body.startswith(%s) or result[0] == dec('utf-8', body[3:])" % B8,
      # with a BOM the content type is XML exactly if the document starts with a declaration
      "(%s) or ((result[2] == 'text/xml') == result[0].startswith('<?xml'))" % NOBOM,
      "(%s) or result[2] is None or result[2] == 'text/xml'" % NOBOM,
      # --- no BOM: the reported encoding is the one used for decoding
      "not (%s) or result[0] == dec(result[1], body)" % NOBOM,
      # XML declaration in an ASCII-compatible encoding => XML
      "not ((%s) and body.startswith(b'<?xml')) or result[2] == 'text/xml'" % NOBOM,
  ],
  raises={"UnicodeDecodeError": {}, "LookupError": {}},
  result="tuple[str,str,opt[str]]", serves=["C17"])
