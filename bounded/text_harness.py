"""Concrete demonstration harness for PageTextTemplateFile.render (C20/C17): real text templates on
scratch files written in several encodings (with and without byte-order marks), rendered through
the real class; `super().render` is observed by wrapping PageTemplateFile.render."""
import os
import shutil
import tempfile

_obs = {}


def render_file(self, vars):
    from chameleon.zpt import template as zt
    real = zt.PageTemplateFile.render
    _obs.clear()

    def spy(inst, **kw):
        r = real(inst, **kw)
        _obs.setdefault('calls', []).append({'kwargs': kw, 'result': r})
        return r
    zt.PageTemplateFile.render = spy
    try:
        return zt.PageTextTemplateFile.render(self, **vars)
    finally:
        zt.PageTemplateFile.render = real


def gen_files():
    from chameleon.zpt.template import PageTextTemplateFile
    d = tempfile.mkdtemp(prefix='pyvc-text-')
    try:
        n = 0
        text = 'Grüße ${v} <b> & $$\n'
        for codec in ('utf-8', 'utf-8-sig', 'utf-16', 'utf-16-le', 'utf-32'):
            data = text.encode(codec)
            if codec == 'utf-16-le':
                data = b'\xff\xfe' + data
            for enc in (None, 'utf-8', 'latin-1', 'utf-16-be'):
                n += 1
                p = os.path.join(d, 't%d.txt' % n)
                with open(p, 'wb') as f:
                    f.write(data)
                kw = {} if enc is None else {'encoding': enc}
                t = PageTextTemplateFile(p, **kw)
                yield ({'self': t, 'vars': {'v': 'wé'}}, {})
    finally:
        shutil.rmtree(d, ignore_errors=True)


def ext_index(nm, k=0):
    calls = _obs.get('calls', [])
    return k if k < len(calls) else -1


def ext_call_result(nm, k):
    return _obs['calls'][k]['result']


def ext_call_kwarg(nm, k, kw):
    if kw == '**':
        raise NotImplementedError      # identity of a spread mapping is not observable
    return _obs['calls'][k]['kwargs'].get(kw)
