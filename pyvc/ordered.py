"""C14: "identical string across calls, threads and processes" -- the iteration order of a set of
strings depends on the process's hash seed, so no set may be ITERATED on the way from a template to
its compiled code.  Decided on the AST of the compile-path modules: every set-valued expression
(set()/frozenset() call, set literal, set comprehension) and every local name or parameter bound
to one is used only for membership tests, len/bool, set algebra, set methods, or under sorted()."""
from __future__ import annotations

import ast
import json
import os
import subprocess
import time

from .frames import ob, parse
from .replay import PY, REPO

MODULES = ['zpt/program.py', 'tal.py', 'compiler.py', 'parser.py', 'astutil.py', 'codegen.py',
           'tales.py', 'nodes.py', 'tokenize.py', 'namespaces.py', 'i18n.py', 'template.py',
           'zpt/template.py']
ORDER_FREE = {'sorted', 'len', 'bool', 'any', 'all', 'min', 'max', 'sum', 'isinstance', 'set',
              'frozenset', 'hash', 'id', 'type', 'repr'}
SET_METHODS = {'add', 'update', 'discard', 'remove', 'clear', 'union', 'intersection', 'difference',
               'issubset', 'issuperset', 'isdisjoint', 'copy', 'symmetric_difference',
               'intersection_update', 'difference_update', '__contains__'}


def is_set_expr(n):
    if isinstance(n, (ast.Set, ast.SetComp)):
        return True
    return isinstance(n, ast.Call) and isinstance(n.func, ast.Name) and n.func.id in ('set', 'frozenset')


class Audit:
    def __init__(self):
        self.trees = {}
        self.funcs = {}      # simple name -> [(rel, FunctionDef)]
        for rel in MODULES:
            try:
                t = parse(rel)
            except Exception:
                continue
            self.trees[rel] = t
            for n in ast.walk(t):
                if isinstance(n, (ast.FunctionDef, ast.AsyncFunctionDef)):
                    self.funcs.setdefault(n.name, []).append((rel, n))
        self.problems = []
        self.seen = set()

    def parents(self, root):
        p = {}
        for n in ast.walk(root):
            for c in ast.iter_child_nodes(n):
                p[c] = n
        return p

    def enclosing_function(self, node, par):
        cur = node
        while cur in par:
            cur = par[cur]
            if isinstance(cur, (ast.FunctionDef, ast.AsyncFunctionDef, ast.Lambda)):
                return cur
        return None

    def check_use(self, rel, node, par, why, depth=0):
        """node evaluates to a set: is the way its value is consumed order-free?"""
        key = (rel, getattr(node, 'lineno', 0), getattr(node, 'col_offset', 0), depth)
        if key in self.seen or depth > 3:
            return
        self.seen.add(key)
        p = par.get(node)
        if p is None:
            return
        where = '%s:%d' % (rel, getattr(node, 'lineno', 0))
        if isinstance(p, ast.Compare):
            if node in p.comparators and all(isinstance(o, (ast.In, ast.NotIn, ast.Eq, ast.NotEq, ast.LtE,
                                                                ast.GtE, ast.Lt, ast.Gt)) for o in p.ops):
                return
            return
        if isinstance(p, (ast.For, ast.AsyncFor)) and p.iter is node:
            self.problems.append('%s: %s is iterated by a for loop' % (where, why))
            return
        if isinstance(p, ast.comprehension) and p.iter is node:
            gp = par.get(p)
            # building another set / a membership dict from it loses the order again
            if isinstance(gp, ast.SetComp):
                return self.check_use(rel, gp, par, why, depth + 1)
            self.problems.append('%s: %s is iterated by a comprehension' % (where, why))
            return
        if isinstance(p, ast.Starred):
            self.problems.append('%s: %s is unpacked' % (where, why))
            return
        if isinstance(p, ast.BinOp):
            return self.check_use(rel, p, par, why, depth + 1)
        if isinstance(p, ast.BoolOp) or isinstance(p, ast.IfExp):
            return self.check_use(rel, p, par, why, depth + 1)
        if isinstance(p, ast.Attribute) and p.value is node:
            if p.attr in SET_METHODS:
                return
            return
        if isinstance(p, ast.Call):
            if isinstance(p.func, ast.Name) and p.func.id in ORDER_FREE:
                if p.func.id in ('set', 'frozenset'):
                    return self.check_use(rel, p, par, why, depth + 1)
                return
            if isinstance(p.func, ast.Name) and p.func.id in ('list', 'tuple', 'enumerate', 'zip', 'iter', 'next',
                                                              'map', 'filter', 'reversed'):
                self.problems.append('%s: %s is turned into a sequence by %s()' % (where, why, p.func.id))
                return
            if isinstance(p.func, ast.Attribute) and p.func.attr == 'join':
                self.problems.append('%s: %s is joined' % (where, why))
                return
            # passed on: follow the parameter in the callee(s) of that name
            fname = p.func.id if isinstance(p.func, ast.Name) else \
                p.func.attr if isinstance(p.func, ast.Attribute) else None
            if fname and fname in self.funcs:
                for crel, fn in self.funcs[fname]:
                    params = [a.arg for a in fn.args.posonlyargs + fn.args.args]
                    if params and params[0] in ('self', 'cls') and isinstance(p.func, ast.Attribute):
                        params = params[1:]
                    pname = None
                    if node in p.args:
                        i = p.args.index(node)
                        pname = params[i] if i < len(params) else None
                    for kw in p.keywords:
                        if kw.value is node:
                            pname = kw.arg
                    if pname:
                        self.check_name(crel, fn, pname, '%s (argument %s of %s)' % (why, pname, fname), depth + 1)
            return
        if isinstance(p, ast.Assign) and p.value is node:
            fn = self.enclosing_function(p, par)
            for t in p.targets:
                if isinstance(t, ast.Name) and fn is not None:
                    self.check_name(rel, fn, t.id, '%s (bound to %s)' % (why, t.id), depth + 1, after=p.lineno)
            return
        if isinstance(p, ast.keyword):
            return self.check_use(rel, p, par, why, depth)     # handled through the Call branch
        if isinstance(p, ast.Return):
            return

    def check_name(self, rel, fn, name, why, depth, after=0):
        par = self.parents(fn)
        for n in ast.walk(fn):
            if isinstance(n, ast.Name) and n.id == name and isinstance(n.ctx, ast.Load) and \
                    getattr(n, 'lineno', 0) >= after:
                self.check_use(rel, n, par, why, depth)

    def run(self):
        for rel, tree in self.trees.items():
            par = self.parents(tree)
            for n in ast.walk(tree):
                if is_set_expr(n):
                    self.check_use(rel, n, par, 'the set built at %s:%d' % (rel, n.lineno))
        return self.problems


DEMO = r'''
import json, subprocess, sys, os
src = sys.argv[1]
code = ("import sys; sys.path.insert(0, %r + '/src'); from chameleon import PageTemplate; "
        "print(PageTemplate('<input i18n:attributes=\"title; placeholder; alt; name\" "
        "i18n:translate=\"\" tal:attributes=\"a 1; b 2; c 3\" />x')())" % src)
outs = set()
for seed in range(6):
    env = dict(os.environ, PYTHONHASHSEED=str(seed))
    env.pop('PYTHONPATH', None)
    outs.add(subprocess.run([sys.executable, '-c', code], capture_output=True, text=True, env=env).stdout)
print(json.dumps({'distinct_outputs': sorted(outs)}))
'''


def unit(spec):
    t0 = time.time()
    problems = Audit().run()
    o = ob('compile_path.no_set_iteration', not problems,
           'no set / frozenset is iterated, unpacked or turned into a sequence between a template and '
           'its compiled code (set iteration order depends on the hash seed of the process)',
           {'order_dependent_uses': problems})
    if problems:
        env = dict(os.environ)
        env.pop('PYTHONPATH', None)
        try:
            p = subprocess.run([PY, '-c', DEMO, REPO], capture_output=True, text=True, timeout=300, env=env)
            line = [ln for ln in p.stdout.strip().split('\n') if ln.startswith('{')]
            d = json.loads(line[-1]) if line else None
        except Exception:
            d = None
        if d and len(d['distinct_outputs']) > 1:
            o['confirmed'] = True
            o['witness'] = {'inputs': {'template': '<input i18n:attributes="title; placeholder; alt; name" ... />',
                                       'PYTHONHASHSEED': '0..5'},
                            'detail': 'the same template renders %d different strings: %r'
                                      % (len(d['distinct_outputs']), d['distinct_outputs'][:2])}
    return {'unit': 'ordered', 'function': 'compile path (%d modules)' % len(MODULES),
            'obligations': [o], 'wall': time.time() - t0,
            'assumptions': ['dicts and lists iterate in insertion order (language guarantee)',
                            'data flow is followed through local names and (by name) through parameters, '
                            'three levels deep']}
