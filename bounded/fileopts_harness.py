"""Concrete demonstration harness for PageTemplateFile.__init__ -> post_init (C16, C19): a real file
template is constructed with a recording loader class; what the relative loader is built with is
compared with the options the template itself was given."""
import itertools
import os
import shutil
import tempfile

_obs = {}


class SpyLoader:
    def __init__(self, search_path=None, **kw):
        _obs['search_path'] = list(search_path or [])
        _obs['options'] = dict(kw)

    def bind(self, cls):
        _obs['bound'] = cls
        return self


def post_init(self, search_path, package_name, loader_class, config):
    from chameleon.zpt.template import PageTemplateFile
    _obs.clear()
    _obs['given'] = dict(config)
    d = tempfile.mkdtemp(prefix='pyvc-fopt-')
    try:
        p = os.path.join(d, 't.pt')
        with open(p, 'w') as f:
            f.write('<p>x</p>')
        PageTemplateFile(p, search_path=list(search_path), loader_class=SpyLoader, **config)
    finally:
        shutil.rmtree(d, ignore_errors=True)


def gen_configs():
    for strict, auto, restricted, trim in itertools.product((True, False), (True, False), (True, False), (True, False)):
        cfg = {'strict': strict, 'auto_reload': auto, 'restricted_namespace': restricted,
               'trim_attribute_space': trim, 'boolean_attributes': set(), 'default_expression': 'python'}
        yield ({'self': None, 'search_path': ['/nonexistent'], 'package_name': None, 'loader_class': None,
                'config': cfg}, {})


def loader_gets_every_option():
    """the relative loader is built with every option the template was given, value for value --
    also the false / empty ones"""
    return _obs.get('options') == _obs.get('given')
