"""Concrete (CPython) versions of the spec primitives."""


def text(t):
    """the plain string value of a str/Token"""
    return str.__str__(t) if isinstance(t, str) else t


def implies(a, b):
    return (not a) or b
