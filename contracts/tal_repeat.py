"""Contracts for tal.RepeatItem / RepeatDict (C08).

Postconditions state the position-derived values the property lists (index, number, even/odd/
parity, start, end, letter/Letter, roman/Roman) as functions of the number of items consumed;
they hold for unbounded positions (beyond 26 and 3999)."""
from pyvc.vc import Contract
from pyvc.values import REC_FIELDS

CONTRACTS = []

RI = "tal.py::RepeatItem"
REC_FIELDS[RI] = {"length": "int", "_iterator": "rec[builtins::ListIter]"}
REC_FIELDS["builtins::ListIter"] = {"remaining": "int"}
SELF = {"self": "rec[%s]" % RI}
# representation invariant of a RepeatItem created by RepeatDict.__call__ and advanced by the
# emitted `for` loop: between 1 and `length` items have been taken when a template reads it
INV = ["0 <= remaining(self._iterator)", "remaining(self._iterator) <= self.length"]


def C(*a, **k):
    c = Contract(*a, **k)
    CONTRACTS.append(c)
    return c


C("builtins::ListIter.__length_hint__", params={"self": "rec[builtins::ListIter]"},
  ensures=["result == self.remaining"], result="int", kind="axiom",
  notes="trusted: list_iterator.__length_hint__() is the number of items not yet yielded "
        "(conformance-tested)")

C(RI + ".index", params=SELF, is_property=True, requires=INV,
  ensures=["result == consumed(self) - 1"], result="int", serves=["C08"])
C(RI + ".number", params=SELF, is_property=True, requires=INV,
  ensures=["result == consumed(self)"], result="int", serves=["C08"])
C(RI + ".start", params=SELF, is_property=True, requires=INV,
  ensures=["(result != 0) == (consumed(self) == 1)", "result == 0 or result == 1"],
  result="int", serves=["C08"])
C(RI + ".end", params=SELF, is_property=True, requires=INV,
  ensures=["(result != 0) == (consumed(self) == self.length)", "result == 0 or result == 1"],
  result="int", serves=["C08"])
C(RI + ".odd", params=SELF, is_property=True, requires=INV,
  ensures=["result == ('odd' if (consumed(self) - 1) % 2 == 1 else '')"],
  result="str", serves=["C08"])
C(RI + ".even", params=SELF, is_property=True, requires=INV,
  ensures=["result == ('even' if (consumed(self) - 1) % 2 == 0 else '')"],
  result="str", serves=["C08"])
C(RI + ".parity", params=SELF, is_property=True, requires=INV,
  ensures=["result == ('even' if (consumed(self) - 1) % 2 == 0 else 'odd')"],
  result="str", serves=["C08"])

C(RI + "._letter", params={"self": "rec[%s]" % RI, "base": "int", "radix": "int"},
  defaults={"base": 97, "radix": 26},
  requires=INV + ["radix >= 2", "0 <= base", "base + radix <= 1114112"],
  ensures=["result == letters(consumed(self) - 1, base, radix)"],
  raises={"TypeError": {"when": "consumed(self) - 1 < 0", "iff": True}},
  loops={1: {"inv": ["index >= 0",
                     "letters(consumed(self) - 1, base, radix) == letters(index, base, radix) + s"],
             "lemmas": ["unfold_letters(index, base, radix)"]}},
  result="str", serves=["C08"])
C(RI + ".Letter", params=SELF, is_property=True, requires=INV,
  ensures=["result == letters(consumed(self) - 1, 65, 26)"],
  raises={"TypeError": {"when": "consumed(self) - 1 < 0", "iff": True}},
  result="str", serves=["C08"])
C(RI + ".Roman", params=SELF, is_property=True, requires=INV + ["consumed(self) >= 1"],
  ensures=["result == roman_table(consumed(self))"],
  loops={1: {"cuts": {
      1: ["0 <= n", "n < 1000", "n == consumed(self) % 1000",
          "s == 'M' * (consumed(self) // 1000)"],
      5: ["0 <= n", "n < 100", "n == consumed(self) % 100",
          "s == 'M' * (consumed(self) // 1000) + roman_digit((consumed(self) // 100) % 10, 'C', 'D', 'M')"],
      9: ["0 <= n", "n < 10", "n == consumed(self) % 10",
          "s == 'M' * (consumed(self) // 1000) + roman_digit((consumed(self) // 100) % 10, 'C', 'D', 'M')"
          " + roman_digit((consumed(self) // 10) % 10, 'X', 'L', 'C')"],
  }}},
  result="str", serves=["C08"],
  notes="greedy subtraction (code) == per-digit table (spec) for every position >= 1")


# ---------------------------------------------------------------------------
# RepeatDict.__call__ (C08): what getname('repeat')(name, iterable) hands to the emitted loop.
# The K3 model of tal:repeat (pyvc/k3.py repeat_call) relies on exactly this contract.
# ---------------------------------------------------------------------------
RD_EXT = {
    'list': {'result': 'seq[any]', 'raises_any': True},
    'iter': {'result': 'any'},
    'RepeatItem': {'result': 'any', 'as': 'item'},
}
C("tal.py::RepeatDict.__call__", params={"self": "any", "key": "str", "iterable": "any"},
  ensures=[
      # None repeats nothing; anything else is materialised exactly once, up front
      "iterable is not None or (result[1] == 0 and ext_index('list') == -1)",
      "iterable is None or (ext_index('list') == 0 and ext_index('list', 1) == -1 and "
      "ext_call_arg('list', 0, 0) is iterable and result[1] == len(ext_call_result('list', 0)))",
      # the loop iterates over that materialised sequence ...
      "result[0] is ext_call_result('iter', 0) and ext_index('iter', 1) == -1",
      "iterable is None or ext_call_arg('iter', 0, 0) == ext_call_result('list', 0)",
      "iterable is not None or len(ext_call_arg('iter', 0, 0)) == 0",
      # ... and repeat[key] is a RepeatItem over the SAME iterator and length, so that the
      # position it reports follows the loop
      "ext_index('item', 1) == -1 and ext_call_arg('item', 0, 0) is result[0] and "
      "ext_call_arg('item', 0, 1) == result[1]",
      "ext_index('setitem', 1) == -1 and ext_call_arg('setitem', 0, 0) is self and "
      "ext_call_arg('setitem', 0, 1) == key and ext_call_arg('setitem', 0, 2) is ext_call_result('item', 0)",
      "ext_index('setitem') > ext_index('item')",
  ],
  raises={'*': {'ensures': ["ext_raised_in('list')", "ext_index('setitem') == -1"]}},
  result="tuple[any,int]",
  ghost={'externals': RD_EXT, 'opaque_subscript': True,
         'harness': ('bounded.repeat_harness', 'repeat_call'),
         'search': {'generator': ('bounded.repeat_harness', 'gen_iterables')}},
  serves=["C08", "C01"],
  notes="list()/iter()/RepeatItem() are events of the ghost trace; a non-iterable operand raises "
        "whatever list() raises and nothing is registered")


# ---------------------------------------------------------------------------------------
# tal.ErrorInfo.__init__ (C13): the K3 schemas assume, at the call the emitted on-error handler makes,
# that a (line, column) pair is all the constructor needs - proved here for every such pair
# ---------------------------------------------------------------------------------------

REC_FIELDS["tal.py::ErrorInfo"] = {"type": "any", "value": "any", "lineno": "opt[int]", "offset": "opt[int]"}
C("tal.py::ErrorInfo.__init__",
  params={"self": "rec[tal.py::ErrorInfo]", "err": "any", "position": "tuple[opt[int],opt[int]]"},
  ensures=["self.lineno == position[0]", "self.offset == position[1]"],
  serves=["C13"],
  notes="no exception may escape for any (line, column) pair: the precondition the K3 call site "
        "`call:ErrorInfo.pre[position]` establishes")
