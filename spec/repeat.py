"""Spec functions for tal.RepeatItem (C08).  `letters` and the digit-table Roman numeral are
written independently of the code under verification."""
from spec.prim_concrete import *  # noqa: F401,F403


def consumed(r):
    """number of items the loop has taken from the iterator so far"""
    return r.length - remaining(r._iterator)


def roman_digit(d, one, five, ten):
    """the classical per-decimal-digit table: 0..9 written with the symbols for 1, 5 and 10"""
    return ('' if d == 0 else one if d == 1 else one + one if d == 2 else one + one + one if d == 3
            else one + five if d == 4 else five if d == 5 else five + one if d == 6
            else five + one + one if d == 7 else five + one + one + one if d == 8 else one + ten)


def roman_table(n):
    """Roman numeral of n >= 1 by the digit table; thousands are written as repeated M"""
    return ('M' * (n // 1000) + roman_digit((n // 100) % 10, 'C', 'D', 'M')
            + roman_digit((n // 10) % 10, 'X', 'L', 'C') + roman_digit(n % 10, 'I', 'V', 'X'))
