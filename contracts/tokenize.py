"""Contracts for src/chameleon/tokenize.py (K1).

Top-level postconditions come from C11/C12 ("token, offset, line and column identify exactly
the offending substring: source[offset:offset+len(token)] equals the token") and C03 ("the
token stream concatenates back to the input with contiguous source positions"): every
operation that derives a token from a token must preserve `anchored`.
"""
from pyvc.vc import Contract

CONTRACTS = []


def C(*a, **k):
    c = Contract(*a, **k)
    CONTRACTS.append(c)
    return c


C("tokenize.py::Token.__getitem__",
  params={"self": "Token", "index": "slice"},
  requires=["index.start is None or (0 <= index.start and index.start <= len(self))"],
  ensures=["result.pos == self.pos + (0 if index.start is None else index.start)",
           "text(result) == text(self)[index]",
           "same_origin(result, self)",
           "not anchored(self) or anchored(result)"],
  result="Token", serves=["C11", "C12", "C03", "C06"],
  notes="negative starts are outside the precondition; call sites must establish it")

C("tokenize.py::Token.__add__",
  params={"self": "Token", "other": "opt[str]"},
  ensures=["result.pos == self.pos", "same_origin(result, self)",
           "text(result) == (text(self) if other is None else text(self) + other)"],
  result="Token", serves=["C11"])

C("tokenize.py::Token.replace",
  params={"self": "Token", "old": "str", "new": "str"},
  ensures=["result.pos == self.pos", "same_origin(result, self)",
           "text(result) == text(self).replace(old, new)"],
  result="Token", serves=["C11"])

C("tokenize.py::Token.split",
  params={"self": "Token", "sep": "opt[str]"}, defaults={"sep": None},
  requires=["sep is None or len(sep) > 0"],
  models={"str.split.elem": "any", "str.split.quantified": False},
  ensures=[
      # C11: every part is a token that denotes exactly its own slice of the source
      "all(is_token(result[j]) for j in range(0, len(result)))",
      "all(same_origin(result[j], self) for j in range(0, len(result)))",
      "not anchored(self) or all(anchored(result[j]) for j in range(0, len(result)))",
  ],
  loops={1: {
      "types": {"l_": "seq[any]", "s": "any"},
      "inv": [
          "len(l_) == len(entry_l_)",
          # offset (within self) of the end of the previous part plus the separator
          "pos == (0 if _i == 0 else split_offset(entry_l_, _i - 1) + len(split_part(entry_l_, _i - 1)) "
          "        + (0 if sep is None else len(sep)))",
      ],
      "lemmas": ["split_facts(entry_l_, _i)", "split_facts(entry_l_, _i - 1)",
                 "self.source is None or substr_lemma(self.source, self.pos, len(self), "
                 "split_offset(entry_l_, _i), len(split_part(entry_l_, _i)))"],
      # element _i after iteration _i (lifted to every element when the loop exits)
      "each": [
          "is_token(l_[_i])", "same_origin(l_[_i], self)",
          "l_[_i].pos == self.pos + split_offset(entry_l_, _i)",
          "text(l_[_i]) == split_part(entry_l_, _i)",
          "not anchored(self) or anchored(l_[_i])",
      ],
  }},
  result="seq[any]", serves=["C11", "C12"],
  ghost={"search": {"alphabet": "a ;", "maxlen": 3, "src_maxlen": 4, "unanchored": False}},
  notes="str.split is a trusted model with ghost offsets; WSFIND lemma for whitespace splits")

C("tokenize.py::Token.lstrip",
  params={"self": "Token", "chars": "opt[str]"}, defaults={"chars": None},
  requires=["chars is None"],
  ensures=["same_origin(result, self)",
           "result.pos >= self.pos",
           "result.pos + len(result) == self.pos + len(self)",
           "text(result) == text(self).lstrip()",
           "not anchored(self) or anchored(result)"],
  result="Token", serves=["C11", "C12"],
  notes="chars=None (whitespace) is the only form used in the tree besides strip('()')")

C("tokenize.py::Token.rstrip",
  params={"self": "Token", "chars": "opt[str]"}, defaults={"chars": None},
  requires=["chars is None"],
  ensures=["same_origin(result, self)",
           "result.pos == self.pos",
           "len(result) <= len(self)",
           "text(result) == text(self).rstrip()",
           "not anchored(self) or anchored(result)"],
  result="Token", serves=["C11", "C12"])

C("tokenize.py::Token.strip",
  params={"self": "Token", "chars": "opt[str]"}, defaults={"chars": None},
  requires=["chars is None"],
  ensures=["same_origin(result, self)",
           "result.pos >= self.pos",
           "result.pos + len(result) <= self.pos + len(self)",
           "text(result) == text(self).lstrip().rstrip()",
           "not anchored(self) or anchored(result)"],
  result="Token", serves=["C11", "C12"])

def _is_const(v, text):
    from pyvc import models
    return models.is_concrete(v) and models.concretise(v) == text


# the one other form used in the tree: name.strip('()') in tal.parse_defines
for _m, _posts in (("lstrip", ["result.pos + len(result) == self.pos + len(self)",
                               "text(result) == text(self).lstrip('()')"]),
                   ("rstrip", ["result.pos == self.pos", "text(result) == text(self).rstrip('()')"]),
                   ("strip", ["result.pos + len(result) <= self.pos + len(self)",
                              "text(result) == text(self).strip('()')"])):
    C("tokenize.py::Token.%s@chars" % _m, params={"self": "Token", "chars": "str"},
      requires=["chars == '()'"],
      ensures=["same_origin(result, self)", "result.pos >= self.pos"] + _posts +
              ["not anchored(self) or anchored(result)"],
      result="Token", serves=["C11", "C12"],
      ghost={'fixed_params': {'chars': '()'},
             'search': {'alphabet': 'a ()', 'maxlen': 3, 'src_maxlen': 4, 'unanchored': False,
                        'values': {'chars': ["'()'"]}},
             'applies_when': lambda args, kwargs: bool(args) and _is_const(args[0], '()')},
      notes="explicit character set (the set used by the tree: '()')")

C("tokenize.py::Token.location",
  params={"self": "Token"}, is_property=True,
  requires=["self.source is None or (0 <= self.pos and self.pos <= len(self.source))"],
  ensures=[
      # no source: the documented fallback
      "self.source is not None or (result[0] == 0 and result[1] == self.pos)",
      # line = 1 + number of newlines before pos  (count is an uninterpreted function)
      "self.source is None or result[0] == 1 + self.source[:self.pos].count('\\n')",
      # column: distance to the start of the line, i.e. the text between is newline-free and
      # is preceded by a newline or the start of the source
      "self.source is None or (0 <= result[1] and result[1] <= self.pos)",
      "self.source is None or '\\n' not in self.source[:self.pos][self.pos - result[1]:]",
      "self.source is None or self.pos - result[1] == 0 "
      "or self.source[:self.pos][self.pos - result[1] - 1] == '\\n'",
  ],
  result="tuple[int,int]", serves=["C11", "C12"])
