"""Concrete harness for BaseTemplate.render's exception flow (C12): a template whose single
expression raises an instance of a chosen class."""
_last = {}


class Custom(Exception):
    def __init__(self, a, b=2):
        super().__init__(a, b)


class StrOverride(ValueError):
    def __str__(self):
        return 'custom str'


CLASSES = [KeyboardInterrupt, SystemExit, GeneratorExit, RecursionError, ValueError, KeyError,
           Custom, StrOverride, ZeroDivisionError, BaseException]


def render_nested(depth):
    """one template rendering itself `depth` levels deep through an explicit render() call in an
    expression; the innermost level raises.  Every level fails at the SAME call site, so the
    records of the levels are equal tuples."""
    from chameleon import PageTemplate
    inst = ValueError('boom')
    _last.clear()
    _last['raised_inside'] = inst
    _last['levels'] = depth + 1
    t = PageTemplate('<p>${inner(n)}</p>')

    def inner(n):
        if n == 0:
            raise inst
        return t.render(inner=inner, n=n - 1)
    try:
        return t.render(inner=inner, n=depth)
    except BaseException as e:
        _last['message'] = str(e)
        raise


def render_raising(self, __kw):
    from chameleon import PageTemplate
    if 'nested' in __kw:
        return render_nested(__kw['nested'])
    cls = __kw['cls']
    inst = cls('boom') if cls is not Custom else Custom('boom')
    _last.clear()
    _last['raised_inside'] = inst

    def thrower():
        raise inst
    t = PageTemplate('<p>${thrower()}</p>')
    return t.render(thrower=thrower)


def gen_exceptions():
    for c in CLASSES:
        yield ({'self': None, '__kw': {'cls': c}}, {})
    for depth in (0, 1, 2, 3):
        yield ({'self': None, '__kw': {'nested': depth}}, {})


def call_sites_complete():
    """the message lists one call site per enclosing render level (innermost to outermost)"""
    if 'levels' not in _last:
        return True
    return _last.get('message', '').count(' - Expression: "inner(n)"') == _last['levels']


# concrete primitives for the contract clauses that can be observed from outside
def raised_by(name):
    return _last['raised_inside']


def raised_is_exception(name):
    return isinstance(_last['raised_inside'], Exception)


def raised_is(name, clsname):
    import builtins
    return isinstance(_last['raised_inside'], getattr(builtins, clsname))


def ext_raised_in(name):
    return True


def ext_index(name, k=0):
    raise NotImplementedError


def ext_call_result(name, k):
    raise NotImplementedError
