"""B-ERRPOS (bounded stand-in, never counted as proved): C11's anchoring claim over a catalogue of
erroneous templates -- statement kinds x error forms x what stands in front of the offending clause.
For every member the real compiler must raise a TemplateError whose token is exactly the offending
substring of the source: source[offset:offset+len(token)] == token, the token's text is the text the
catalogue marked, and line / column belong to the offset.

usage: errpos.py <repo> -> one JSON line.  Runs under /venv/bin/python."""
import itertools
import json
import os
import sys

BAD_EXPR = '1 +'

# what may stand in front of the offending clause inside a multi-clause statement
FRONTS = ['', 'a 1; ', 'a 1;\n      ', "a 'x;;y'; ", "a ';;'; b 2;  ", 'a 1 ;']
FRONTS_ENTITY = ["a 'x&amp;y'; ", "a 1 &lt; 2; "]        # known finding D26 lives here


def catalogue():
    """-> (template text, marked offending text, family)"""
    out = []
    for front in FRONTS + FRONTS_ENTITY:
        fam = 'entity-before' if front in FRONTS_ENTITY else 'plain'
        out.append(('<p tal:define="%s__x 1">t</p>' % front, '__x', fam + ':define-reserved'))
        out.append(('<p tal:define="%sx %s">t</p>' % (front, BAD_EXPR), BAD_EXPR, fam + ':define-expr'))
        out.append(('<p tal:define="%s(x, econtext) 1">t</p>' % front, 'econtext', fam + ':define-tuple-reserved'))
        out.append(('<p tal:attributes="%sk %s">t</p>' % (front.replace('a ', 'j '), BAD_EXPR), BAD_EXPR,
                    fam + ':attributes-expr'))
    for stmt in ('content', 'replace', 'condition', 'omit-tag', 'on-error', 'switch'):
        for lead in ('', ' ', '\n   '):
            out.append(('<p tal:%s="%s%s">t</p>' % (stmt, lead, BAD_EXPR), BAD_EXPR, 'plain:%s-expr' % stmt))
    for kw in ('text', 'structure'):
        out.append(('<p tal:content="%s %s">t</p>' % (kw, BAD_EXPR), BAD_EXPR, 'plain:content-keyword'))
    out.append(('<p tal:repeat="__i 1">t</p>', '__i', 'plain:repeat-reserved'))
    out.append(('<p tal:repeat="i %s">t</p>' % BAD_EXPR, BAD_EXPR, 'plain:repeat-expr'))
    for before in ('', 'x', 'line one\nline two ', '&amp; ', 'é '):
        fam = 'entity-before-text' if '&' in before else 'plain'
        out.append(('<p>%s${%s}</p>' % (before, BAD_EXPR), BAD_EXPR, fam + ':interpolation-text'))
        out.append(('<p title="%s${%s}">t</p>' % (before, BAD_EXPR), BAD_EXPR, fam + ':interpolation-attr'))
    for pre in ('python:', 'not:', 'exists:', 'string:v ${', 'structure:'):
        close = '}' if pre.endswith('{') else ''
        out.append(('<p tal:content="%s%s%s">t</p>' % (pre, BAD_EXPR, close), None, 'plain:prefixed'))
    out.append(('<p tal:content="x | %s">t</p>' % BAD_EXPR, None, 'plain:pipe'))
    for mid in ('<br/>', '\n', '<!-- c -->'):
        out.append(('<div>%s<p tal:condition="%s">t</p></div>' % (mid, BAD_EXPR), BAD_EXPR, 'plain:nested'))
    out.append(('<p tal:bogus="1">t</p>', None, 'plain:unknown-statement'))
    out.append(('<p tal:define="x">t</p>', None, 'plain:define-syntax'))
    out.append(('<p tal:content="1" tal:replace="2">t</p>', None, 'plain:combination'))
    out.append(('<p metal:fill-slot="s">t</p>', None, 'plain:fill-without-use'))
    out.append(('<div><p>t</div>x</p>', None, 'plain:end-without-start'))
    out.append(('<p i18n:translate="" tal:content="%s">t</p>' % BAD_EXPR, BAD_EXPR, 'plain:i18n+content'))
    return out


def main():
    repo = sys.argv[1]
    sys.path.insert(0, os.path.join(repo, 'src'))
    for k in list(os.environ):
        if k.upper().startswith('CHAMELEON_'):
            del os.environ[k]
    from chameleon import PageTemplate
    from chameleon.exc import TemplateError
    bad = []
    cases = 0
    for text, marked, fam in catalogue():
        cases += 1
        try:
            PageTemplate(text)
        except TemplateError as e:
            tok = e.token
            pos = getattr(tok, 'pos', None)
            why = None
            if pos is None or text[pos:pos + len(tok)] != tok:
                why = 'token %r at offset %r, source there: %r' % (str.__str__(tok), pos,
                                                                   None if pos is None else text[pos:pos + len(tok)])
            elif marked is not None and str.__str__(tok) != marked:
                why = 'token %r instead of the offending text %r' % (str.__str__(tok), marked)
            else:
                before = text[:pos]
                line, col = before.count('\n') + 1, pos - (before.rfind('\n') + 1)
                got = tuple(tok.location)
                if got != (line, col):
                    why = 'location %r for offset %d (line %d, column %d)' % (got, pos, line, col)
            if why:
                bad.append({'template': text, 'family': fam, 'error': type(e).__name__, 'what': why})
        except Exception as e:  # noqa
            bad.append({'template': text, 'family': fam, 'error': type(e).__name__,
                        'what': 'not a TemplateError: %r' % (e,)})
        else:
            bad.append({'template': text, 'family': fam, 'error': None, 'what': 'compiled without error'})
    print(json.dumps({'cases': cases, 'distinct': cases, 'violations': bad,
                      'bound': '%d erroneous templates: statement kinds x error forms x preceding clauses' % cases}))


if __name__ == '__main__':
    main()
