"""Concrete harness for the K2 helpers: builds the REAL `__quote` / `__convert` from
compiler.py's own template() + code generator and calls them (used by replay and by the
bounded stand-in B-ESC).  Runs under /venv/bin/python."""
import ast
import itertools
import re

_cfg = {'translate_mode': 'same', 'translated': None}
calls = []


def setup(translate_mode='same', translated=None):
    _cfg['translate_mode'] = translate_mode
    _cfg['translated'] = translated
    del calls[:]


def _translate(value, domain=None, context=None, target_language=None, **kw):
    calls.append(value)
    m = _cfg['translate_mode']
    if m == 'same':
        return value
    if m == 'none':
        return None
    return _cfg['translated']


def _build(emit_name, fname):
    from chameleon import compiler
    from chameleon.codegen import TemplateCodeGenerator
    body = getattr(compiler, emit_name)(fname)
    module = ast.Module(body, [])
    ast.fix_missing_locations(module)
    code = TemplateCodeGenerator(module).code
    env = dict(prelude_env())
    env.update({
        'decode': lambda b: b.decode('utf-8'),
        'translate': _translate,
        '__i18n_domain': None, '__i18n_context': None, 'target_language': None,
    })
    exec(code, env)
    return env[fname]


_prelude = None


def prelude_env():
    """the names a render function's helpers can see, taken from a REAL compiled template: the
    module-level statements of the generated module and the leading `__x = g_x` aliases of its
    render function (so `__re_needs_escape`, `__re_amp`, ... are whatever the compiler emits)"""
    global _prelude
    if _prelude is None:
        from chameleon.zpt.template import PageTemplate
        src = PageTemplate('x', keep_source=True).source
        tree = ast.parse(src)
        env = {}
        mod = ast.Module([st for st in tree.body if not isinstance(st, ast.FunctionDef)], [])
        exec(compile(mod, '<prelude>', 'exec'), env)
        for st in tree.body:
            if isinstance(st, ast.FunctionDef):
                for sub in ast.walk(st):
                    if isinstance(sub, ast.Assign) and isinstance(sub.value, ast.Name) and \
                            sub.value.id in env and len(sub.targets) == 1 and \
                            isinstance(sub.targets[0], ast.Name):
                        env[sub.targets[0].id] = env[sub.value.id]
        _prelude = env
    return _prelude


_quote = None


def quote(*args):
    global _quote
    if _quote is None:
        _quote = _build('emit_func_convert_and_escape', '__quote')
    return _quote(*args)


_convert = None


def convert(value):
    global _convert
    if _convert is None:
        _convert = _build('emit_func_convert', '__convert')
    return _convert(value)


def quote_dispatch(target, quote_, quote_entity, default, default_marker):
    del calls[:]
    return quote(target, quote_, quote_entity, default, default_marker)


quote_char = quote_dispatch


# ---- value catalogue ---------------------------------------------------------------
class Hostile:
    def __init__(self, s):
        self.s = s

    def __str__(self):
        return self.s


class IntSub(int):
    label = '?'

    def __str__(self):
        return self.label


class FloatSub(float):
    label = '?'

    def __str__(self):
        return self.label


class StrSub(str):
    pass


class Html:
    def __init__(self, s):
        self.s = s

    def __html__(self):
        return self.s


def targets_for(c):
    i = IntSub(7)
    i.label = c
    f = FloatSub(1.5)
    f.label = c
    return [c, c.encode('utf-8'), Hostile(c), i, f, StrSub(c)]


ALPHABET = ['&', '<', '>', '"', "'", '\0', 'a', ';', '#']
MARKER = object()


def entity_of(q):
    return '&quot;' if q == '"' else '&#39;' if q == "'" else '&#0;'


def gen_char_cases():
    """(env dict, setup dict) for every single-character string form, value kind, quote mode and
    translate behaviour"""
    for c in ALPHABET:
        for q in (None, '"', "'", '\0'):
            for mode, tr in (('same', None), ('str', c), ('none', None)):
                for t in targets_for(c):
                    yield ({'target': t, 'quote': q,
                            'quote_entity': entity_of(q) if q is not None else '\xad',
                            'default': 'D&amp;<"', 'default_marker': MARKER, 'c': c},
                           {'translate_mode': mode, 'translated': tr})


def gen_dispatch_cases():
    vals = [None, MARKER, 0, -3, 2.5, True, 'a<b', b'x&y', Hostile('<i>'), Html('<b>ok</b>'),
            StrSub('q"q'), IntSub(3), FloatSub(2.0)]
    for t in vals:
        for q in (None, '"', "'", '\0'):
            for mode, tr in (('same', None), ('str', 't<r'), ('none', None)):
                yield ({'target': t, 'quote': q,
                        'quote_entity': entity_of(q) if q is not None else '\xad',
                        'default': 'D&amp;<"', 'default_marker': MARKER},
                       {'translate_mode': mode, 'translated': tr})


# concrete versions of the contract primitives that talk about the harness
def translate_count():
    return len(calls)


def is_exact(v, cls):
    return type(v) is cls


def has_html(v):
    return getattr(v, '__html__', None) is not None


def html_result(v):
    return v.__html__()
