"""K2 extraction: the run-time helpers that compiler.py carries as string constants
(`template(source=...)`) -- re-read from /repo's working tree on every run."""
import ast
import os
import textwrap

from .vc import PKG


def template_sources(relfile='compiler.py'):
    """-> {assigned name: dict(source=dedented text, func_args, func_defaults(list of src), is_func)}"""
    path = os.path.join(PKG, relfile)
    tree = ast.parse(open(path, encoding='utf-8').read())
    out = {}
    for node in tree.body:
        if isinstance(node, ast.Assign) and len(node.targets) == 1 and \
                isinstance(node.targets[0], ast.Name) and isinstance(node.value, ast.Call) and \
                isinstance(node.value.func, ast.Name) and node.value.func.id == 'template':
            kw = {k.arg: k.value for k in node.value.keywords}
            src = kw.get('source')
            if src is None and node.value.args:
                src = node.value.args[0]
            if not isinstance(src, ast.Constant):
                continue
            out[node.targets[0].id] = {
                'source': textwrap.dedent(src.value),
                'func_args': [e.value for e in kw['func_args'].elts] if 'func_args' in kw else [],
                'func_defaults': [ast.unparse(e) for e in kw['func_defaults'].elts]
                if 'func_defaults' in kw else [],
                'is_func': bool('is_func' in kw and kw['is_func'].value),
                'lineno': node.lineno,
            }
    return out


def inline_templates(relfile='compiler.py', within=None):
    """all `template("...")` string snippets inside function bodies: [(function qualname, lineno,
    source text, keyword names)]"""
    path = os.path.join(PKG, relfile)
    tree = ast.parse(open(path, encoding='utf-8').read())
    out = []

    def visit(node, qual):
        for child in ast.iter_child_nodes(node):
            q = qual
            if isinstance(child, (ast.FunctionDef, ast.ClassDef)):
                q = (qual + '.' if qual else '') + child.name
            if isinstance(child, ast.Call) and isinstance(child.func, ast.Name) and \
                    child.func.id == 'template' and child.args:
                parts = []
                a = child.args[0]
                text = const_str(a)
                if text is not None:
                    out.append((qual, child.lineno, text, [k.arg for k in child.keywords]))
            visit(child, q)
    visit(tree, '')
    return out


def const_str(node):
    """constant-fold string concatenation / implicit concatenation of literals"""
    if isinstance(node, ast.Constant) and isinstance(node.value, str):
        return node.value
    if isinstance(node, ast.BinOp) and isinstance(node.op, ast.Add):
        l, r = const_str(node.left), const_str(node.right)
        if l is not None and r is not None:
            return l + r
    return None


_prelude = None


def prelude_objects():
    """what the helpers of a render function can see: the module-level statements emitted by
    Compiler.visit_Module and the `__x = g_x` aliases emitted by Compiler.visit_Macro, executed
    here (they only import re/functools/itertools/sys and compile patterns)"""
    global _prelude
    if _prelude is None:
        env = {}
        for qual, lineno, text, kws in inline_templates():
            if qual in ('Compiler.visit_Module', 'Compiler.visit_Macro') and not kws:
                try:
                    exec(text, env)
                except Exception:
                    pass
        env.pop('__builtins__', None)
        _prelude = env
    return _prelude


def escape_class():
    """the characters of the class `__re_needs_escape` searches for, read off the real pattern
    (None if it is not a plain character class)"""
    import re._constants as C
    import re._parser as P
    f = prelude_objects().get('__re_needs_escape')
    pat = getattr(f, '__self__', None)
    if pat is None or getattr(f, '__name__', '') != 'search':
        return None
    tree = P.parse(pat.pattern, pat.flags)
    if len(tree.data) != 1 or tree.data[0][0] is not C.IN:
        return None
    chars = []
    for op, av in tree.data[0][1]:
        if op is not C.LITERAL:
            return None
        chars.append(chr(av))
    return ''.join(chars)
