"""Run the verifier on a set of contracts: generate VCs, discharge, report."""
from __future__ import annotations

import importlib
import os
import sys
import time
import traceback

from . import models
from .prims import PRIMS
from .vc import Contract, FunctionVC, Registry, solve_obligation

VERIF = os.path.dirname(os.path.dirname(os.path.abspath(__file__)))

CONTRACT_MODULES = ['contracts.tokenize', 'contracts.tal_repeat', 'contracts.utils_bytes', 'contracts.k2_quote', 'contracts.template_file', 'schemas.onerror', 'schemas.tal_basic']


def build_registry(modules=None):
    reg = Registry()
    reg.spec_prims.update(PRIMS)
    specdir = os.path.join(VERIF, 'spec')
    for fn in sorted(os.listdir(specdir)):
        if fn.endswith('.py') and fn not in ('__init__.py', 'prim_concrete.py'):
            reg.load_spec_module(os.path.join(specdir, fn))
    if VERIF not in sys.path:
        sys.path.insert(0, VERIF)
    mods_ = list(modules or CONTRACT_MODULES)
    if 'contracts.k2_quote' not in mods_:
        mods_.append('contracts.k2_quote')     # registers value-kind primitives used by schemas
    for m in mods_:
        mod = importlib.import_module(m)
        for c in mod.CONTRACTS:
            reg.add(c)
        if hasattr(mod, 'register'):
            mod.register(reg)
    return reg


def verify_contract(reg, c, timeout_ms=10000, verbose=False, both=False):
    """-> dict(target, undecided, obligations=[...])"""
    t0 = time.time()
    try:
        vc = FunctionVC(reg, c)
        res = vc.generate()
    except Exception as e:  # engine crash
        return {'target': c.target, 'crash': traceback.format_exc(), 'obligations': [],
                'undecided': None, 'paths': 0, 'gen_time': 0, 'named': []}
    out = []
    from .solve import discharge, TextModel
    from .vc import reify
    results = discharge(vc.obls, t_z3=max(timeout_ms // 1000, 1), both=both)
    for o, r in zip(vc.obls, results):
        r['name'] = o.name
        r['expect'] = o.expect
        r['info'] = {k: v for k, v in o.info.items() if k in ('kind', 'line', 'text', 'callee', 'labels')}
        if r['status'] == 'failed' and r.get('model_text'):
            try:
                tm = TextModel(r['query_text'], r['model_text'])
                r['inputs'] = {n: reify(v, tm) for n, v in o.inputs.items()}
            except Exception as e:
                r['inputs_error'] = repr(e)
        r.pop('model_text', None)
        r.pop('query_text', None)
        out.append(r)
        if verbose:
            print('   %-70s %-10s %-6s %.2fs' % (o.name, r['status'], r['backend'], r['time']))
    for name, info in vc.trivial_names:
        out.append({'name': name, 'status': 'discharged', 'backend': 'simplify', 'time': 0.0,
                    'expect': 'valid', 'size': 0,
                    'info': {k: v for k, v in info.items() if k in ('kind', 'text', 'callee')}})
    return {'target': c.target, 'undecided': res.undecided, 'obligations': out,
            'paths': res.paths, 'gen_time': res.gen_time, 'trivial': res.trivial,
            'named': sorted(res.named), 'wall': time.time() - t0,
            'models': sorted(models.USED)}


def main(argv):
    mods = None
    only = None
    for a in argv:
        if a.startswith('contracts.') or a.startswith('schemas.'):
            mods = (mods or []) + [a]
        else:
            only = a
    reg = build_registry(mods)
    for tgt, c in reg.contracts.items():
        if only and only not in tgt:
            continue
        print('==', tgt)
        r = verify_contract(reg, c, verbose=True)
        if r.get('crash'):
            print(r['crash'])
        if r['undecided']:
            print('   UNDECIDED:', r['undecided'])
        for o in r['obligations']:
            if o['status'] == 'failed' and o['expect'] == 'valid':
                print('   FAILED', o['name'], o['info'].get('text'), o.get('inputs'), o['info'].get('labels'))
        print('   paths=%d gen=%.2fs wall=%.2fs' % (r['paths'], r['gen_time'], r.get('wall', 0)))


if __name__ == '__main__':
    main(sys.argv[1:])
