"""Spec functions shared by contracts.  Dual use: the engine inlines these definitions
symbolically (single-expression bodies, no loops); replay and run-time monitoring import
this module and call them in CPython.  `text` is a primitive (see pyvc/prims.py and
spec/prim_concrete.py)."""
from spec.prim_concrete import *  # noqa: F401,F403  (concrete primitives; ignored by the engine)


def anchored(t):
    """token t denotes exactly source[t.pos : t.pos+len(t)]"""
    return (t.source is not None and 0 <= t.pos and t.pos + len(t) <= len(t.source)
            and t.source[t.pos:t.pos + len(t)] == text(t))


def same_origin(a, b):
    """tokens a and b point into the same source text / file"""
    return a.source == b.source and a.filename == b.filename


def in_range(lo, x, hi):
    return lo <= x and x <= hi
