"""utils.decode_htmlentities (C06): "${...} expressions are taken from the source with entities decoded".
Only well-formed references -- `&name;`, `&#N;`, `&#xH;`, closed by a semicolon -- are decoded;
everything else in the expression text is left exactly as written, and the token keeps its position."""
from pyvc.vc import Contract

CONTRACTS = [Contract(
    "utils.py::decode_htmlentities", params={"string": "Token"},
    ensures=[
        # nothing without a closing semicolon / without an ampersand is a reference
        "';' in string or text(result) == text(string)",
        "'&' in string or text(result) == text(string)",
        # the decoded text is still the same token (position and origin): C11 / C12
        "is_token(result) and result.pos == string.pos and same_origin(result, string)",
    ],
    result="Token",
    ghost={'open_world': True,
           # which references are decoded, and to what: checked on the real function against an
           # independent decoder (spec/entities.py) for a catalogue of texts
           'concrete_ensures': ["reference_decoding_ok(text(string), text(result))"], 'harness': ('bounded.entities_harness', 'decode'),
           'search': {'generator': ('bounded.entities_harness', 'gen_texts')},
           'spec_modules': ['spec.core', 'spec.repeat', 'spec.entities']},
    serves=["C06", "C11"],
    notes="entity_re.subn is an uninterpreted function of the text that is the identity when the pattern "
          "has no match; REGEX-STRUCT fact: every match contains '&' and ';'")]
