"""Contracts for utils.Scope (C05, C09): two-level dictionary semantics.

A Scope is modelled as its own dict layer (`own`) plus an optional `_root` scope; `super()`
reaches the own layer.  A-MARKER: the module-private `marker` object is never stored as a value."""
from pyvc.vc import Contract
from pyvc.values import REC_FIELDS

CONTRACTS = []
SC = "utils.py::Scope"
ROOT = "utils.py::ScopeRoot"
REC_FIELDS[ROOT] = {"own": "map[str,any]"}
REC_FIELDS[SC] = {"own": "map[str,any]", "_root": "opt[rec[%s]]" % ROOT}
SELF = "rec[%s]" % SC
G = {'optional_attrs': ['_root']}
VISIBLE = ("(self.own[key] if key in self.own else "
           "(self._root.own[key] if (self._root is not None and key in self._root.own) else %s))")
DEFINED = "(key in self.own or (self._root is not None and key in self._root.own))"
NOMARK = ["key not in self.own or self.own[key] is not scope_marker()",
          "self._root is None or key not in self._root.own or self._root.own[key] is not scope_marker()"]


def C(*a, **k):
    c = Contract(*a, **k)
    CONTRACTS.append(c)
    return c


C(SC + ".get", params={"self": SELF, "key": "str", "default": "any"}, defaults={"default": None},
  requires=NOMARK,
  ensures=["result is " + VISIBLE % "default"],
  result="any", ghost=dict(G, harness=('bounded.scope_harness', 'scope_get'), search={'generator': ('bounded.scope_harness', 'gen_scope_keys')}), serves=["C05", "C09", "C04"])

C(SC + ".__getitem__", params={"self": SELF, "key": "str"}, requires=NOMARK,
  ensures=["result is " + VISIBLE % "None", DEFINED],
  raises={"KeyError": {"when": "not " + DEFINED, "iff": True}},
  result="any", ghost=dict(G, harness=('bounded.scope_harness', 'scope_getitem'), search={'generator': ('bounded.scope_harness', 'gen_scope_keys')}), serves=["C05"])

C(SC + ".__contains__", params={"self": SELF, "key": "str"}, requires=NOMARK,
  ensures=["result == " + DEFINED],
  result="bool", ghost=dict(G, harness=('bounded.scope_harness', 'scope_contains'), search={'generator': ('bounded.scope_harness', 'gen_scope_keys')}), serves=["C05"])

C(SC + ".get_name", params={"self": SELF, "key": "str"}, requires=NOMARK,
  ensures=["result is " + VISIBLE % "None", DEFINED],
  raises={"NameError": {"when": "not " + DEFINED, "iff": True}},
  result="any", ghost=dict(G, harness=('bounded.scope_harness', 'scope_get_name'), search={'generator': ('bounded.scope_harness', 'gen_scope_keys')}), serves=["C05", "C04"])

C(SC + ".set_global", params={"self": SELF, "name": "str", "value": "any"},
  ensures=[
      # a global lands in the root layer (the scope itself when it has no root) ...
      "self._root is None or (name in self._root.own and self._root.own[name] is value)",
      "self._root is not None or (name in self.own and self.own[name] is value)",
      # ... and a local binding of the same name keeps shadowing it
      "self._root is None or same_map(self.own, old(self.own))",
  ],
  ghost=dict(G, harness=('bounded.scope_harness', 'scope_set_global'), search={'generator': ('bounded.scope_harness', 'gen_scope_globals')}), serves=["C05", "C09"])


C(SC + ".copy", params={"self": SELF},
  ensures=[
      # a NEW scope with the same own bindings ...
      "result is not self", "same_map(result.own, self.own)",
      # ... that shares the rendering root: the root of the copied scope, or the copied scope itself
      # when it is the root ("global definitions stay visible ... also after returning from a
      # macro": a macro receives a copy, a nested macro a copy of the copy)
      "self._root is None or result._root is self._root",
      "self._root is not None or result._root is self",
      # the copied scope is untouched
      "same_map(self.own, old(self.own))",
  ],
  result="any",
  ghost=dict(G, externals={'Scope': {'result': 'dict-copy-of-arg0'}},
             harness=('bounded.scope_harness', 'scope_copy'),
             search={'generator': ('bounded.scope_harness', 'gen_scopes')}),
  serves=["C05", "C09"])
