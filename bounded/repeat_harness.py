"""Concrete harness for tal.RepeatDict.__call__ (C08): the REAL method with list / iter /
RepeatItem / the dictionary store observed through recording wrappers."""
_log = []
_self = {}


class Unlistable:
    def __iter__(self):
        raise ZeroDivisionError('no iteration')


def repeat_call(self, key, iterable):
    import builtins
    from chameleon import tal
    del _log[:]

    class Rec(dict):
        def __setitem__(s, k, v):
            _log.append(('setitem', (_self['rd'], k, v), None, False))
            dict.__setitem__(s, k, v)

    real_item = tal.RepeatItem

    def rec_list(x):
        try:
            r = builtins.list(x)
        except BaseException as e:  # noqa
            _log.append(('list', (x,), e, True))
            raise
        _log.append(('list', (x,), r, False))
        return r

    def rec_iter(x):
        r = builtins.iter(x)
        _log.append(('iter', (x,), r, False))
        return r

    def rec_item(*a):
        r = real_item(*a)
        _log.append(('item', a, r, False))
        return r
    rd = tal.RepeatDict(Rec())
    _self['rd'] = rd
    tal.list, tal.iter, tal.RepeatItem = rec_list, rec_iter, rec_item
    try:
        return rd(key, iterable)
    finally:
        del tal.list, tal.iter
        tal.RepeatItem = real_item


def gen_iterables():
    for it in (None, [], [1, 2, 3], (4,), 'ab', range(3), iter([7, 8]), {'k': 1}, 5, Unlistable(),
               (x for x in (1, 2))):
        yield ({'self': None, 'key': 'name', 'iterable': it}, {})


def _events(name):
    return [(i, e) for i, e in enumerate(_log) if e[0] == name]


def ext_index(name, k=0):
    ev = _events(name)
    return ev[k][0] if k < len(ev) else -1


def ext_call_arg(name, k, j):
    a = _events(name)[k][1][1]
    if name == 'setitem' and j == 0:
        return None      # `self` of the harness call is a placeholder: see repeat_call()
    return a[j]


def ext_call_result(name, k):
    return _events(name)[k][1][2]


def ext_raised_in(name):
    return any(e[3] for _, e in _events(name))
