"""Property -> check units.  Each contract unit verifies one function of /repo against its
sidecar contract; custom units implement the special proof rules (REGEX-STRUCT, HOM, frames,
K3 schemas) and the bounded stand-ins (labelled `bounded`, never counted as discharged)."""


import json


def K(target, **kw):
    return dict(kind='contract', target=target, **kw)


def U(module, func, name, **kw):
    return dict(kind='custom', module=module, func=func, name=name, **kw)


TOKEN = [K("tokenize.py::Token.__getitem__"), K("tokenize.py::Token.__add__"),
         K("tokenize.py::Token.split"), K("tal.py::split_parts"), K("tal.py::parse_substitution"),
         K("tokenize.py::Token.replace"), K("tokenize.py::Token.lstrip"),
         K("tokenize.py::Token.rstrip"), K("tokenize.py::Token.strip"),
         K("tokenize.py::Token.lstrip@chars"), K("tokenize.py::Token.rstrip@chars"),
         K("tokenize.py::Token.strip@chars"),
         K("tokenize.py::Token.location")]

REPEAT = [K("tal.py::RepeatDict.__call__")] + [K("tal.py::RepeatItem." + m) for m in
          ("index", "number", "start", "end", "odd", "even", "parity", "_letter", "Letter", "Roman")]

COMMON_ASSUMPTIONS = [
    "Python ints are mathematical integers (exact, no machine arithmetic)",
    "str is a sequence of code points (z3 String); code points above 0x2FFFF and lone surrogates "
    "are not modelled",
]
TECH = ("contract-based deductive verification: sidecar pre/postconditions on the real functions, "
        "VCs generated from /repo's AST by pyvc, discharged by z3/cvc5")

K3_NOTE = ("K3: the verified text is code emitted by the real compiler for schema templates; holes obey "
           "HoleC, probes are arbitrary expressions. Assumptions: A-COMP (compositionality of code "
           "generation), A-PURE (expressions have no side effect on the render state), A-MARKER, "
           "FRESH side conditions (id-suffixed locals are node-unique; checked by the FRESH units).")
K3_ASSUME = COMMON_ASSUMPTIONS + ["A-COMP", "A-PURE", "A-MARKER", "HoleC for child code",
                                  "K2 contracts of __quote/__convert (proved under C02)"]
FRESH = U('pyvc.fresh', 'unit', 'FRESH', needs_k3=True)
COMMON_FRAMES = [U('pyvc.frames', 'render_write_frame', 'render.write_frame'),
                 U('pyvc.frames', 'instance_state', 'instance_state'),
                 U('pyvc.ordered', 'unit', 'compile_path.no_set_iteration'),
                 U('pyvc.frames', 'decorator_audit', 'decorator_audit'),
                 # a compiled module served from the cache for the wrong source or configuration breaks
                 # every property at once
                 U('pyvc.frames', 'digest_reads_frame', 'digest.reads_frame'),
                 U('pyvc.frames', 'digest_injective', 'digest.distinguishes_options')]
S_MORE = [K("k3::S-Switch"), K("k3::S-Case-Condition"), K("k3::S-Switch-nested"), K("k3::S-Case-OnError")]
S_COMMENT = [K("k3::S-Comment-noninterp"), K("k3::S-Comment-drop"), K("k3::S-Comment-interp"), K("k3::S-Comment-dollar-name")]
TAL_BASIC = [K("k3::S-Define"), K("k3::S-Define-clauses"), K("k3::S-Define-tuple"), K("k3::S-Condition"), K("k3::S-Content"),
             K("k3::S-Replace"), K("k3::S-Replace-omit-expr"), K("k3::S-Structure"), K("k3::S-OmitTag"),
             K("k3::S-OmitTag-empty"), K("k3::S-OmitTag-selfclosing"),
             K("k3::S-Attribute"), K("k3::S-Attribute-quotes"), K("k3::S-Attribute-unquoted"), K("k3::S-Attribute-default-under-target"), K("k3::S-Attribute-boolean-interp"), K("k3::S-Define-nested-same"), K("k3::S-Repeat-indent"), K("k3::S-Repeat-comprehension"), K("k3::S-Attribute-dict"), K("k3::S-Attribute-dict-first"), K("k3::S-Literal"), K("k3::S-Combined"), K("k3::S-Repeat")]

RESERVED = [K("k3::S-Repeat-reserved"), K("k3::S-Define-reserved"), K("k3::S-Define-econtext"),
            K("k3::S-Define-tuple-reserved"), K("k3::S-Define-tuple-reserved-first"),
            K("k3::S-Repeat-tuple-reserved"), K("k3::S-Define-global-reserved"),
            K("k3::S-Define-global-tuple-reserved")]
S_TALES = [K("k3::S-Pipe3"), K("k3::S-Pipe-prefix-middle"), K("k3::S-Same-not-twice"), K("k3::S-Same-exists-twice"), K("k3::S-Same-string-twice"), K("k3::S-Not"), K("k3::S-Exists"), K("k3::S-LambdaScope")]
S_INTERP = [K("tales.py::PythonExpr.translate"), K("k3::S-Interp-braces"), K("k3::S-PI-interp"), K("k3::S-Cdata-entity"), K("k3::S-Cdata-twice"), K("k3::S-Interp-text"), K("k3::S-Interp-implicit-mixed"), K("k3::S-Interp-off"), K("k3::S-Interp-lines"),
            K("k3::S-Interp-percent"), K("k3::S-Cdata-then-text")]
S_I18N = [K("k3::S-Translate-name"), K("k3::S-Translate-name-condition"), K("k3::S-Translate-id"), K("k3::S-Translate-empty"),
          K("k3::S-I18nDomain"), K("k3::S-I18nContext"), K("k3::S-I18nTarget"), K("k3::S-I18nTarget-name"), K("k3::S-I18nContext-name"), K("k3::S-I18nContext-target-domain"), K("k3::S-I18nAttributes"), K("k3::S-I18nAttributes-two"), K("k3::S-I18nAttributes-implicit-interp"),
          K("k3::S-Content-translate")]
S_METAL = [K("k3::S-UseExternal"), K("k3::S-MacroBody-slots-nonascii"), K("k3::S-ExtendMacro"), K("k3::S-UseExternal-filler-define"), K("k3::S-UseExternal-filler-i18n"), K("k3::S-UseExternal-two-fills"), K("k3::S-TemplateBody-slot"), K("k3::S-MacroUseInternal"), K("k3::S-MacroBody"), K("k3::S-TwoMacros"),
           K("k3::S-MacroBody-slot-define"),
           K("k3::S-MacroUseInternal-after-expr")]
K2Q = [K("compiler.py::K2.__quote"), K("compiler.py::K2.__quote@char"), K("compiler.py::K2.__convert"),
       U('pyvc.homshape', 'unit', 'K2.__quote.hom.shape')]
K3TECH = TECH + "; applied to code emitted by the real compiler for schema templates (K3)"


def with_common(units):
    """every property whose statement is about compiled templates relies on the same frame facts: the
    instance is not changed by compiling / rendering, program builders keep their state per instance,
    no set is iterated on the compile path"""
    out = list(units)
    have = {json.dumps(u, sort_keys=True, default=str) for u in out}
    for u in COMMON_FRAMES:
        k = json.dumps(u, sort_keys=True, default=str)
        if k not in have:
            out.append(u)
    return out


def k3prop(text, units, not_decided=(), extra_note=""):
    return {"technique": K3TECH, "level_text": text, "level_note": K3_NOTE + extra_note,
            "units": with_common(units), "not_decided": list(not_decided), "assumptions": K3_ASSUME}


PROPS = {
    "C04": k3prop(
        "Emitted code for pipes, not:, exists: is proved to evaluate each alternative exactly once, to "
        "fall through only on the five lookup-type exception classes (real class hierarchy "
        "axiomatised) and to propagate anything else; every schema additionally proves that each "
        "reached expression is evaluated exactly once and unreached ones never.",
        S_TALES + TAL_BASIC + S_INTERP + S_MORE + [FRESH, K("utils.py::lookup_attr"),
                                                   K("k3::S-UseExternal-filler-define")] +
        [K("utils.py::_resolve_dotted@%d" % n) for n in (1, 2, 3)],
        ["the Python sub-grammar (comprehensions, lambdas) and NameLookupRewriteVisitor scoping",
         "tales.transform_attribute's rewrite of a.b into lookup_attr(a, 'b') (lookup_attr itself is under contract); ExpressionParser prefix dispatch",
         "string:/structure: prefixes beyond the schemas; import: is decided for dotted names of one to three "
         "components (utils._resolve_dotted@1..3), relative names (never used by the tree) are not"]),
    "C05": k3prop(
        "Emitted save/assign/restore brackets of tal:define and tal:repeat are proved to restore the "
        "outer binding (or undefinedness) on normal exit, globals are proved to persist in scope and "
        "in the render-wide context, and macro calls receive a copy of the scope and merge globals back.",
        [K("k3::S-Define"), K("k3::S-Define-clauses"), K("k3::S-Define-tuple"), K("k3::S-Define-nested-same"), K("k3::S-Repeat"),
         K("k3::S-Repeat-comprehension"), K("k3::S-UseExternal"), K("k3::S-UseExternal-filler-define"), K("k3::S-MacroUseInternal"),
         ] + RESERVED + [
         K("k3::S-OnError-Define"), K("k3::S-GlobalInLocal"), K("k3::S-LambdaScope"), FRESH] +
        [K("utils.py::Scope." + m) for m in ("get", "__getitem__", "__contains__", "get_name", "set_global", "copy")],
        ["utils.Scope.__iter__ / keys / items (generators over two dict layers)",
         ]),
    "C06": k3prop(
        "Emitted code for ${...} in text is proved to append the literal parts unchanged with $$ "
        "un-doubled, each expression converted once; with meta:interpolation off nothing is evaluated.",
        S_INTERP + S_COMMENT + K2Q + [K("utils.py::decode_htmlentities"),
                    U('pyvc.frames', 'instance_state', 'instance_state'),
                    U('bounded.units', 'interp', 'B-INTERP')],
        ["the delimiter search of Interpolator.__call__ (regex + validity loop): bounded stand-in B-INTERP only",
         "CDATA context (attribute and comment contexts: S-Interp-percent, S-Comment-*)"]),
    "C07": k3prop(
        "For a dynamic attribute the emitted code is proved to call the escape routine once with the "
        "attribute's own quote character and static text as default, to drop the attribute for None, "
        "and the escape routine itself (K2) maps `default` to the static text as written.",
        [K("k3::S-Attribute"), K("k3::S-Attribute-quotes"), K("k3::S-Attribute-default-under-target"), K("k3::S-Attribute-boolean-interp"), K("k3::S-Attribute-dict"), K("k3::S-Attribute-dict-first")] + K2Q +
        [U('bounded.units', 'attrs', 'B-ATTR'), U('bounded.units', 'split', 'B-SPLIT'),
         # which static attributes are template-language markup (dropped) and which only look like it
         U('pyvc.spelling', 'unit', 'spelling', needs_k3=True),
         # boolean / implicit attribute options decide how attributes render: a compiled module must
         # never be shared between two settings of them
         U('pyvc.frames', 'digest_injective', 'digest.distinguishes_options')],
        ["tal.prepare_attributes: only the bounded stand-in B-ATTR (not counted as proved)",
         "boolean attributes (dict-valued entries: S-Attribute-dict decides evaluation count only)"]),
    "C09": k3prop(
        "The calling convention of use-macro (same stream, copy of the scope, same render-wide "
        "context, current i18n parameters, macroname bound, globals merged back) and the slot "
        "protocol of a macro body (filler taken once, called instead of the default content) are "
        "proved on the emitted code.",
        S_METAL + [K("zpt/template.py::Macros.__getitem__"), K("zpt/template.py::PageTemplate.include"),
                   # "the macro it names": which template a `load:` expression of a use-macro resolves to
                   # (first match along a search path that belongs to this template alone)
                   K("loader.py::TemplateLoader.load"), K("loader.py::cache.load"),
                   K("zpt/loader.py::TemplateLoader.load"),
                   K("zpt/template.py::PageTemplateFile.__init__.post_init"),
                   U('pyvc.frames', 'search_path_frame', 'search_path_frame')],
        ["'equals inlining' is reduced to calling convention + slot protocol + A-COMP",
         "extend-macro chains and nested uses (deque discipline across call histories)",
         "Macros.names, PageTemplate.include"]),
    "C10": k3prop(
        "Emitted translation blocks are proved to call translate exactly once with the explicit or "
        "computed (collapsed, trimmed, ${name}) message id, the mapping of named children, the "
        "computed default and the current domain/context/target, to output exactly its result, and "
        "to skip empty content; domain/context/target are set for the subtree and restored; message "
        "objects are offered to translate exactly once by the conversion routine (K2).",
        S_I18N + [K("compiler.py::K2.__quote"), K("compiler.py::K2.__convert"), K("k3::S-OnError-in-translate"),
                  K("k3::S-UseExternal-filler-i18n"), K("k3::S-MacroBody"),
                  # the wrapper render() puts around the translation function when an encoding is set
                  K("zpt/template.py::PageTemplate.render.translate"),
                  U('pyvc.regexlang', 'whitespace_unit', 'prelude.__re_whitespace')] + [FRESH],
        ["i18n:attributes and implicit translation", "simple_translate interpolation",
         "nested translate blocks (by induction through HoleC)"]),
    "C12": k3prop(
        "In every schema, on every normal and exceptional path, the position token in force when an "
        "expression is evaluated is proved to be the recorded position of exactly that expression's "
        "text, and the token table entries are checked against the template source.",
        TAL_BASIC + S_TALES + S_INTERP + [K("k3::S-OnError-keep"), K("k3::S-I18nTarget"),
                                            K("k3::S-UseExternal"), K("k3::S-MacroUseInternal"),
                                            K("k3::S-MacroUseInternal-after-expr"),
                                            K("template.py::BaseTemplate.render"), K("exc.py::ExceptionFormatter.__call__@records"), K("k3::S-Bom-positions"),
                                            K("k3::S-CRLF-positions"), K("k3::S-OnError-static-body"),
                                            U('bounded.units', 'errmsg', 'B-ERRMSG'), K("tal.py::RepeatDict.__call__"),
                                            K("utils.py::lookup_attr"),
                                            U('pyvc.frames', 'render_write_frame', 'render.write_frame')],
        ["create_formatted_exception itself (dynamic class creation; outside the subset)",
         "ExceptionFormatter: the record loop is under a per-iteration block contract (three lines per record, "
         "in record order); the argument listing, the source excerpt and UnicodeDecodeError stream lines are not"]),
    "C03": {
        "technique": TECH + "; REGEX-STRUCT (facts about the lexer/dissection patterns proved on their "
                     "parse trees)",
        "level_text": "For EVERY input string the lexer's token stream tiles the input (pattern totality "
                      "proved structurally: XML_SPE = A|B with complementary first-character sets and a "
                      "nullable tail); the attribute and tag-head patterns are proved to put every consumed "
                      "character into exactly one named field; the end-tag emitter is proved to emit exactly "
                      "prefix+name+suffix; token-deriving primitives preserve source positions (C11 units).",
        "level_note": "Trusted: CPython's re (a match is found whenever one exists, finditer resumes at the "
                      "previous match end, group/span semantics). The agreement of the two regex layers "
                      "(every token classified as a tag is fully consumed by match_tag) and the start-tag / "
                      "attribute emitters are covered only by the bounded stand-in B-VERBATIM (labelled "
                      "bounded, not counted).",
        "units": [U('pyvc.regexstruct', 'total', 're_xml_spe.total'),
                  U('pyvc.regexstruct', 'tiling', 'parser.tiling'),
                  K("compiler.py::Compiler.visit_End"),
                  K("tokenize.py::Token.__getitem__"), K("tokenize.py::Token.__add__"),
                  K("template.py::BaseTemplate.write@str"),
                  # whether a tag is reproduced or swallowed depends on its namespace: the scope stack
                  K("parser.py::ElementParser.__init__"), K("parser.py::ElementParser.visit_empty_tag"),
                  K("parser.py::ElementParser.visit_start_tag"), K("zpt/template.py::PageTemplate.parse"),
                  K("k3::S-Cdata-twice"),
                  U('pyvc.frames', 'tag_nodes_frame', 'visit_element.tag_node_fields'),
                  U('pyvc.regexlang', 'attr_name_unit', 'attr_name.layers_agree'),
                  U('bounded.units', 'verbatim', 'B-VERBATIM'), U('bounded.units', 'attrs', 'B-ATTR')],
        "not_decided": ["match_tag field contracts, visit_Start / visit_Attribute(static) emitters (bounded only)",
                        "the tokenizer recipe regexes beyond TOTAL / TILING (CDATA, end tags: covered by schemas S-Cdata-twice and the bounded B-VERBATIM grammar)",
                        "ElementParser child order"],
        "assumptions": COMMON_ASSUMPTIONS + ["re engine semantics"],
    },
    "C14": {
        "technique": TECH + "; frame and ordering clauses decided on the AST of the real functions",
        "level_text": "Per-call frame contracts: render()/include()/Macros write nothing to the template, "
                      "its class or a module; scope, render-wide context, stream and repeat dictionary are "
                      "created per call; no class-level container is mutated through self by the "
                      "compiler/program/parser classes; cook publishes the render functions before the "
                      "compiled flag; generated identifiers are node-unique (FRESH).",
        "level_note": "Only the sequential, per-call part of the property is decided. NOT decided: the "
                      "schedules quantifier (interleavings of threads in cook / cook_check / loader.load) - "
                      "outside what per-call contracts can express; publication order is the one "
                      "concurrency-relevant fact proved, under sequential consistency of attribute writes.",
        "units": [U('pyvc.frames', 'cook_publication_order', 'cook.publication_order'),
                  U('pyvc.frames', 'render_write_frame', 'render.write_frame'),
                  U('pyvc.frames', 'instance_state', 'instance_state'),
                  U('pyvc.frames', 'search_path_frame', 'search_path_frame'),
                  U('pyvc.ordered', 'unit', 'compile_path.no_set_iteration'), FRESH,
                  # "equal arguments give equal output ... regardless of what was rendered before": what a
                  # shared loader hands out for a name must not depend on the loader's history
                  K("loader.py::cache.load"), K("zpt/loader.py::TemplateLoader.load"),
                  K("loader.py::TemplateLoader.load"), K("parser.py::ElementParser.__init__"),
                  K("loader.py::ModuleLoader._load"),
                  # ... and what one instance compiles for a body must not depend on the bodies it was
                  # given before: content type and encoding are decided from the document and the
                  # configured defaults alone
                  K("template.py::BaseTemplate.write@str"), K("template.py::BaseTemplate.write@bytes"),
                  K("template.py::BaseTemplateFile.read@body"), K("zpt/template.py::PageTemplate.parse"),
                  # the compiled flag is down while cook_check compiles (call-site precondition of cook)
                  K("template.py::BaseTemplateFile.cook_check")],
        "not_decided": ["thread interleavings (schedule-quantified; no schedule exploration in this family)",
                        "cross-process identity of output (follows from alpha-equivalence of generated "
                        "code; not checked yet)"],
        "assumptions": COMMON_ASSUMPTIONS + ["sequential consistency of attribute writes (GIL)"],
    },
    "C15": {
        "technique": TECH + "; reads-frame on the AST; trace contract over external file-system calls",
        "level_text": "(1) Reads-frame: every option PageTemplate.parse/_compile reads is proved to be part "
                      "of the cache key computed by digest(). (2) ModuleLoader.build is proved, on every "
                      "path including every failure of an external call, to produce the final name only "
                      "by renaming a closed temporary file of the same directory, to remove the temporary "
                      "file after a failed write, and to release the lock last.",
        "level_note": "Assumed: POSIX rename atomicity and mkstemp uniqueness, py_compile's own atomic "
                      "write, SourceFileLoader. Crash points = prefixes of the proved trace; process "
                      "crash, not power loss. Interleavings of two writers follow from the same trace "
                      "facts plus rename atomicity (argument, not machine-checked).",
        "units": [U('pyvc.frames', 'digest_reads_frame', 'digest.reads_frame'),
                  U('pyvc.frames', 'digest_injective', 'digest.distinguishes_options'),
                  U('pyvc.frames', 'render_write_frame', 'render.write_frame'),
                  K("loader.py::ModuleLoader.build"), K("loader.py::ModuleLoader._load")],
        "not_decided": ["ModuleLoader.get and _get_module_name",
                        "two-writer interleavings (schedule-quantified)"],
        "assumptions": COMMON_ASSUMPTIONS + ["POSIX: rename is atomic, mkstemp names are unique"],
    },
    "C16": {
        "technique": TECH + "; file system as uninterpreted observation functions",
        "level_text": "BaseTemplateFile.cook_check is proved to recompile from the file's current content "
                      "iff the instance is uncompiled or (auto_reload and the mtime differs), and not even to "
                      "read the file otherwise; TemplateLoader.load is proved to instantiate the template "
                      "class once, with the absolute name or else the FIRST search-path entry under which the "
                      "extension-completed name exists (ValueError iff none); PageTemplateFile.__init__ "
                      "never mutates the caller's search path.",
        "level_note": "Trusted: os.path.exists/isabs/join as pure observations of a file system that does "
                      "not change during one call; mtime()/read()/cook() are external contracts of "
                      "cook_check. Package-relative ('pkg:path') specs and search paths are excluded by "
                      "precondition. The @cache decorator of load is under contract "
                      "(same arguments => the instance created the first time, loaded once).",
        "units": [K("template.py::BaseTemplateFile.cook_check"), K("zpt/template.py::PageTemplate.include"), K("loader.py::TemplateLoader.load"),
                  K("loader.py::cache.load"), K("zpt/template.py::Macros.__getitem__"),
                  K("zpt/loader.py::TemplateLoader.load"), K("zpt/template.py::PageTemplateFile.__init__.post_init"),
                  U('pyvc.frames', 'search_path_frame', 'search_path_frame'),
                  U('pyvc.frames', 'render_write_frame', 'render.write_frame'),
                  U('pyvc.frames', 'cook_drops_stale', 'cook.drops_stale_functions'),
                  U('pyvc.frames', 'file_options_frame', 'PageTemplateFile.__init__.options_frame')],
        "not_decided": ["package-relative resolution ('pkg:path' specs and search-path entries)",
                        "the load: expression's own use of the relative loader (zpt/template.py _builtins / ProxyExpr)"],
        "assumptions": COMMON_ASSUMPTIONS + ["file system unchanged during one call"],
    },
    "C18": {
        "technique": TECH + "; spelling independence by complete enumeration over statements x spellings "
                     "(differential compilation with the real compiler)",
        "level_text": "The namespace-scope stack of ElementParser is proved to be pushed by start tags only "
                      "and left untouched (length and contents) by empty tags, so declarations never reach "
                      "siblings; every statement compiles to identical code in the default, renamed-prefix "
                      "(declared on self or ancestor) and data-attribute spellings, and no emitted literal "
                      "contains template-language markup (complete over the statement catalogue).",
        "level_note": "parse_tag is an assumed contract (frame: it mutates only the map it is given). "
                      "Enumeration is complete for 15 statements x 4 spellings, not for all documents.",
        "units": [K("parser.py::ElementParser.__init__"),
                  K("parser.py::ElementParser.visit_empty_tag"), K("parser.py::ElementParser.visit_start_tag"),
                  U('pyvc.spelling', 'unit', 'spelling', needs_k3=True)],
        "not_decided": ["unpack_attributes / convert_data_attributes / prepare_attributes drop clause (covered by the spelling / no-leak enumeration and B-ATTR only)",
                        "namespace-element form (<tal:block>)"],
        "assumptions": COMMON_ASSUMPTIONS + ["assumed contract: parser.parse_tag (frame)"],
    },
    "C19": k3prop(
        "Non-strict compilation is proved (on the emitted code) to raise the original ExpressionError, "
        "with the invalid expression's token and position, if and only if rendering reaches it; strict "
        "compilation is checked to reject the same template with that token and offset.",
        [K("k3::S-Deferred"), K("k3::S-Deferred-empty"), K("k3::S-Deferred-twice"), K("k3::S-Strict-rejects"),
         K("k3::S-Strict-rejects-pipe-tail"), K("k3::S-Strict-rejects-pipe-middle"),
         K("k3::S-Strict-rejects-second-macro"), K("zpt/template.py::PageTemplateFile.__init__.post_init"),
         K("k3::S-Deferred-switch"),
         # "raises whenever rendering reaches it": a named tal:attributes entry is evaluated (once) whatever
         # a dictionary entry later in the statement holds
         K("k3::S-Attribute-dict"), K("k3::S-Attribute-dict-first"),
         U('pyvc.frames', 'strict_reads_frame', 'strict.reads_frame'),
         U('pyvc.frames', 'strict_identity', 'strict_identity', needs_k3=True),
         U('pyvc.frames', 'cook_error_frame', '_cook.error_frame')],
        ["pickle round trip of ExpressionError"]),
    "C20": k3prop(
        "Text-mode templates: the emitted code is proved to copy the source text ('<', '&', tags "
        "included) with each ${expr} replaced by the unescaped string form and $$ by $, also when the "
        "text starts with markup characters.",
        [K("k3::S-TextMode"), K("k3::S-TextMode-lt"), K("k3::S-TextMode-endtag"), K("k3::S-Interp-percent"),
         K("k3::S-Interp-braces"), K("tales.py::PythonExpr.translate"), K("zpt/template.py::PageTextTemplateFile.render"),
         K("zpt/template.py::PageTemplate.parse"), K("k3::S-TextMode-colliding-names"),
         K("zpt/loader.py::TemplateLoader.load"), K("loader.py::cache.load"),
         U('bounded.units', 'interp', 'B-INTERP')],
        ["delimiter search of Interpolator.__call__: bounded stand-in B-INTERP only (S-Interp-braces: two instances)"]),
    "C01": {
        "technique": TECH + "; applied to code emitted by the real compiler for schema templates (K3)",
        "level_text": "For each TAL statement the emitted render code is proved, for all values, all "
                      "child behaviours (HoleC) and all iteration counts, to produce the stream and the "
                      "evaluation trace the language prescribes.",
        "level_note": K3_NOTE + " Attribute-order independence is decided by complete enumeration over "
                      "programs (every subset of the statements on one element x permutations: identical "
                      "emitted code); the combined semantics by the schema with all statements on one element.",
        "units": TAL_BASIC + S_MORE + [FRESH, U('pyvc.permute', 'unit', 'permute')] + K2Q,
        "not_decided": ["nesting depth > 1 is covered through HoleC induction and FRESH pairs, not enumerated",
                        "tal:replace / tal:switch in the combined schema (single-statement schemas only)"],
        "assumptions": K3_ASSUME,
    },
    "C13": {
        "technique": TECH + "; applied to code emitted by the real compiler for schema templates (K3)",
        "level_text": "The emitted try/except for tal:on-error is proved to replace exactly the failed "
                      "element's output by start tag + converted fallback + end tag, to call the handler "
                      "once iff configured, to bind `error`, and to let non-Exceptions propagate.",
        "level_note": K3_NOTE,
        "units": [K("k3::S-OnError-keep"), K("k3::S-OnError-in-translate"), K("k3::S-OnError-static-body"),
                  K("k3::S-OnError-two-streams"), K("k3::S-OnError-omit-expr"), K("k3::S-OnError-interp-attribute"),
                  K("k3::S-OnError-dict-attributes"), K("tal.py::ErrorInfo.__init__"), FRESH],
        "not_decided": [],
        "assumptions": K3_ASSUME,
    },
    "C02": {
        "technique": TECH + "; rule HOM (per-character instance + concatenation lemma) for str.replace chains",
        "level_text": "The convert-and-escape routine emitted into every render function (__quote, K2 "
                      "text re-read from compiler.py) is proved for all values and all four quote modes: "
                      "dispatch (None/default/numbers/__html__/translate-once) on the whole value space, "
                      "and the string branch on a symbolic single character (no raw <, >, quote; every & "
                      "starts a known entity; un-escaping gives the character back).",
        "level_note": "Trusted: lemma HOM-2 (single-character replace distributes over concatenation; its "
                      "side condition is checked on the AST), A-DECODE (decode returns str), A-TRANSLATE "
                      "(translate returns its argument, a str or None), re search semantics for the "
                      "5-character class. Not yet decided: the sinks (K3) and the choice of quote entity.",
        "units": K2Q + [K("zpt/loader.py::TemplateLoader.load"), K("loader.py::cache.load"),
                        # the sinks: every schema that inserts a value states which __quote call it goes through
                        K("k3::S-Content"), K("k3::S-Content-translate"), K("k3::S-Attribute"), K("k3::S-Attribute-quotes"), K("k3::S-Attribute-dict-first"),
                        K("k3::S-Interp-text"), K("k3::S-Interp-percent"), K("k3::S-Comment-interp"),
                        K("k3::S-Cdata-then-text"), K("k3::S-Cdata-twice"), K("k3::S-PI-interp"),
                        K("k3::S-OnError-keep")],
        "not_decided": ["sinks: which quote/entity each emitted call site passes (decided per schema: S-Content, S-Attribute, S-Interp-*, S-Comment-interp)",
                        "'same elements and attributes as for a harmless value' follows from G1-G3 by "
                        "a context argument that is not machine-checked"],
        "assumptions": COMMON_ASSUMPTIONS + ["A-DECODE", "A-TRANSLATE", "HOM-2"],
    },
    "C17": {
        "technique": TECH,
        "level_text": "utils.read_bytes is proved, for every byte string, to follow the sniffing order "
                      "BOM (longest first) > XML declaration > meta charset > default, to decode the "
                      "payload after the byte-order mark, and to report XML exactly for documents that "
                      "start with an XML declaration.",
        "level_note": "Trusted: codec behaviour (uninterpreted bytes.decode with BOM axioms, "
                      "conformance-tested); BOM table read from the live module on this (little-endian) "
                      "host; regex matches as uninterpreted functions of the searched text (plus structural facts "
                      "read off the pattern: mandatory groups, ASCII-only groups).",
        "units": [K("utils.py::read_bytes"), K("utils.py::detect_encoding"), K("utils.py::read_xml_encoding"),
                  K("template.py::BaseTemplate.write@str"), K("template.py::BaseTemplate.write@bytes"),
                  K("template.py::BaseTemplateFile.read@body"), K("zpt/template.py::PageTextTemplateFile.render"),
                  K("zpt/template.py::PageTemplate.parse"),
                  U('pyvc.regexlang', 'meta_unit', 're_meta.order'), U('pyvc.regexlang', 'xml_encoding_unit', 're_encoding.accepts'),
                  U('pyvc.frames', 'render_write_frame', 'render.write_frame')],
        "not_decided": ["PageTemplate.parse itself; package-relative files",
                        "UnicodeEncodeError / LookupError of the output codec in PageTextTemplateFile.render"],
        "assumptions": COMMON_ASSUMPTIONS + ["bytes are modelled as strings of code points 0..255"],
    },
    "C08": {
        "technique": TECH,
        "level_text": "index/number/start/end/odd/even/parity/letter/Letter/Roman of tal.RepeatItem are "
                      "proved equal to spec functions of the number of items consumed, for every "
                      "position (unbounded: beyond 26 and 3999).",
        "level_note": "Trusted: list_iterator.__length_hint__ axiom, str/int builtin models "
                      "(conformance-tested). " + K3_NOTE,
        "units": REPEAT + [K("k3::S-Repeat"), K("k3::S-Repeat-indent"), K("k3::S-Repeat-comprehension"), FRESH,
                           U('pyvc.frames', 'render_write_frame', 'render.write_frame')],
        "not_decided": [
                        "roman()/lower() case mapping", "whitespace computed by visit_element"],
        "assumptions": COMMON_ASSUMPTIONS,
    },
    "C11": {
        "technique": "contract-based deductive verification: sidecar pre/postconditions on the real "
                     "functions, VCs generated from /repo's AST by pyvc, discharged by z3/cvc5",
        "level_text": "Every token-deriving primitive between the lexer and a raise site is proved, "
                      "for all strings and offsets, to preserve the anchoring invariant "
                      "source[pos:pos+len(token)] == token; line/column are proved consistent with pos.",
        "level_note": "Trusted: the axiom schemas for str/re builtins (conformance-tested each run), "
                      "CPython's re engine, the encoding of Python semantics in DESIGN.md 2.3. "
                      "Not decided: 'valid templates are never rejected'; message formatting. "
                      "tal.split_parts is under contract (loop invariant with a ghost index: every piece is cut out of "
                      "the argument and starts at the argument's start or right behind one of its semicolons); the "
                      "TEXT of the pieces and the other statement parsers (parse_defines, parse_attributes) are covered "
                      "by schemas for named error forms and by the bounded stand-ins B-SPLIT (texts and positions), "
                      "B-ERRPOS (erroneous templates by family) and B-REJECT (labelled bounded, not counted). "
                      "Known finding D26: offsets behind a character reference inside one statement value.",
        "units": TOKEN + RESERVED + [K("k3::S-Define-reserved-after-escape"), K("k3::S-Attributes-invalid-after-escape"),
                          K("k3::S-Interp-invalid-then-interp"), K("k3::S-Interp-invalid-then-brace"), K("k3::S-Interp-invalid-last"),
                          K("k3::S-Define-reserved-after-entity"), U('bounded.units', 'split', 'B-SPLIT'),
                          U('bounded.units', 'errpos', 'B-ERRPOS'),
                          # "a template without such an error is never rejected", for the forms of
                          # attribute the parser distinguishes (the schema's `compiles` obligation)
                          K("k3::S-Attribute-unquoted"), K("k3::S-Attribute-quotes"),
                          K("k3::S-Strict-rejects"), K("k3::S-Deferred-twice"), K("parser.py::match_tag"),
                          U('pyvc.frames', 'cook_error_frame', '_cook.error_frame'),
                          U('pyvc.regexlang', 'statement_unit', 'tal.statement_patterns'),
                          U('bounded.units', 'reject', 'B-REJECT'),
                          U('pyvc.frames', 'decorator_audit', 'decorator_audit'),
                 # a compiled module served from the cache for the wrong source or configuration breaks
                 # every property at once
                 U('pyvc.frames', 'digest_reads_frame', 'digest.reads_frame'),
                 U('pyvc.frames', 'digest_injective', 'digest.distinguishes_options')],
        "not_decided": ["'A template without such an error is never rejected' (needs a notion of "
                        "validity independent of the implementation)",
                        "str(exc) formatting (compute_source_marker uses float arithmetic)"],
        "assumptions": ["Python ints are mathematical integers (exact, no machine arithmetic)",
                        "str is a sequence of code points (z3 String); code points above 0x2FFFF "
                        "and lone surrogates are not modelled"],
    },
}


# axiom conformance (DESIGN 2.5) is part of every check: a wrong model of a builtin would make
# every proof that uses it worthless
CONF = U('pyvc.conformance', 'unit', 'conformance')
for _p in PROPS.values():
    _p['units'] = list(_p['units']) + [CONF]


# the shared frame facts are part of every property's check (a change that breaks one of them breaks
# whichever property is looked at)
for _p in PROPS.values():
    _p['units'] = with_common(_p['units'])
