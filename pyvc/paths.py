"""Path enumeration by deterministic re-execution with a decision trace.

A function body is executed from its start once per path.  Every time the executor
needs a branch decision on a symbolic condition it calls Path.decide(); decisions
already fixed by the prefix are replayed, a new decision is checked for feasibility
with z3 and the untaken alternative is queued.  Nothing is copied between paths.
"""
from __future__ import annotations

import time

import z3


class PathEnd(Exception):
    """This path ends here (cut at a loop head, infeasible, or assumption false)."""


class Obligation:
    __slots__ = ('name', 'pc', 'goal', 'expect', 'info', 'path_id', 'inputs')

    def __init__(self, name, pc, goal, expect='valid', info=None, inputs=None):
        self.name = name
        self.pc = list(pc)
        self.goal = goal
        self.expect = expect      # 'valid': pc => goal must hold ; 'sat': pc /\ goal satisfiable
        self.info = info or {}
        self.inputs = inputs or {}


class Explorer:
    """Drives re-execution; shared across the paths of one function."""

    def __init__(self, feas_timeout_ms=300, max_paths=4000):
        self.queue = [[]]
        self.feas_timeout_ms = feas_timeout_ms
        self.max_paths = max_paths
        self.n_paths = 0
        self.feas_time = 0.0
        self.feas_unknown = 0

    def paths(self):
        while self.queue:
            prefix = self.queue.pop()
            self.n_paths += 1
            if self.n_paths > self.max_paths:
                raise RuntimeError('path budget exceeded')
            yield Path(self, prefix)


class Path:
    def __init__(self, explorer, prefix):
        self.ex = explorer
        self.prefix = prefix
        self.taken = []
        self.pc = []
        self.solver = z3.Solver()
        self.solver.set('timeout', explorer.feas_timeout_ms)
        self.labels = []

    # -- assumptions ------------------------------------------------------
    def assume(self, term):
        term = z3.simplify(term) if z3.is_expr(term) else z3.BoolVal(bool(term))
        if z3.is_true(term):
            return
        if z3.is_false(term):
            raise PathEnd()
        self.pc.append(term)
        self.solver.add(term)

    def _feasible(self, term):
        t0 = time.time()
        r = self.solver.check(term)
        self.ex.feas_time += time.time() - t0
        if r == z3.unknown:
            self.ex.feas_unknown += 1
            return True
        return r == z3.sat

    # -- decisions --------------------------------------------------------
    def decide(self, term, label=None):
        """Branch on a z3 Bool; returns a python bool and records the constraint."""
        if isinstance(term, bool):
            return term
        term = z3.simplify(term)
        if z3.is_true(term):
            return True
        if z3.is_false(term):
            return False
        idx = len(self.taken)
        if idx < len(self.prefix):
            choice = self.prefix[idx]
        else:
            ft = self._feasible(term)
            ff = self._feasible(z3.Not(term))
            if ft and ff:
                choice = True
                self.ex.queue.append(self.taken + [False])
            elif ft:
                choice = True
            elif ff:
                choice = False
            else:
                raise PathEnd()
        self.taken.append(choice)
        c = term if choice else z3.Not(term)
        self.pc.append(c)
        self.solver.add(c)
        if label:
            self.labels.append('%s=%s' % (label, choice))
        return choice

    def choose(self, n, label=None):
        """Nondeterministic choice among n alternatives (no solver involved)."""
        if n == 1:
            return 0
        idx = len(self.taken)
        if idx < len(self.prefix):
            choice = self.prefix[idx]
        else:
            choice = 0
            for k in range(n - 1, 0, -1):
                self.ex.queue.append(self.taken + [k])
        self.taken.append(choice)
        if label:
            self.labels.append('%s=%s' % (label, choice))
        return choice
