"""Verdict policy (DESIGN.md 3) and evidence writing."""
from __future__ import annotations

import json
import os
import re
import sys

VERIF = os.path.dirname(os.path.dirname(os.path.abspath(__file__)))
PROPERTY_KINDS = ('post', 'raises', 'pre', 'frame', 'struct', 'hom', 'schema', 'lemma', 'data')


def _safe(name):
    return re.sub(r'[^A-Za-z0-9_.#-]+', '_', name)[:120]


def conclude(pid, P, tier, seed, results, wall):
    from .check import load_baseline
    # an obligation name denotes the same obligation whichever property's check runs its unit, so the
    # baseline is the union over all properties
    baseline = set()
    for names in load_baseline().values():
        baseline.update(names)
    os.makedirs(os.path.join(VERIF, 'evidence'), exist_ok=True)
    os.makedirs(os.path.join(VERIF, 'replays'), exist_ok=True)
    lines = []
    violations, undecided, errors, known_lines, notes = [], [], [], [], []
    n_obl = n_dis = 0
    covers_sat = covers_total = 0
    by_backend = {}
    solver_time = 0.0
    samples = []
    functions = []
    bounded = []
    trusted = set()
    assumptions = list(P.get('assumptions', []))
    slow = []
    cover_state = {}
    known_state = {}
    for r in results:
        unit = r.get('unit')
        if r.get('crash'):
            errors.append('%s: checker crashed\n%s' % (unit, r['crash']))
            continue
        if r.get('function'):
            functions.append(r['function'])
        for b in r.get('bounded', []):
            bounded.append(b)
        for m in r.get('models', []):
            trusted.add('model: ' + m)
        for t in r.get('trusted', []):
            trusted.add(t)
        for a in r.get('assumes', []):
            assumptions.append('%s assumes: %s' % (unit, a))
        for a in r.get('assumptions', []):
            if a not in assumptions:
                assumptions.append(a)
        if r.get('undecided'):
            undecided.append((unit, unit, r['undecided']))
        for o in r.get('obligations', []):
            name = o['name']
            st = o['status']
            solver_time += o.get('time', 0) or 0
            if o.get('time', 0) and o['time'] > 5:
                slow.append((name, o['time']))
            if o.get('expect') == 'sat':
                # a cover holds if SOME path instance of it is satisfiable
                cov = cover_state.setdefault((unit, name), {'sat': 0, 'unsat': 0})
                if st == 'discharged':
                    cov['sat'] += 1
                elif st == 'failed':
                    cov['unsat'] += 1
                continue
            if o.get('known') or name.endswith('#known'):
                base = name[:-len('#known')] if name.endswith('#known') else name
                ks = r.get('known', {}).get(base, [])
                ka = known_state.setdefault(base, {'failed': 0, 'discharged': 0, 'other': 0, 'ks': ks})
                ka['failed' if st == 'failed' else 'discharged' if st == 'discharged' else 'other'] += 1
                continue
            n_obl += 1
            if st == 'discharged':
                n_dis += 1
                by_backend[o['backend']] = by_backend.get(o['backend'], 0) + 1
                if len(samples) < 12 and o.get('text'):
                    samples.append({'obligation': name, 'statement': o['text'],
                                    'backend': o['backend'], 'time_s': o.get('time'),
                                    'smt_bytes': o.get('smt_bytes')})
            elif st == 'failed':
                if o.get('confirmed'):
                    violations.append((unit, o, True))
                elif (o.get('okind') in PROPERTY_KINDS) and not o.get('no_model_violation_forbidden') \
                        and (name in baseline or (name.endswith('.unexpected') and any(
                            b.startswith(name.split('.raises[')[0] + '.') for b in baseline))):
                    # (an exception no path could raise on the unchanged tree has no baseline entry
                    # of its own; the function's other obligations being in the baseline is enough)
                    violations.append((unit, o, False))
                else:
                    undecided.append((unit, name, 'obligation failed (solver: sat) but no failing '
                                      'input replays on the real code'
                                      + ('' if name in baseline else '; obligation not in baseline')))
            elif st == 'error':
                errors.append('%s: %s: %s' % (unit, name, o.get('reason')))
            else:
                undecided.append((unit, name, 'solver undecided (%s)' % (o.get('tried'),)))
    dump = os.environ.get('VERIF_DUMP_NAMES')
    if dump:
        names = [o['name'] for r in results for o in r.get('obligations', [])
                 if o.get('status') == 'discharged' and o.get('expect') != 'sat']
        json.dump(sorted(set(names)), open(dump, 'w'))
    for base, ka in known_state.items():
        # a listed finding is reported while its witness region still fails on some path (or the
        # solver cannot tell); it is dropped with a note once every path instance is discharged
        if ka['failed'] or ka['other']:
            for k in ka['ks']:
                line = 'KNOWN-FINDING: property=%s %s [%s]' % (pid, k['what'], base)
                if line not in known_lines:
                    known_lines.append(line)
        else:
            notes.append('listed finding on %s no longer reproduces' % base)
    for (unit, name), cov in cover_state.items():
        covers_total += 1
        if cov['sat']:
            covers_sat += 1
        elif cov['unsat']:
            errors.append('%s: vacuity: cover obligation %s is unsatisfiable on every path '
                          '(contradictory precondition or unreachable return)' % (unit, name))
    # vacuity
    if n_obl == 0 and not errors:
        errors.append('vacuity: zero obligations generated for %s' % pid)
    for u in results:
        if not u.get('crash') and u.get('function') and not u.get('undecided') \
                and not u.get('obligations'):
            errors.append('vacuity: zero obligations for %s' % u.get('unit'))

    exit_code = 0
    replay_paths = []
    seen_v = set()
    for unit, o, confirmed in violations:
        if o['name'] in seen_v:
            continue
        seen_v.add(o['name'])
        rec = {'property': pid, 'unit': unit, 'obligation': o['name'], 'statement': o.get('text'),
               'kind': 'contract' if '::' in str(unit) and not o.get('replay_cmd') else 'custom',
               'target': unit, 'confirmed_on_real_code': confirmed,
               'inputs_model': o.get('model_inputs'), 'witness': o.get('witness'),
               'solver': {'backend': o.get('backend'), 'tried': o.get('tried')},
               'replay': o.get('replay'), 'search': o.get('search'),
               'replay_cmd': o.get('replay_cmd'), 'verifier_output': o.get('verifier_output')}
        if not confirmed:
            rec['note'] = 'no-failing-input-found: the obligation was discharged on the unchanged ' \
                          'tree (baseline) and the solver now reports it falsifiable'
        path = os.path.join(VERIF, 'replays', '%s-%s.json' % (pid, _safe(o['name'])))
        with open(path, 'w') as f:
            json.dump(rec, f, indent=1, default=str)
        replay_paths.append(path)
        lines.append('VIOLATION property=%s replay=%s%s' % (
            pid, path, '' if confirmed else ' no-failing-input-found'))
        w = o.get('witness') or {}
        lines.append('  obligation %s: %s' % (o['name'], o.get('text')))
        if w:
            lines.append('  failing input: %s' % json.dumps(w.get('inputs'), default=str))
            lines.append('  observed: %s' % json.dumps(w.get('detail'), default=str))
        exit_code = 1
    for ln in known_lines:
        lines.append(ln)
    if errors:
        for e in errors:
            lines.append('CHECKER-ERROR property=%s %s' % (pid, e))
        if exit_code == 0:
            exit_code = 3
    if undecided and exit_code == 0:
        exit_code = 2
    for unit, name, why in undecided:
        lines.append('UNDECIDED property=%s obligation=%s reason=%s' % (pid, name, why))
    for n in notes:
        lines.append('NOTE %s' % n)

    props_cmd = './check %s --tier %s' % (pid, tier)
    coverage = {
        'obligations': n_obl, 'discharged': n_dis,
        'checker_cmd': props_cmd,
        'trusted_base': sorted(trusted) + list(P.get('trusted_base', [])),
        'functions_under_contract': sorted(set(functions)),
        'by_backend': by_backend,
        'solver_time_s': round(solver_time, 3),
        'samples': samples or [{'note': 'no discharged obligation carried a statement'}],
        'bounded': bounded,
        'known_findings': known_lines,
        'not_decided': P.get('not_decided', []),
        'vacuity': {'covers_sat': covers_sat, 'covers_total': covers_total},
        'units': [{'unit': r.get('unit'), 'obligations': len([o for o in r.get('obligations', [])
                                                                if o.get('expect') != 'sat']),
                   'paths': r.get('paths'), 'wall_s': round(r.get('wall', 0), 2),
                   'undecided': r.get('undecided')} for r in results],
        'slow_obligations': slow,
        'exit_code': exit_code,
    }
    ev = {'property_id': pid, 'tier': tier, 'seed': seed, 'level': 'proof',
          'coverage': coverage, 'assumptions': assumptions, 'wall_s': round(wall, 2),
          'violations': len(violations)}
    if not os.environ.get("VERIF_NO_EVIDENCE"):
     with open(os.path.join(VERIF, "evidence", "%s.json" % pid), "w") as f:
        json.dump(ev, f, indent=1, default=str)
    for ln in lines:
        print(ln)
    print('%s tier=%s obligations=%d discharged=%d functions=%d bounded=%d known=%d '
          'undecided=%d wall=%.1fs exit=%d' % (pid, tier, n_obl, n_dis, len(set(functions)),
                                               len(bounded), len(known_lines), len(undecided),
                                               wall, exit_code))
    return exit_code
