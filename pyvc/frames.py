"""Frame / ordering obligations decided on the AST of the real source (DESIGN.md 2.2 `F.frame`).

These are contract clauses of the "nothing else is read / written" and "A happens before B"
kind.  Each unit re-reads /repo's working tree, states the clause, and discharges it by a
static analysis of the function(s) named; a failed clause carries the offending source
location as verifier output and, where one can be constructed, a concrete demonstration on
the real code."""
from __future__ import annotations

import ast
import json
import os
import subprocess
import tempfile
import time

from .vc import PKG, REPO

VERIF = os.path.dirname(os.path.dirname(os.path.abspath(__file__)))
PY = os.environ.get('VERIF_PYTHON', '/venv/bin/python')


def parse(rel):
    with open(os.path.join(PKG, rel), encoding='utf-8') as f:
        return ast.parse(f.read())


def find(tree, qual):
    cur = tree
    for part in qual.split('.'):
        nxt = None
        for n in ast.walk(cur):
            if isinstance(n, (ast.FunctionDef, ast.ClassDef)) and n.name == part and n is not cur:
                nxt = n
                break
        if nxt is None:
            return None
        cur = nxt
    return cur


def ob(name, ok, text, detail=None, kind='frame', replay_cmd=None):
    o = {'name': name, 'expect': 'valid', 'status': 'discharged' if ok else 'failed',
         'backend': 'frame', 'time': 0.0, 'okind': kind, 'text': text, 'tried': 'ast'}
    if not ok:
        o['verifier_output'] = detail
        o['confirmed'] = False
    return o


def is_self_attr(n, names=None):
    return isinstance(n, ast.Attribute) and isinstance(n.value, ast.Name) and n.value.id == 'self' \
        and (names is None or n.attr in names)


# ---------------------------------------------------------------------------
# C14: publication order in BaseTemplate.cook
# ---------------------------------------------------------------------------
def cook_publication_order(spec):
    t0 = time.time()
    fn = find(parse('template.py'), 'BaseTemplate.cook')
    obls = []
    flag_idx, publish_idx, early = None, [], []
    for i, st in enumerate(fn.body):
        for n in ast.walk(st):
            if isinstance(n, ast.Assign) and any(is_self_attr(t, {'_cooked'}) for t in n.targets) \
                    and isinstance(n.value, ast.Constant) and n.value.value is True:
                if st is n:
                    if flag_idx is None:
                        flag_idx = i
                else:
                    early.append(n.lineno)
            if isinstance(n, ast.Call) and isinstance(n.func, ast.Name) and n.func.id == 'setattr' \
                    and n.args and isinstance(n.args[0], ast.Name) and n.args[0].id == 'self':
                publish_idx.append(i)
            if isinstance(n, ast.Assign) and any(is_self_attr(t) and t.attr.startswith('_render')
                                                 for t in n.targets):
                publish_idx.append(i)
    ok = flag_idx is not None and publish_idx and all(p < flag_idx for p in publish_idx) and not early
    obls.append(ob('cook.publication_order', ok,
                   'in BaseTemplate.cook every write of a compiled render function to the instance '
                   'precedes the single top-level `self._cooked = True`',
                   {'flag_statement_index': flag_idx, 'publishing_statement_indices': publish_idx,
                    'conditional_flag_writes_at_lines': early, 'function_line': fn.lineno}))
    # a re-cook never takes a render function away that the new compilation provides: stale ones are
    # removed AFTER the new ones are in place, and only those the new compilation does not define
    install_idx = [i for i, st in enumerate(fn.body) for n in ast.walk(st)
                   if isinstance(n, ast.Call) and isinstance(n.func, ast.Name) and n.func.id == 'setattr']
    removals = []
    for i, st in enumerate(fn.body):
        for n in ast.walk(st):
            if isinstance(n, ast.Call) and isinstance(n.func, ast.Name) and n.func.id == 'delattr':
                # the condition under which it removes: an `if` statement or a comprehension filter
                guard = [ast.unparse(t.test) for t in ast.walk(st) if isinstance(t, ast.If)]
                guard += [ast.unparse(c) for t in ast.walk(st) if isinstance(t, ast.comprehension) for c in t.ifs]
                removals.append((i, guard))
            if isinstance(n, ast.Delete) and any('self' in ast.unparse(t) for t in n.targets):
                removals.append((i, ['del statement']))
    ok2 = all(install_idx and i > max(install_idx) and any('not in functions' in g for g in guard)
              for i, guard in removals)
    obls.append(ob('cook.install_before_remove', ok2,
                   'BaseTemplate.cook removes a `_render*` attribute only after the new functions are installed '
                   'and only if the new compilation does not define it (no window in which a compiled template '
                   'has no render function)',
                   {'install_statement_indices': install_idx, 'removals': removals}))
    return {'unit': 'frames.cook_publication_order', 'function': 'template.py::BaseTemplate.cook',
            'obligations': obls, 'wall': time.time() - t0,
            'assumptions': ['attribute writes are sequentially consistent (CPython GIL); schedules are '
                            'not explored']}


# ---------------------------------------------------------------------------
# C16: templates reached through load: are built with the SAME options as the template that loads
# them (auto_reload in particular: "renders, on every call, the content its file had ...")
# ---------------------------------------------------------------------------
def file_options_frame(spec):
    t0 = time.time()
    fn = find(parse('zpt/template.py'), 'PageTemplateFile.__init__')
    own = [a.arg for a in fn.args.posonlyargs + fn.args.args + fn.args.kwonlyargs]
    allowed = {'self', 'filename', 'loader_class', 'package_name', 'search_path'}
    extra = [a for a in own if a not in allowed]
    kw = fn.args.kwarg.arg if fn.args.kwarg else None
    fwd_loader = fwd_super = False
    for n in ast.walk(fn):
        if isinstance(n, ast.Call):
            spread = [k for k in n.keywords if k.arg is None and isinstance(k.value, ast.Name) and k.value.id == kw]
            if not spread:
                continue
            f = ast.unparse(n.func)
            if f == 'loader_class':
                fwd_loader = True
            if f.startswith('super().__init__'):
                fwd_super = True
    ok = not extra and kw is not None and fwd_loader and fwd_super
    o = ob('PageTemplateFile.__init__.options_frame', ok,
           'every option given to a file template (**%s: auto_reload, debug, strict, ...) reaches both the '
           'template itself and the loader it creates for load: expressions; no option is taken out of it '
           'by an explicit parameter' % (kw or 'config'),
           {'explicit_parameters_beyond_the_documented_ones': extra, 'options_dict': kw,
            'forwarded_to_loader': fwd_loader, 'forwarded_to_base_class': fwd_super})
    return {'unit': 'frames.file_options_frame', 'function': 'zpt/template.py::PageTemplateFile.__init__',
            'obligations': [o], 'wall': time.time() - t0}


# ---------------------------------------------------------------------------
# C03: the Start / End nodes of an element are built from the fields of its OWN start / end tag
# (with Compiler.visit_Start / visit_End emitting exactly those fields: contracts/compiler_emit.py)
# ---------------------------------------------------------------------------
def tag_nodes_frame(spec):
    t0 = time.time()
    fn = find(parse('zpt/program.py'), 'MacroProgram.visit_element')
    obls = []

    aliases = {}
    for n in ast.walk(fn):
        if isinstance(n, ast.Assign) and len(n.targets) == 1 and isinstance(n.targets[0], ast.Name):
            aliases.setdefault(n.targets[0].id, []).append(n.value)

    def field_of(n, var):
        """n is var['f'] or self._maybe_trim(var['f']) (possibly through a local bound once) -> 'f'"""
        if isinstance(n, ast.Name) and len(aliases.get(n.id, [])) == 1:
            n = aliases[n.id][0]
        if isinstance(n, ast.IfExp) and isinstance(n.orelse, ast.Constant) and n.orelse.value is None:
            n = n.body              # `x['f'] if x is not None else None`
        if isinstance(n, ast.Call) and isinstance(n.func, ast.Attribute) and n.func.attr == '_maybe_trim' \
                and len(n.args) == 1:
            n = n.args[0]
        if isinstance(n, ast.Subscript) and isinstance(n.value, ast.Name) and n.value.id == var and \
                isinstance(n.slice, ast.Constant):
            return n.slice.value
        return None
    want = {'End': ('end', ['name', 'space', 'prefix', 'suffix']),
            'Start': ('start', ['name', 'prefix', 'suffix'])}
    for cls, (var, fields) in want.items():
        calls = [n for n in ast.walk(fn) if isinstance(n, ast.Call) and isinstance(n.func, ast.Attribute)
                 and n.func.attr == cls and isinstance(n.func.value, ast.Name) and n.func.value.id == 'nodes']
        # the node built for the element itself is the one whose arguments are tag fields; the
        # on-error fallback synthesises a plain tag from the start tag's name (not a copy of source text)
        main = [c for c in calls if any(field_of(a, 'start') or field_of(a, 'end') for a in c.args)]
        got = [[field_of(a, var) for a in c.args[:len(fields)]] for c in main]
        ok = bool(main) and all(g == fields for g in got)
        obls.append(ob('visit_element.%s_node_fields' % cls.lower(), ok,
                       'nodes.%s for an element is built from %s of its own %s tag, in this order'
                       % (cls, ', '.join("%s['%s']" % (var, f) for f in fields), var),
                       {'constructions': [ast.unparse(c) for c in main], 'fields_found': got}))
    return {'unit': 'frames.tag_nodes_frame', 'function': 'zpt/program.py::MacroProgram.visit_element',
            'obligations': obls, 'wall': time.time() - t0}


# ---------------------------------------------------------------------------
# C11 / C19: a TemplateError passing through BaseTemplate._cook keeps its anchoring
# (token text, position and the source the position refers to); only the file name is filled in
# ---------------------------------------------------------------------------
ANCHOR_DEMO = r'''
import json, sys
sys.path.insert(0, sys.argv[1] + '/src')
from chameleon.zpt.template import PageTemplate
from chameleon.exc import TemplateError
out = {}
for src in ('<a>\r\n<b tal:content="1 +">x</b>\r\n</a>', '<a>\r<b>${2 *}</b></a>', '<p tal:define="x ???">\r\n</p>'):
    try:
        PageTemplate(src, strict=True)
    except TemplateError as e:
        t = e.token
        s = t.source
        if s is None or s[t.pos:t.pos + len(t)] != str.__str__(t):
            out = {'template': src, 'token': str.__str__(t), 'pos': t.pos,
                   'source_slice': None if s is None else s[t.pos:t.pos + len(t)]}
            break
print(json.dumps(out))
'''


def cook_error_frame(spec):
    import json
    import os
    import subprocess
    from .replay import PY, REPO
    t0 = time.time()
    fn = find(parse('template.py'), 'BaseTemplate._cook')
    writes = []
    for h in [x for n in ast.walk(fn) if isinstance(n, ast.Try) for x in n.handlers]:
        nm = h.name
        for n in ast.walk(ast.Module(body=h.body, type_ignores=[])):
            tg = []
            if isinstance(n, ast.Assign):
                tg = n.targets
            elif isinstance(n, (ast.AugAssign, ast.AnnAssign)):
                tg = [n.target]
            for t in tg:
                for x in ast.walk(t):
                    if isinstance(x, ast.Attribute) and isinstance(x.ctx, ast.Store) and nm and \
                            nm in [y.id for y in ast.walk(x.value) if isinstance(y, ast.Name)]:
                        writes.append((ast.unparse(x), n.lineno))
            if isinstance(n, ast.Call) and isinstance(n.func, ast.Name) and n.func.id == 'setattr':
                writes.append((ast.unparse(n), n.lineno))
    bad = [w for w in writes if not w[0].endswith('.token.filename')]
    o = ob('_cook.error_frame', not bad,
           'a TemplateError passing through BaseTemplate._cook is changed in its token.filename only: '
           'token text, offset and the source the offset refers to stay as the compiler set them',
           {'writes_in_handlers': writes})
    if bad:
        env = dict(os.environ)
        env.pop('PYTHONPATH', None)
        try:
            p = subprocess.run([PY, '-c', ANCHOR_DEMO, REPO], capture_output=True, text=True, timeout=120, env=env)
            line = [ln for ln in p.stdout.strip().split('\n') if ln.startswith('{')]
            d = json.loads(line[-1]) if line else None
        except Exception:
            d = None
        if d:
            o['confirmed'] = True
            o['witness'] = {'inputs': {'template': d['template'], 'strict': True},
                            'detail': 'TemplateError token %r at offset %d, but source[offset:offset+len] is %r'
                                      % (d['token'], d['pos'], d['source_slice'])}
    return {'unit': 'frames.cook_error_frame', 'function': 'template.py::BaseTemplate._cook',
            'obligations': [o], 'wall': time.time() - t0}


# ---------------------------------------------------------------------------
# C16: a re-cooked template keeps nothing of the previous version (macros are the `_render_*`
# attributes cook() publishes on the instance)
# ---------------------------------------------------------------------------
COOK_DEMO = r'''
import json, sys
sys.path.insert(0, sys.argv[1] + '/src')
from chameleon.zpt.template import PageTemplate
t = PageTemplate('<a metal:define-macro="foo">F1</a><b metal:define-macro="bar">B1</b>')
before = sorted(t.macros.names)
t._cooked = False        # what BaseTemplateFile.cook_check does when the file has changed
t.cook('<b metal:define-macro="bar">B2</b>')
after = sorted(t.macros.names)
try:
    stale = t.macros['foo'].include is not None
except KeyError:
    stale = False
print(json.dumps({'macros_v1': before, 'macros_after_recook_with_only_bar': after, 'foo_still_served': stale}))
'''


def cook_drops_stale(spec):
    import json
    import os
    import subprocess
    from .replay import PY, REPO
    t0 = time.time()
    fn = find(parse('template.py'), 'BaseTemplate.cook')
    removes = []
    for n in ast.walk(fn):
        # delattr(self, ...) / del self.__dict__[...] / self.__dict__.pop(...) / vars(self).pop(...)
        if isinstance(n, ast.Call) and isinstance(n.func, ast.Name) and n.func.id == 'delattr' and n.args \
                and isinstance(n.args[0], ast.Name) and n.args[0].id == 'self':
            removes.append(n.lineno)
        if isinstance(n, ast.Delete):
            for t in n.targets:
                if isinstance(t, ast.Subscript) and 'self' in ast.unparse(t.value):
                    removes.append(n.lineno)
        if isinstance(n, ast.Call) and isinstance(n.func, ast.Attribute) and n.func.attr in ('pop', 'clear') \
                and 'self' in ast.unparse(n.func.value) and ('__dict__' in ast.unparse(n.func.value)
                                                              or 'vars(' in ast.unparse(n.func.value)):
            removes.append(n.lineno)
    mentions_prefix = any(isinstance(n, ast.Constant) and isinstance(n.value, str) and n.value.startswith('_render')
                          for n in ast.walk(fn))
    # the sweep happens on EVERY cook: it is not conditional on the instance's state (a file template
    # is marked un-cooked just before it is cooked again)
    par = {}
    for n in ast.walk(fn):
        for ch in ast.iter_child_nodes(n):
            par[ch] = n
    state_guards = []
    for n in ast.walk(fn):
        if isinstance(n, ast.Call) and isinstance(n.func, ast.Name) and n.func.id == 'delattr':
            cur = n
            while cur in par:
                cur = par[cur]
                if isinstance(cur, (ast.If, ast.While)):
                    t = ast.unparse(cur.test)
                    if 'self.' in t.replace('self.__dict__', ''):
                        state_guards.append(t)
    ok = bool(removes) and mentions_prefix and not state_guards
    o = ob('cook.drops_stale_functions', ok,
           'BaseTemplate.cook removes the render functions (`_render_*`, i.e. the macros) of the previous '
           'compilation that the new one does not define: "macros ... all from that version and nothing '
           'from earlier ones"',
           {'removal_statements_at_lines': removes, 'mentions__render_prefix': mentions_prefix,
            'removal_conditional_on_instance_state': state_guards, 'function_line': fn.lineno})
    if not ok:
        env = dict(os.environ)
        env.pop('PYTHONPATH', None)
        try:
            p = subprocess.run([PY, '-c', COOK_DEMO, REPO], capture_output=True, text=True, timeout=120, env=env)
            line = [ln for ln in p.stdout.strip().split('\n') if ln.startswith('{')]
            d = json.loads(line[-1]) if line else None
        except Exception:
            d = None
        if d and (d['foo_still_served'] or 'foo' in d['macros_after_recook_with_only_bar']):
            o['confirmed'] = True
            o['witness'] = {'inputs': {'history': "cook(v1 defining macros foo, bar); mark un-cooked (file changed); "
                                                  "cook(v2 defining only bar)"},
                            'detail': json.dumps(d)}
    return {'unit': 'frames.cook_drops_stale', 'function': 'template.py::BaseTemplate.cook',
            'obligations': [o], 'wall': time.time() - t0,
            'assumptions': ['macros are exactly the `_render_*` instance attributes (Macros.__getitem__ / names)']}


# ---------------------------------------------------------------------------
# C14: render path writes nothing; per-render state is fresh; no shared class-level state
# ---------------------------------------------------------------------------
MUTATORS = ('append', 'pop', 'add', 'update', 'insert', 'extend', 'clear', 'remove', 'setdefault',
            'appendleft', 'discard', 'popitem', 'sort', 'reverse')


def self_writes(fn):
    out = []
    for n in ast.walk(fn):
        if isinstance(n, (ast.Assign, ast.AugAssign, ast.AnnAssign)):
            targets = n.targets if isinstance(n, ast.Assign) else [n.target]
            for t in targets:
                for x in ast.walk(t):
                    if is_self_attr(x) and isinstance(x.ctx, ast.Store):
                        out.append((x.attr, n.lineno))
        if isinstance(n, ast.Call) and isinstance(n.func, ast.Name) and n.func.id in ('setattr', 'delattr') \
                and n.args and isinstance(n.args[0], ast.Name) and n.args[0].id == 'self':
            out.append(('setattr', n.lineno))
        if isinstance(n, ast.Call) and isinstance(n.func, ast.Attribute) and n.func.attr in MUTATORS \
                and is_self_attr(n.func.value):
            out.append((n.func.value.attr + '.' + n.func.attr, n.lineno))
        if isinstance(n, ast.Global):
            out.append(('global ' + ','.join(n.names), n.lineno))
    return out


def render_write_frame(spec):
    t0 = time.time()
    obls = []
    targets = [('template.py', 'BaseTemplate.render'), ('template.py', 'BaseTemplate.__call__'),
               ('zpt/template.py', 'PageTemplate.render'), ('zpt/template.py', 'PageTemplate.include'),
               ('zpt/template.py', 'PageTextTemplateFile.render'),
               ('zpt/template.py', 'Macros.__getitem__'), ('zpt/template.py', 'Macros.names'),
               ('tal.py', 'RepeatDict.__call__'),
               # the message of a render error is a function of the formatter's CURRENT records
               # (BaseTemplate.render appends the enclosing call sites while the exception
               # propagates): formatting must not store anything on the formatter
               ('exc.py', 'ExceptionFormatter.__call__')]
    for rel, q in targets:
        fn = find(parse(rel), q)
        if fn is None:
            obls.append(ob('%s.write_frame' % q, False, 'function exists', {'missing': q}))
            continue
        w = [x for x in self_writes(fn) if not (q == 'RepeatDict.__call__')]
        obls.append(ob('%s.write_frame' % q, not w,
                       '%s writes no attribute of the template instance, its class or a module '
                       '(modifies = {})' % q, {'writes': w}))
    # compiling (parse / _compile / digest) is a function of the instance's configuration: it
    # reads options, it never changes them (otherwise one file version would influence the next)
    for rel, q, allowed in (('zpt/template.py', 'PageTemplate.parse', ()),
                            ('zpt/template.py', 'PageTemplate.digest', ()),
                            ('template.py', 'BaseTemplate.digest', ()),
                            ('template.py', 'BaseTemplate._compile', ()),
                            ('template.py', 'BaseTemplate._cook', ('source',))):
        fn = find(parse(rel), q)
        w = [x for x in self_writes(fn) if x[0] not in allowed]
        obls.append(ob('%s.write_frame' % q, not w,
                       '%s does not modify the template instance (modifies = {%s})'
                       % (q, ', '.join(allowed)), {'writes': w}))
    # the cache key is computed from the body exactly as given
    for rel, q in (('zpt/template.py', 'PageTemplate.digest'), ('template.py', 'BaseTemplate.digest')):
        fn = find(parse(rel), q)
        rebinds = [n.lineno for n in ast.walk(fn)
                   if isinstance(n, ast.Name) and n.id == 'body' and isinstance(n.ctx, ast.Store)]
        # ... and nothing is derived from it on the way to the hash except its encoding: no other
        # method of the body is called, no part of it is cut out
        for n in ast.walk(fn):
            if isinstance(n, ast.Attribute) and isinstance(n.value, ast.Name) and n.value.id == 'body' \
                    and n.attr != 'encode':
                rebinds.append(n.lineno)
            if isinstance(n, ast.Subscript) and isinstance(n.value, ast.Name) and n.value.id == 'body':
                rebinds.append(n.lineno)
        obls.append(ob('%s.body_unmodified' % q, not rebinds,
                       '%s hashes the template body exactly as given (no normalisation that the '
                       'compiler does not also apply)' % q, {'body_rebound_at_lines': rebinds}))
    # per-render objects are built from fresh containers
    fn = find(parse('zpt/template.py'), 'PageTemplate.render')
    fresh_ok, seen = False, []
    for n in ast.walk(fn):
        if isinstance(n, ast.Call) and isinstance(n.func, ast.Name) and n.func.id == 'RepeatDict':
            seen.append(ast.unparse(n))
            if len(n.args) == 1 and isinstance(n.args[0], ast.Dict) and not n.args[0].keys:
                fresh_ok = True
            else:
                fresh_ok = False
                break
    obls.append(ob('PageTemplate.render.fresh_repeat', fresh_ok and bool(seen),
                   'the repeat dictionary of a render call is RepeatDict({}) built on a fresh dict',
                   {'constructions': seen}))
    fn = find(parse('template.py'), 'BaseTemplate.render')
    fresh = {'econtext': False, 'rcontext': False, 'stream': False}
    for n in ast.walk(fn):
        if isinstance(n, (ast.Assign, ast.AnnAssign)):
            tgt = n.targets[0] if isinstance(n, ast.Assign) else n.target
            if isinstance(tgt, ast.Name) and tgt.id in fresh and n.value is not None:
                v = n.value
                fresh[tgt.id] = (isinstance(v, ast.Dict) and not v.keys) or \
                    (isinstance(v, ast.Call) and ast.unparse(v.func) in
                     ('Scope', 'self.output_stream_factory'))
    obls.append(ob('BaseTemplate.render.fresh_state', all(fresh.values()),
                   'scope, render-wide context and output stream are created inside each render call',
                   {'fresh': fresh}))
    # no mutable default arguments on classes instantiated per render / per compile
    bad = []
    for rel, cls in (('tal.py', 'RepeatDict'), ('tal.py', 'RepeatItem'), ('utils.py', 'Scope'),
                     ('tal.py', 'ErrorInfo')):
        c = find(parse(rel), cls)
        for f in [x for x in c.body if isinstance(x, ast.FunctionDef)]:
            for d in list(f.args.defaults) + [k for k in f.args.kw_defaults if k is not None]:
                if isinstance(d, (ast.List, ast.Dict, ast.Set)) or (
                        isinstance(d, ast.Call) and ast.unparse(d.func) in ('list', 'dict', 'set')):
                    bad.append('%s.%s: default %s (line %d)' % (cls, f.name, ast.unparse(d), d.lineno))
    obls.append(ob('per_render_classes.no_mutable_defaults', not bad,
                   'RepeatDict/RepeatItem/Scope/ErrorInfo take no mutable default argument '
                   '(state shared between renders)', {'offenders': bad}))
    return {'unit': 'frames.render_write_frame', 'function': 'template.py::BaseTemplate.render (+7)',
            'obligations': obls, 'wall': time.time() - t0}


def instance_state(spec):
    """state that methods mutate through self must be created per instance (in __init__)"""
    t0 = time.time()
    obls = []
    for rel, cls in (('zpt/program.py', 'MacroProgram'), ('compiler.py', 'Compiler'),
                     ('parser.py', 'ElementParser'), ('compiler.py', 'ExpressionTransform'),
                     ('astutil.py', 'NameLookupRewriteVisitor'), ('codegen.py', 'TemplateCodeGenerator')):
        c = find(parse(rel), cls)
        if c is None:
            continue
        init = [f for f in c.body if isinstance(f, ast.FunctionDef) and f.name == '__init__']
        init_attrs = set()
        for f in init:
            aug = {id(n.target) for n in ast.walk(f) if isinstance(n, ast.AugAssign)}
            for n in ast.walk(f):
                # a plain assignment creates the instance's own object; `self.x |= ...` does not
                if is_self_attr(n) and isinstance(n.ctx, ast.Store) and id(n) not in aug:
                    init_attrs.add(n.attr)
        class_level_mutable = {}
        for st in c.body:
            if isinstance(st, (ast.Assign, ast.AnnAssign)):
                tgt = st.targets[0] if isinstance(st, ast.Assign) else st.target
                v = st.value
                if isinstance(tgt, ast.Name) and v is not None and (
                        isinstance(v, (ast.List, ast.Dict, ast.Set)) or
                        (isinstance(v, ast.Call) and ast.unparse(v.func) in ('list', 'dict', 'set'))):
                    class_level_mutable[tgt.id] = st.lineno
        mutated = {}
        for f in [x for x in c.body if isinstance(x, ast.FunctionDef)]:
            for n in ast.walk(f):
                if isinstance(n, ast.Call) and isinstance(n.func, ast.Attribute) and \
                        n.func.attr in MUTATORS and is_self_attr(n.func.value):
                    mutated.setdefault(n.func.value.attr, n.lineno)
                if isinstance(n, ast.Subscript) and isinstance(n.ctx, (ast.Store, ast.Del)) and \
                        is_self_attr(n.value):
                    mutated.setdefault(n.value.attr, n.lineno)
                # `self.x |= ...` / `self.x += ...` on a container: the in-place operator mutates the
                # object self.x refers to -- the class-level one if the instance has none of its own
                if isinstance(n, ast.AugAssign) and is_self_attr(n.target):
                    mutated.setdefault(n.target.attr, n.lineno)
        shared = {a: ln for a, ln in mutated.items()
                  if a in class_level_mutable and a not in init_attrs}
        obls.append(ob('%s.instance_state' % cls, not shared,
                       'every container %s mutates through self is created in __init__ '
                       '(no class-level mutable state shared between compilations)' % cls,
                       {'shared_class_level_containers': shared,
                        'class_level_definitions': class_level_mutable}))
    return {'unit': 'frames.instance_state', 'function': 'zpt/program.py::MacroProgram (+5 classes)',
            'obligations': obls, 'wall': time.time() - t0}


# ---------------------------------------------------------------------------
# C15: every option read while compiling is part of the cache key
# ---------------------------------------------------------------------------
# reads that only decorate the module text or select where it is stored, not what it does
DIGEST_ALLOW = {
    'debug': 'only adds a comment header to the stored source',
    'keep_source': 'keeps a copy of the generated source on the instance',
    'keep_body': 'keeps the body on the instance',
    'filename': 'part of the digest (BaseTemplate.digest) and of the module name',
    'loader': 'the cache itself',
    'content_type': 'derived from the body (sniffing), which is hashed',
    'macros': 'view object on the instance',
    'engine': 'property: reads expression_parser / default_marker (checked separately)',
    'expression_parser': 'property: reads expression_types / default_expression (checked separately)',
    'builtins': 'names are hashed by PageTemplate.digest',
    'extra_builtins': 'merged into builtins whose names are hashed',
    'source': 'output',
    '_loader': 'builtin value, not part of generated code',
    'expression_types': 'class-level table (class name is hashed)',
}


def attr_reads(fn):
    out = {}
    for n in ast.walk(fn):
        if is_self_attr(n) and isinstance(n.ctx, ast.Load):
            out.setdefault(n.attr, n.lineno)
    return out


def digest_reads_frame(spec):
    t0 = time.time()
    zt, bt = parse('zpt/template.py'), parse('template.py')
    reads = {}
    for tree, q in ((zt, 'PageTemplate.parse'), (zt, 'PageTemplate.engine'),
                    (zt, 'PageTemplate.expression_parser'), (bt, 'BaseTemplate._compile')):
        fn = find(tree, q)
        for a, ln in attr_reads(fn).items():
            reads.setdefault(a, '%s:%d' % (q, ln))
    hashed = set()
    for tree, q in ((zt, 'PageTemplate.digest'), (bt, 'BaseTemplate.digest')):
        fn = find(tree, q)
        for n in ast.walk(fn):
            if isinstance(n, ast.For) and isinstance(n.iter, (ast.Tuple, ast.List)):
                for e in n.iter.elts:
                    if isinstance(e, ast.Constant) and isinstance(e.value, str):
                        hashed.add(e.value)
            if is_self_attr(n) and isinstance(n.ctx, ast.Load):
                hashed.add(n.attr)
    methods = set()
    for tree in (zt, bt):
        for n in ast.walk(tree):
            if isinstance(n, ast.Call) and is_self_attr(n.func):
                methods.add(n.func.attr)
    missing = {a: where for a, where in reads.items()
               if a not in hashed and a not in DIGEST_ALLOW and not a.startswith('_')
               and a not in methods}
    obls = [ob('digest.reads_frame', not missing,
               'every template option read by parse()/_compile() (other than the listed '
               'non-semantic ones) is hashed by digest()',
               {'read_but_not_hashed': missing, 'hashed': sorted(hashed)})]
    if missing:
        demo = digest_demo(sorted(missing))
        obls[0]['search'] = demo
        if demo.get('witness'):
            obls[0]['confirmed'] = True
            obls[0]['witness'] = {'inputs': demo['witness'],
                                  'detail': 'two configurations with equal digest and different generated code'}
    return {'unit': 'frames.digest_reads_frame', 'function': 'zpt/template.py::PageTemplate.digest',
            'obligations': obls, 'wall': time.time() - t0,
            'assumptions': ['allow-list of non-semantic reads: ' + ', '.join(
                '%s (%s)' % kv for kv in sorted(DIGEST_ALLOW.items()))]}


DEMO = r'''
import json, sys, os
sys.path.insert(0, os.path.join(sys.argv[1], 'src'))
from chameleon.zpt.template import PageTemplate


class Rec(PageTemplate):
    def digest(self, body, names):
        d = super().digest(body, names)
        self._seen = (d, list(names))
        return d


Rec.__name__ = Rec.__qualname__ = 'PageTemplate'
cands = {
 'boolean_attributes': ({'boolean_attributes': {'x'}}, {'boolean_attributes': {'y'}}, '<a x="${v}" y="${v}"/>'),
 'implicit_i18n_attributes': ({'implicit_i18n_attributes': {'title'}}, {'implicit_i18n_attributes': set()}, '<a title="t"/>'),
 'enable_data_attributes': ({'enable_data_attributes': True}, {'enable_data_attributes': False}, '<a data-tal-content="1"/>'),
 'enable_comment_interpolation': ({'enable_comment_interpolation': True}, {'enable_comment_interpolation': False}, '<!-- ${1} -->'),
 'restricted_namespace': ({'restricted_namespace': True}, {'restricted_namespace': False}, '<a xmlns:v="u" v:x="1"/>'),
 'default_expression': ({'default_expression': 'python'}, {'default_expression': 'string'}, '<a tal:content="x"/>'),
 'mode': ({'mode': 'xml'}, {'mode': 'text'}, 'a ${"<"}'),
 'boolean_attributes:none-vs-empty': ({}, {'boolean_attributes': frozenset()}, '<input checked="${v}"/>'),
 'boolean_attributes:none-vs-empty-list': ({}, {'boolean_attributes': []}, '<input checked="${v}"/>'),
 'implicit_i18n_attributes:none-vs-empty': ({}, {'implicit_i18n_attributes': frozenset()}, '<a title="t"/>'),
 'implicit_i18n_translate': ({'implicit_i18n_translate': True}, {'implicit_i18n_translate': False}, '<a>text</a>'),
 'trim_attribute_space': ({'trim_attribute_space': True}, {'trim_attribute_space': False}, '<a  x="1"\n   y="2"/>'),
 'body:non-ascii': ({'_body': '<p>Gr\u00fc\u00dfe</p>'}, {'_body': '<p>Gr\u00f6\u00dfe</p>'}, None),
 'filename:same-basename': ({'_paths': ['alpha/page.pt', 'beta/page.pt']}, {}, '<p>${1/0}</p>'),
 'filename:same-stem': ({'_paths': ['d/page.pt', 'd/page.html']}, {}, '<p>${1/0}</p>'),
 'filename:stem-is-prefix': ({'_paths': ['d/page.pt', 'd/page.pt.bak']}, {}, '<p>${1/0}</p>'),
 'body:crlf-xml': ({'_body': '<?xml version="1.0"?>\r\n<a>\r\n</a>'}, {'_body': '<?xml version="1.0"?>\n<a>\n</a>'}, None),
 'body:cr-xml': ({'_body': '<?xml version="1.0"?>\r<a>\r</a>'}, {'_body': '<?xml version="1.0"?>\n<a>\n</a>'}, None),
 'body:case': ({'_body': '<P>a</P>'}, {'_body': '<p>a</p>'}, None),
 'body:tab-vs-space': ({'_body': '<p\tx="1">a</p>'}, {'_body': '<p x="1">a</p>'}, None),
 'body:trailing-space': ({'_body': '<p>a</p> '}, {'_body': '<p>a</p>'}, None),
 'body:nul': ({'_body': '<p>a\x00</p>'}, {'_body': '<p>a</p>'}, None),
 'body:bom': ({'_body': '\ufeff<p>a</p>'}, {'_body': '<p>a</p>'}, None),
 'extra_builtins:order': ({'extra_builtins': {'va': 1, 'vb': 2}}, {'extra_builtins': {'vb': 2, 'va': 1}}, '<a>${va}${vb}</a>'),
 'extra_builtins:order3': ({'extra_builtins': {'zz': 1, 'aa': 2, 'mm': 3}}, {'extra_builtins': {'mm': 3, 'zz': 1, 'aa': 2}}, '<a>${aa}</a>'),
 'extra_builtins:names': ({'extra_builtins': {'va': 1}}, {'extra_builtins': {'vb': 1}}, '<a/>'),
 'extra_builtins:concat': ({'extra_builtins': {'ab': 1, 'c': 2}}, {'extra_builtins': {'a': 1, 'bc': 2}}, '<a>${1}</a>'),
 'extra_builtins:concat2': ({'extra_builtins': {'x': 1, 'y': 2}}, {'extra_builtins': {'xy': 1}}, '<a>${1}</a>'),
 'extra_builtins:shadow': ({'extra_builtins': {'nothing': 1}}, {}, '<a>${nothing}</a>'),
 'default_marker': ({}, {}, '<a/>'),
 'tokenizer': ({}, {}, '<a/>'),
 'encoding': ({}, {}, '<a/>'),
}
out = {}
want = json.loads(sys.argv[2])
if want == ['*']:
    want = list(cands)
for attr in want:
    if attr not in cands: continue
    a, b, body = cands[attr]
    if repr(a) == repr(b): continue
    try:
        if attr.startswith('filename:'):
            # two FILE templates with identical text must not share a cache key unless they are the same file
            import tempfile, shutil
            from chameleon import PageTemplateFile
            d = tempfile.mkdtemp(prefix='pyvc-digest-')
            try:
                pa, pb = [os.path.join(d, x) for x in a['_paths']]
                for pth in (pa, pb):
                    os.makedirs(os.path.dirname(pth), exist_ok=True)
                    open(pth, 'w').write(body)
                fa, fb = PageTemplateFile(pa), PageTemplateFile(pb)
                names = ('macros', 'nothing', 'template')
                if fa.digest(body, names) == fb.digest(body, names):
                    out[attr] = {'files': a['_paths'], 'body': body, 'digest': fa.digest(body, names)}
            finally:
                shutil.rmtree(d, ignore_errors=True)
            continue
        if body is None:
            # two different BODIES under the same configuration must get different keys
            ba, bb = a['_body'], b['_body']
            t0 = PageTemplate(ba)
            names = ('macros', 'nothing', 'template')
            if t0.digest(ba, names) == t0.digest(bb, names):
                out[attr] = {'body_a': ba, 'body_b': bb, 'digest': t0.digest(ba, names)}
            continue
        ta = PageTemplate(body, keep_source=True, **a); tb = PageTemplate(body, keep_source=True, **b)
        names = ('macros', 'nothing', 'template')
        da, db = ta.digest(body, names), tb.digest(body, names)
        if ta.digest(body, names) != da or tb.digest(body, names) != db:
            out['digest-not-a-function:' + attr] = {'body': body, 'config_a': repr(a),
                                                     'first': da, 'second': ta.digest(body, names)}
        import re
        norm = lambda s: re.sub(r'\d{6,}', 'N', '\n'.join(l for l in s.split('\n') if not l.strip().startswith('#')))
        if da == db and norm(ta.source) != norm(tb.source) and not attr.startswith('extra_builtins'):
            out[attr] = {'body': body, 'config_a': repr(a), 'config_b': repr(b), 'digest': da}
        # the key cook() ACTUALLY uses (it chooses the names and their order itself) against the code
        # it actually gets compiled for that key
        ra, rb = Rec(body, keep_source=True, **a), Rec(body, keep_source=True, **b)
        if ra._seen[0] == rb._seen[0] and norm(ra.source) != norm(rb.source):
            out[attr + ':as-cooked'] = {'body': body, 'config_a': repr(a), 'config_b': repr(b),
                                        'digest': ra._seen[0], 'names_a': ra._seen[1], 'names_b': rb._seen[1]}
    except Exception as e:
        out.setdefault('_errors', {})[attr] = repr(e)
print(json.dumps(out))
'''


def digest_demo(attrs):
    fd, path = tempfile.mkstemp(prefix='pyvc-demo-', suffix='.py')
    try:
        with os.fdopen(fd, 'w') as f:
            f.write(DEMO)
        env = dict(os.environ)
        env.pop('PYTHONPATH', None)
        for k in list(env):
            if k.upper().startswith('CHAMELEON_'):
                del env[k]
        p = subprocess.run([PY, path, REPO, json.dumps(attrs)], capture_output=True, text=True,
                           env=env, timeout=120)
        line = [l for l in p.stdout.strip().split('\n') if l.startswith('{')]
        res = json.loads(line[-1]) if line else {}
        wit = {k: v for k, v in res.items() if not k.startswith('_')}
        return {'witness': wit or None, 'errors': res.get('_errors'), 'stderr': p.stderr[-500:]}
    finally:
        os.unlink(path)


def digest_injective(spec):
    """C15: "keyed by ... every option that influences code generation" -- for a catalogue of
    option pairs that make the compiler emit different code, the cache keys differ (complete
    enumeration of that finite catalogue on the real digest() and the real compiler)"""
    t0 = time.time()
    demo = digest_demo(['*'])
    wit = demo.get('witness')
    o = ob('digest.distinguishes_options', not wit and not demo.get('errors'),
           'whenever two configurations of the option catalogue make the compiler emit different code for '
           'the same body, digest() gives them different cache keys (None / empty / non-empty values of '
           'set-valued options included)',
           {'collisions': wit, 'errors': demo.get('errors')}, kind='data')
    if wit:
        o['confirmed'] = True
        k = sorted(wit)[0]
        o['witness'] = {'inputs': wit[k], 'detail': 'same digest, different generated code (%d colliding pairs: %s)'
                                                   % (len(wit), ', '.join(sorted(wit)))}
    return {'unit': 'frames.digest_injective', 'function': 'zpt/template.py::PageTemplate.digest',
            'obligations': [o], 'wall': time.time() - t0}


# ---------------------------------------------------------------------------
# C19: `strict` is read only where the property says
# ---------------------------------------------------------------------------
STRICT_DEMO = r'''
import sys, os
sys.path.insert(0, os.path.join(sys.argv[1], 'src'))
from chameleon import PageTemplate
class T(PageTemplate):
    strict = False
try:
    out = T('<p tal:condition="False">${1 +}</p>x')()
    print('HOLDS', repr(out))
except Exception as e:
    print('VIOLATES: a template class configured strict = False rejected an unreached invalid expression at compile time:', type(e).__name__)
'''


def strict_reads_frame(spec):
    t0 = time.time()
    allowed = {('template.py', 'BaseTemplate._compile'), ('compiler.py', 'Compiler.__init__'),
               ('compiler.py', 'ExpressionTransform.__init__'),
               ('compiler.py', 'ExpressionTransform.__call__'),
               ('zpt/template.py', 'PageTemplate.digest')}
    offenders = []
    for rel in ('template.py', 'compiler.py', 'zpt/template.py', 'zpt/program.py', 'tales.py',
                'codegen.py', 'astutil.py', 'program.py', 'parser.py', 'tal.py'):
        tree = parse(rel)

        def visit(node, qual):
            for ch in ast.iter_child_nodes(node):
                q = qual
                if isinstance(ch, (ast.FunctionDef, ast.ClassDef)):
                    q = (qual + '.' if qual else '') + ch.name
                uses = (isinstance(ch, ast.Attribute) and ch.attr == 'strict' and
                        isinstance(ch.ctx, ast.Load)) or \
                       (isinstance(ch, ast.Name) and ch.id == 'strict' and isinstance(ch.ctx, ast.Load)) or \
                       (isinstance(ch, ast.Constant) and ch.value == 'strict')
                if uses and (rel, qual) not in allowed and (rel, q) not in allowed:
                    offenders.append('%s::%s line %d' % (rel, qual or '<module>', ch.lineno))
                visit(ch, q)
        visit(tree, '')
    fn = find(parse('compiler.py'), 'ExpressionTransform.__call__')
    # shape of the only behavioural use: `except ExpressionError ...: if self.strict: raise`
    shape = False
    for n in ast.walk(fn):
        if isinstance(n, ast.ExceptHandler) and n.type is not None and 'ExpressionError' in ast.unparse(n.type):
            first = n.body[0]
            if isinstance(first, ast.If) and ast.unparse(first.test) == 'self.strict' and \
                    len(first.body) == 1 and isinstance(first.body[0], ast.Raise) and first.body[0].exc is None:
                shape = True
    # the value handed to the compiler is the template's `strict` ATTRIBUTE - an instance value or the
    # class-level configuration of a subclass alike (the same read PageTemplate.digest keys the cache on)
    cfn = find(parse('template.py'), 'BaseTemplate._compile')
    local = {}
    for n in ast.walk(cfn):
        if isinstance(n, ast.Assign) and len(n.targets) == 1 and isinstance(n.targets[0], ast.Name):
            local.setdefault(n.targets[0].id, []).append(ast.unparse(n.value))
    reads = []
    for n in ast.walk(cfn):
        if isinstance(n, ast.Call):
            for kw in n.keywords:
                if kw.arg == 'strict':
                    txt = ast.unparse(kw.value)
                    if isinstance(kw.value, ast.Name) and len(local.get(txt, [])) == 1:
                        txt = local[txt][0]
                    reads.append(txt)
    attr_ok = bool(reads) and all(t in ('self.strict', "getattr(self, 'strict')") for t in reads)
    obls = [ob('BaseTemplate._compile.strict_is_attribute', attr_ok,
               'the compiler is given self.strict (attribute lookup: instance value or class-level '
               'configuration), the value the cache key is computed from',
               {'strict_arguments': reads}),
            ob('strict.reads_frame', not offenders,
               '`strict` is read only by _compile, Compiler.__init__, ExpressionTransform and digest',
               {'other_reads': offenders}),
            ob('ExpressionTransform.__call__.strict_shape', shape,
               'on ExpressionError: strict re-raises at compile time, otherwise the error is deferred',
               {'function_line': fn.lineno})]
    if not attr_ok:
        # replay on the real classes: a subclass that configures strict = False at class level
        demo = subprocess.run([PY, '-c', STRICT_DEMO, REPO], capture_output=True, text=True, timeout=120)
        if demo.stdout.strip().startswith('VIOLATES'):
            obls[0]['confirmed'] = True
            obls[0]['witness'] = {'inputs': {'class': "class T(PageTemplate): strict = False", 'body': '<p tal:condition="False">${1 +}</p>'},
                                  'detail': demo.stdout.strip()[:400]}
    return {'unit': 'frames.strict_reads_frame', 'function': 'compiler.py::ExpressionTransform.__call__',
            'obligations': obls, 'wall': time.time() - t0}


def strict_identity(spec):
    """for every catalogue schema the code compiled with strict=True and strict=False is the same"""
    import re
    from . import k3
    from .fresh import catalogue
    t0 = time.time()
    specs = [s for s in catalogue() if 'strict' not in s.get('options', {})]
    schemas = []
    for s in specs:
        for strict in (True, False):
            schemas.append({'id': '%s|%s' % (s['id'], strict), 'text': s['text'],
                            'cls': s.get('cls', 'PageTemplate'),
                            'options': dict(s.get('options', {}), strict=strict)})
    compiled = k3.compile_schemas(schemas)

    def norm(src):
        ids = {}

        def rep(m):
            return 'N%d' % ids.setdefault(m.group(0), len(ids))
        # comments (which carry object addresses) are dropped by the round trip through ast
        return re.sub(r'\d{9,}', rep, ast.unparse(ast.parse(src)))
    obls = []
    for s in specs:
        a, b = compiled['%s|True' % s['id']], compiled['%s|False' % s['id']]
        if 'source' not in a or 'source' not in b:
            continue
        same = norm(a['source']) == norm(b['source'])
        o = ob('strict_identity[%s]' % s['id'], same,
               'strict and non-strict compilation emit identical code for the valid schema %s' % s['id'],
               {'template': s['text']}, kind='schema')
        if not same:
            o['confirmed'] = True
            o['witness'] = {'inputs': {'template': s['text']},
                            'detail': 'generated sources differ between strict=True and strict=False'}
        obls.append(o)
    return {'unit': 'frames.strict_identity', 'obligations': obls, 'wall': time.time() - t0,
            'function': 'compiler.py::Compiler (through %d schema compilations)' % len(schemas)}


# ---------------------------------------------------------------------------
# C16: PageTemplateFile.__init__ must not mutate the caller's search path
# ---------------------------------------------------------------------------
def fresh_on_all_paths(stmts, name):
    """does every path through `stmts` rebind `name` to a freshly built list?  (if/else trees
    only; anything else counts as 'not established')"""
    def fresh_value(v):
        return isinstance(v, ast.List) or (isinstance(v, ast.Call) and isinstance(v.func, ast.Name)
                                           and v.func.id == 'list')
    established = False
    for st in stmts:
        if isinstance(st, ast.Assign) and len(st.targets) == 1 and isinstance(st.targets[0], ast.Name) \
                and st.targets[0].id == name:
            established = fresh_value(st.value)
        elif isinstance(st, ast.If):
            a = fresh_on_all_paths(st.body, name)
            b = fresh_on_all_paths(st.orelse, name) if st.orelse else False
            if a and b:
                established = True
            elif a or b:
                # one branch rebinds, the other keeps the previous state
                established = established and False if not (a and b) else True
        elif isinstance(st, (ast.FunctionDef, ast.Expr, ast.Pass)):
            continue
    return established


def search_path_frame(spec):
    t0 = time.time()
    fn = find(parse('zpt/template.py'), 'PageTemplateFile.__init__')
    mutates = []
    for n in ast.walk(fn):
        if isinstance(n, ast.Call) and isinstance(n.func, ast.Attribute) and n.func.attr in MUTATORS \
                and isinstance(n.func.value, ast.Name) and n.func.value.id == 'search_path':
            mutates.append(n.lineno)
    ok = fresh_on_all_paths(fn.body, 'search_path')
    obls = [ob('PageTemplateFile.__init__.search_path_frame', ok or not mutates,
               'the search_path argument is replaced by a freshly built list on every path before '
               'post_init inserts the template directory into it (the caller\'s and the loader\'s '
               'list are never modified)',
               {'mutated_at_lines': mutates, 'fresh_on_all_paths': ok, 'function_line': fn.lineno})]
    if not obls[0]['status'] == 'discharged':
        demo = search_path_demo()
        obls[0]['search'] = demo
        if demo.get('violates'):
            obls[0]['confirmed'] = True
            obls[0]['witness'] = {'inputs': demo.get('inputs'), 'detail': demo.get('detail')}
    return {'unit': 'frames.search_path_frame', 'function': 'zpt/template.py::PageTemplateFile.__init__',
            'obligations': obls, 'wall': time.time() - t0}


SP_DEMO = r'''
import json, sys, os, tempfile, shutil
sys.path.insert(0, os.path.join(sys.argv[1], 'src'))
from chameleon.zpt.template import PageTemplateFile
d = tempfile.mkdtemp()
try:
    os.mkdir(os.path.join(d, 'sub'))
    p = os.path.join(d, 'sub', 't.pt')
    open(p, 'w').write('<a/>')
    out = {}
    for kind, sp in (('list', [d]), ('tuple', (d,)), ('str', d)):
        before = list(sp) if not isinstance(sp, str) else sp
        PageTemplateFile(p, search_path=sp)
        after = list(sp) if not isinstance(sp, str) else sp
        if before != after:
            out = {'violates': True, 'inputs': {'search_path': repr(before), 'kind': kind},
                   'detail': 'caller list after construction: %r' % (after,)}
            break
    print(json.dumps(out))
finally:
    shutil.rmtree(d, ignore_errors=True)
'''


def search_path_demo():
    fd, path = tempfile.mkstemp(prefix='pyvc-demo-', suffix='.py')
    try:
        with os.fdopen(fd, 'w') as f:
            f.write(SP_DEMO)
        env = dict(os.environ)
        env.pop('PYTHONPATH', None)
        for k in list(env):
            if k.upper().startswith('CHAMELEON_'):
                del env[k]
        p = subprocess.run([PY, path, REPO], capture_output=True, text=True, env=env, timeout=120)
        line = [l for l in p.stdout.strip().split('\n') if l.startswith('{')]
        return json.loads(line[-1]) if line else {'stderr': p.stderr[-500:]}
    finally:
        os.unlink(path)


# ---------------------------------------------------------------------------
# C11: functions on the token path keep the semantics their contracts assume (decorators)
# ---------------------------------------------------------------------------
KNOWN_DECORATORS = {'property', 'staticmethod', 'classmethod', 'overload', 'descriptorint',
                    'descriptorstr', 'contextlib.contextmanager', 'cache', 'abstractmethod',
                    'find_files'}
MEMO = ('lru_cache', 'functools.lru_cache', 'functools.cache', 'cached_property',
        'functools.cached_property')


def decorator_audit(spec):
    """Contracts are stated for the function BODY.  A decorator changes what a call does, so every
    decorator on the token path must be one whose semantics the contracts account for; a
    memoising decorator is unsound there because Token equality ignores position and source
    (a cache hit returns tokens of an earlier, equal-looking clause)."""
    t0 = time.time()
    obls = []
    for rel in ('tokenize.py', 'parser.py', 'tal.py', 'tales.py', 'i18n.py', 'zpt/program.py',
                'compiler.py', 'utils.py', 'exc.py', 'astutil.py', 'codegen.py', 'template.py',
                'zpt/template.py', 'loader.py', 'zpt/loader.py', 'nodes.py'):
        tree = parse(rel)
        bad, memo = [], []
        for n in ast.walk(tree):
            if isinstance(n, (ast.FunctionDef, ast.ClassDef)):
                for d in n.decorator_list:
                    name = ast.unparse(d.func if isinstance(d, ast.Call) else d)
                    if name in MEMO or name.split('.')[-1] in ('lru_cache', 'cached_property'):
                        memo.append('%s (line %d): @%s' % (n.name, n.lineno, ast.unparse(d)))
                    elif name.split('.')[-1] in ('setter', 'getter', 'deleter'):
                        continue            # property accessors
                    elif name not in KNOWN_DECORATORS and name.split('.')[-1] not in KNOWN_DECORATORS:
                        bad.append('%s (line %d): @%s' % (n.name, n.lineno, ast.unparse(d)))
        o = ob('%s.decorators' % rel, not bad and not memo,
               'functions of %s carry only decorators whose semantics the contracts account for; '
               'none is memoised (Token equality ignores positions)' % rel,
               {'memoised': memo, 'unknown_decorators': bad})
        if memo:
            demo = memo_demo(rel, [m.split(' ')[0] for m in memo])
            o['search'] = demo
            if demo.get('violates'):
                o['confirmed'] = True
                o['witness'] = {'inputs': demo.get('inputs'), 'detail': demo.get('detail')}
        obls.append(o)
    return {'unit': 'frames.decorator_audit', 'function': 'tal.py / parser.py / tokenize.py / ... (all functions)',
            'obligations': obls, 'wall': time.time() - t0}


MEMO_DEMO = r'''
import json, sys, os, importlib
sys.path.insert(0, os.path.join(sys.argv[1], 'src'))
from chameleon.tokenize import Token
rel, names = sys.argv[2], json.loads(sys.argv[3])
mod = importlib.import_module('chameleon.' + rel[:-3].replace('/', '.'))
out = {}

def tokens_in(x):
    if isinstance(x, Token):
        yield x
    elif isinstance(x, (list, tuple)):
        for y in x:
            yield from tokens_in(y)
    elif isinstance(x, dict):
        for y in x.values():
            yield from tokens_in(y)

for nm in names:
    f = getattr(mod, nm, None)
    if f is None:
        continue
    for text in ('a 1; b 2', 'k v', 'text x', 'a'):
        s1, s2 = 'xx' + text, 'yyyyyyy' + text
        t1, t2 = Token(text, 2, s1), Token(text, 7, s2)
        try:
            f(t1)
            r2 = f(t2)
        except Exception:
            continue
        wrong = [t for t in tokens_in(r2) if t.source is not s2]
        if wrong:
            out = {'violates': True, 'inputs': {'function': nm, 'first_call': repr((text, 2, s1)),
                                                'second_call': repr((text, 7, s2))},
                   'detail': 'the second call returned a token of the first call: %r at %d in %r'
                             % (str(wrong[0]), wrong[0].pos, wrong[0].source)}
            break
    if out:
        break
print(json.dumps(out))
'''


def memo_demo(rel, names):
    fd, path = tempfile.mkstemp(prefix='pyvc-demo-', suffix='.py')
    try:
        with os.fdopen(fd, 'w') as f:
            f.write(MEMO_DEMO)
        env = dict(os.environ)
        env.pop('PYTHONPATH', None)
        for k in list(env):
            if k.upper().startswith('CHAMELEON_'):
                del env[k]
        p = subprocess.run([PY, path, REPO, rel, json.dumps(names)], capture_output=True, text=True,
                           env=env, timeout=120)
        line = [l for l in p.stdout.strip().split('\n') if l.startswith('{')]
        return json.loads(line[-1]) if line else {'stderr': p.stderr[-500:]}
    finally:
        os.unlink(path)
