"""REGEX-LANG: facts about the LANGUAGE of a pattern, decided by z3's / cvc5's theory of regular
expressions after translating the pattern's parse tree (re._parser) into an SMT regex.

Supported: literals, classes (literals, ranges, \\s \\d \\w as their ASCII sets, negation), `.`,
alternation, groups (capturing or not), greedy/lazy repeats with bounds, IGNORECASE (letters become
two-element classes).  Not supported (-> Untranslatable): look-arounds, back-references,
conditionals, anchors other than a leading ^ / trailing $.  The translation is used for INCLUSION
queries  L(.* A .*) <= L(.* B .*)  ("wherever A occurs, `B.search` finds something"); a
counterexample string is always replayed on the real `re` engine, so an imprecision of the
translation can cost a proof but not produce a false alarm."""
from __future__ import annotations

import json
import re
import re._constants as C
import re._parser as P

import z3

WS = ' \t\n\r\x0b\x0c'
DIGITS = '0123456789'
WORD = DIGITS + 'abcdefghijklmnopqrstuvwxyzABCDEFGHIJKLMNOPQRSTUVWXYZ_'


class Untranslatable(Exception):
    pass


def _ch(c):
    return z3.Re(z3.StringVal(chr(c) if isinstance(c, int) else c))


def _set(chars):
    rs = [_ch(c) for c in chars]
    return z3.Union(*rs) if len(rs) > 1 else rs[0]


ANYCHAR = z3.Range(z3.StringVal('\x00'), z3.StringVal('\U0002ffff')) if False else None


def anychar():
    return z3.AllChar(z3.ReSort(z3.StringSort()))


def _lit(c, icase):
    ch = chr(c)
    if icase and ch.lower() != ch.upper():
        return z3.Union(_ch(ch.lower()), _ch(ch.upper()))
    return _ch(ch)


def _category(cat):
    if cat is C.CATEGORY_SPACE:
        return _set(WS)
    if cat is C.CATEGORY_DIGIT:
        return _set(DIGITS)
    if cat is C.CATEGORY_WORD:
        return _set(WORD)
    if cat is C.CATEGORY_NOT_SPACE:
        return z3.Diff(anychar(), _set(WS))
    if cat is C.CATEGORY_NOT_DIGIT:
        return z3.Diff(anychar(), _set(DIGITS))
    if cat is C.CATEGORY_NOT_WORD:
        return z3.Diff(anychar(), _set(WORD))
    raise Untranslatable('category %s' % cat)


def _in(items, icase):
    neg = False
    parts = []
    for op, av in items:
        if op is C.NEGATE:
            neg = True
        elif op is C.LITERAL:
            parts.append(_lit(av, icase))
        elif op is C.RANGE:
            lo, hi = av
            parts.append(z3.Range(z3.StringVal(chr(lo)), z3.StringVal(chr(hi))))
            if icase:
                for c in range(lo, hi + 1):
                    ch = chr(c)
                    if ch.lower() != ch.upper():
                        parts.append(_lit(c, True))
        elif op is C.CATEGORY:
            parts.append(_category(av))
        else:
            raise Untranslatable('class member %s' % op)
    r = z3.Union(*parts) if len(parts) > 1 else parts[0]
    return z3.Diff(anychar(), r) if neg else r


def _seq(items, icase, dotall):
    parts = [_node(op, av, icase, dotall) for op, av in items]
    parts = [p for p in parts if p is not None]
    if not parts:
        return z3.Re(z3.StringVal(''))
    return z3.Concat(*parts) if len(parts) > 1 else parts[0]


def _node(op, av, icase, dotall):
    if op is C.LITERAL:
        return _lit(av, icase)
    if op is C.NOT_LITERAL:
        return z3.Diff(anychar(), _lit(av, icase))
    if op is C.ANY:
        return anychar() if dotall else z3.Diff(anychar(), _ch('\n'))
    if op is C.IN:
        return _in(av, icase)
    if op is C.BRANCH:
        alts = [_seq(a.data, icase, dotall) for a in av[1]]
        return z3.Union(*alts) if len(alts) > 1 else alts[0]
    if op is C.SUBPATTERN:
        return _seq(av[3].data, icase, dotall)
    if op in (C.MAX_REPEAT, C.MIN_REPEAT, C.POSSESSIVE_REPEAT):
        lo, hi, sub = av
        r = _seq(sub.data, icase, dotall)
        if hi == C.MAXREPEAT:
            if lo == 0:
                return z3.Star(r)
            if lo == 1:
                return z3.Plus(r)
            return z3.Concat(z3.Loop(r, lo, lo), z3.Star(r))
        if lo == 0 and hi == 1:
            return z3.Option(r)
        return z3.Loop(r, lo, hi)
    if op is C.ATOMIC_GROUP:
        return _seq(av.data, icase, dotall)
    raise Untranslatable('%s' % op)


def translate(pattern, flags=0):
    """compiled pattern or (pattern text, flags) -> z3 regex for the strings the pattern MATCHES
    entirely (leading ^ / trailing $ dropped)"""
    if isinstance(pattern, re.Pattern):
        pattern, flags = pattern.pattern, pattern.flags
    if isinstance(pattern, bytes):
        pattern = pattern.decode('latin-1')
    tree = P.parse(pattern, flags)
    items = list(tree.data)
    if items and items[0][0] is C.AT and items[0][1] in (C.AT_BEGINNING, C.AT_BEGINNING_STRING):
        items = items[1:]
    if items and items[-1][0] is C.AT and items[-1][1] in (C.AT_END, C.AT_END_STRING):
        items = items[:-1]
    return _seq(items, bool(flags & re.IGNORECASE), bool(flags & re.DOTALL))


def occurs(r):
    """strings that contain a match of r somewhere"""
    a = z3.Star(anychar())
    return z3.Concat(a, r, a)


def inclusion_query(a, b):
    """SMT-LIB text: is there a string in L(a) \\ L(b)?  (unsat = inclusion holds)"""
    s = z3.String('w')
    sol = z3.Solver()
    sol.add(z3.InRe(s, a))
    sol.add(z3.Not(z3.InRe(s, b)))
    return sol.to_smt2(), s


# ---------------------------------------------------------------------------------------
# C17: "the charset of an HTML meta content-type element ... attribute order/quotes varied"
# ---------------------------------------------------------------------------------------
_Q = r'''["']?'''
_TYPE, _CS = r'[a-z/+.-]+', r'[a-z0-9_-]+'
META_SPECS = {
    # independent description of a meta content-type element, one per attribute order
    'http-equiv,content': r'<meta\s+http-equiv=' + _Q + 'Content-Type' + _Q + r'\s+content=' + _Q + _TYPE
                          + r';\s*charset=' + _CS + _Q + r'\s*/?\s*>',
    'content,http-equiv': r'<meta\s+content=' + _Q + _TYPE + r';\s*charset=' + _CS + _Q
                          + r'\s+http-equiv=' + _Q + 'Content-Type' + _Q + r'\s*/?\s*>',
}
META_SAMPLES = {
    'http-equiv,content': ['<meta http-equiv="Content-Type" content="text/html; charset=koi8-r">',
                           "<META HTTP-EQUIV='content-type' CONTENT='application/xhtml+xml;charset=cp1251' />"],
    'content,http-equiv': ['<meta content="text/html; charset=koi8-r" http-equiv="Content-Type">',
                           "<META CONTENT='application/xhtml+xml;charset=cp1251' HTTP-EQUIV='content-type' />"],
}


def meta_unit(spec):
    import time
    from .solve import solve_text
    from .vc import real_module
    t0 = time.time()
    mod = real_module('utils.py')
    # every module-level pattern detect_encoding may search with
    pats = [getattr(mod, n) for n in sorted(vars(mod)) if n.startswith('RE_META')
            and isinstance(getattr(mod, n), re.Pattern)]
    obls = []
    try:
        parts = [occurs(translate(p)) for p in pats]
        target = z3.Union(*parts) if len(parts) > 1 else parts[0]
        err = None
    except Untranslatable as e:
        target, err = None, str(e)
    for order, text in META_SPECS.items():
        o = {'name': 're_meta.order[%s]' % order, 'expect': 'valid', 'okind': 'struct',
             'text': 'wherever a meta content-type element with the attributes in the order %s occurs, '
                     'one of the RE_META* patterns finds a match (language inclusion)' % order}
        if target is None:
            o.update(status='unknown', backend='regexlang', time=0.0, tried='translate', reason=err)
            obls.append(o)
            continue
        q, _ = inclusion_query(occurs(translate(text, re.I)), target)
        r = solve_text(q, False, t_z3=spec.get('t_z3', 40), t_cvc5=spec.get('t_cvc5', 40),
                       both=spec.get('tier') == 'thorough')
        o.update(backend=r['backend'], time=round(r['time'], 3), tried=r['tried'],
                 status={'unsat': 'discharged', 'sat': 'failed'}.get(r['verdict'], 'unknown'))
        if o['status'] == 'failed':
            # replay on the real engine and the real function
            wit = None
            for s in META_SAMPLES[order]:
                doc = '<html><head>%s</head></html>' % s
                if re.search(text, doc, re.I) and all(p.search(doc) is None for p in pats):
                    got = mod.detect_encoding(doc.encode('ascii'), 'utf-8')
                    wit = {'inputs': {'body': doc, 'default_encoding': 'utf-8'},
                           'detail': 'detect_encoding returns %r: the declared charset is ignored' % (got,)}
                    break
            o['confirmed'] = wit is not None
            if wit:
                o['witness'] = wit
        obls.append(o)
    return {'unit': 'regexlang.meta', 'function': 'utils.py::RE_META / detect_encoding',
            'obligations': obls, 'wall': time.time() - t0,
            'trusted': ['translation of the pattern into an SMT regular expression (\\s \\d \\w as their '
                        'ASCII sets; a counterexample is replayed on the real re engine)']}


# ---------------------------------------------------------------------------------------
# C17: "the encoding named in its XML declaration": every encoding name the XML grammar allows
# (EncName ::= [A-Za-z] ([A-Za-z0-9._] | '-')*), in either quote style and with white space around
# the '=', is found by RE_ENCODING
# ---------------------------------------------------------------------------------------
ENCNAME = r'[A-Za-z][A-Za-z0-9._\-]*'
ENC_SPECS = {
    'double-quoted': r'encoding\s*=\s*"' + ENCNAME + '"',
    'single-quoted': r"encoding\s*=\s*'" + ENCNAME + "'",
}
ENC_SAMPLES = ['Shift_JIS', 'euc_jp', 'iso_8859-1', 'ISO-8859-1', 'koi8_r', 'windows-1251', 'x.y', 'UTF-8']


def xml_encoding_unit(spec):
    import time
    from .solve import solve_text
    from .vc import real_module
    t0 = time.time()
    mod = real_module('utils.py')
    pat = mod.RE_ENCODING
    src = pat.pattern.decode('latin-1') if isinstance(pat.pattern, bytes) else pat.pattern
    obls = []
    try:
        target, err = occurs(translate(src, pat.flags & re.I)), None
    except Untranslatable as e:
        target, err = None, str(e)
    for form, text in ENC_SPECS.items():
        o = {'name': 're_encoding.accepts[%s]' % form, 'expect': 'valid', 'okind': 'struct',
             'text': 'every XML encoding name (EncName, %s) is matched by RE_ENCODING (language inclusion)' % form}
        if target is None:
            o.update(status='unknown', backend='regexlang', time=0.0, tried='translate', reason=err)
            obls.append(o)
            continue
        q, _ = inclusion_query(occurs(translate(text, re.I)), target)
        r = solve_text(q, False, t_z3=spec.get('t_z3', 40), t_cvc5=spec.get('t_cvc5', 40),
                       both=spec.get('tier') == 'thorough')
        o.update(backend=r['backend'], time=round(r['time'], 3), tried=r['tried'],
                 status={'unsat': 'discharged', 'sat': 'failed'}.get(r['verdict'], 'unknown'))
        if o['status'] == 'failed':
            wit = None
            q_ = '"' if form == 'double-quoted' else "'"
            for name in ENC_SAMPLES:
                decl = ('<?xml version=%s1.0%s encoding=%s%s%s?>' % (q_, q_, q_, name, q_)).encode('ascii')
                got = mod.read_xml_encoding(decl + b'<a/>')
                if got != name:
                    wit = {'inputs': {'body': (decl + b'<a/>').decode('ascii')},
                           'detail': 'read_xml_encoding returns %r instead of %r' % (got, name)}
                    break
            o['confirmed'] = wit is not None
            if wit:
                o['witness'] = wit
        obls.append(o)
    return {'unit': 'regexlang.xml_encoding', 'function': 'utils.py::RE_ENCODING / read_xml_encoding',
            'obligations': obls, 'wall': time.time() - t0,
            'trusted': ['translation of the pattern into an SMT regular expression (a counterexample is '
                        'replayed on the real function)']}


# ---------------------------------------------------------------------------------------
# C10: message ids are computed with "whitespace collapsed and trimmed".  The K3 model of the
# emitted helper __re_whitespace (pyvc/k3.py collapse_ws) is `re.sub(r'\s+', ' ', s)`; this unit
# checks that the helper the compiler really emits is that function.
# ---------------------------------------------------------------------------------------
def whitespace_unit(spec):
    import functools
    import time
    from . import k2
    from .solve import solve_text
    t0 = time.time()
    f = k2.prelude_objects().get('__re_whitespace')
    o = {'name': 'prelude.__re_whitespace', 'expect': 'valid', 'okind': 'struct', 'backend': 'regexlang',
         'time': 0.0, 'tried': 'shape',
         'text': "the emitted helper __re_whitespace replaces every maximal run of whitespace by one "
                 "blank: functools.partial(P.sub, ' ') with L(P) = L(\\s+)"}
    pat = getattr(getattr(f, 'func', None), '__self__', None)
    shape = isinstance(f, functools.partial) and isinstance(pat, re.Pattern) and \
        getattr(f.func, '__name__', '') == 'sub' and f.args == (' ',) and not f.keywords
    detail = {'helper': repr(f)}
    ok = False
    if shape:
        try:
            a, b = translate(pat), translate(r'\s+')
            verdicts = []
            for x, y in ((a, b), (b, a)):
                q, _ = inclusion_query(x, y)
                r = solve_text(q, False, t_z3=spec.get('t_z3', 40), t_cvc5=spec.get('t_cvc5', 40))
                verdicts.append(r['verdict'])
                o['backend'], o['tried'] = r['backend'], r['tried']
            ok = verdicts == ['unsat', 'unsat']
            detail['inclusions'] = verdicts
            if 'unknown' in verdicts and 'sat' not in verdicts:
                o['status'] = 'unknown'
        except Untranslatable as e:
            detail['untranslatable'] = str(e)
            o['status'] = 'unknown'
    if 'status' not in o:
        o['status'] = 'discharged' if ok else 'failed'
    if o['status'] == 'failed':
        o['verifier_output'] = detail
        # replay on the real helper
        for s in ('a\nb', 'a\tb', 'a  b', ' a ', 'a \n b'):
            try:
                got = f(s)
            except Exception as e:   # noqa
                got = 'raised %r' % (e,)
            want = re.sub(r'\s+', ' ', s)
            if got != want:
                o['confirmed'] = True
                o['witness'] = {'inputs': {'text': s},
                                'detail': '__re_whitespace(%r) == %r, collapsing gives %r' % (s, got, want)}
                break
        else:
            o['confirmed'] = False
    return {'unit': 'regexlang.whitespace', 'function': 'compiler.py::Compiler.visit_Module (emitted prelude)',
            'obligations': [o], 'wall': time.time() - t0,
            'trusted': ['translation of patterns into SMT regular expressions (ASCII whitespace)']}


# ---------------------------------------------------------------------------------------
# C03: "tokenising and parsing lose nothing" -- the two regex layers agree on what a NAME is: every
# attribute name the tokenizer accepts inside a tag is consumed whole by the parser's attribute
# pattern (otherwise finditer skips the rest of the name and the value with it)
# ---------------------------------------------------------------------------------------
def _group_subpattern(pat, name):
    tree = P.parse(pat.pattern, pat.flags)
    gi = tree.state.groupdict[name]
    found = []

    def walk(sp):
        for op, av in sp.data if hasattr(sp, 'data') else sp:
            if op is C.SUBPATTERN:
                if av[0] == gi:
                    found.append(av[3])
                walk(av[3])
            elif op in (C.MAX_REPEAT, C.MIN_REPEAT, C.POSSESSIVE_REPEAT):
                walk(av[2])
            elif op is C.BRANCH:
                for x in av[1]:
                    walk(x)
            elif op in (C.ASSERT, C.ASSERT_NOT):
                walk(av[1])
    walk(tree)
    return found[0] if found else None


NAME_SAMPLES = ['a', 'A1', 'x:y', 'data-x', '_p', '@click', 'café', 'café', 'a·b', 'กั',
                'a‍b', '中文', 'naïve.x', 'ά']


def attr_name_unit(spec):
    import time
    from .solve import solve_text
    from .vc import real_module
    t0 = time.time()
    tk, pr = real_module('tokenize.py'), real_module('parser.py')
    name_re = tk.collector.res['Name']
    o = {'name': 'attr_name.layers_agree', 'expect': 'valid', 'okind': 'struct', 'backend': 'regexlang',
         'time': 0.0, 'tried': 'translate',
         'text': "every name the tokenizer's Name pattern accepts is matched entirely by the `name` group of "
                 "parser.match_single_attribute (language inclusion)"}
    sub = _group_subpattern(pr.match_single_attribute, 'name')
    try:
        a = translate(name_re)
        flags = pr.match_single_attribute.flags
        b = _seq(sub.data, bool(flags & re.IGNORECASE), bool(flags & re.DOTALL))
        q, _ = inclusion_query(a, b)
        r = solve_text(q, False, t_z3=spec.get('t_z3', 40), t_cvc5=spec.get('t_cvc5', 40))
        o.update(backend=r['backend'], time=round(r['time'], 3), tried=r['tried'],
                 status={'unsat': 'discharged', 'sat': 'failed'}.get(r['verdict'], 'unknown'))
    except (Untranslatable, AttributeError) as e:
        o.update(status='unknown', reason=repr(e))
    if o['status'] == 'failed':
        # replay on the real engine: a name of the tokenizer that the parser's attribute pattern
        # does not consume whole, and what a document with such an attribute renders to
        import subprocess
        from .replay import PY, REPO
        wit = None
        for nm in NAME_SAMPLES:
            if re.fullmatch(name_re, nm) is None:
                continue
            m = pr.match_single_attribute.match(' %s="v"' % nm)
            if m is None or m.group('name') != nm:
                wit = nm
                break
        o['confirmed'] = False
        if wit is not None:
            doc = '<p %s="v" k="w">z</p>' % wit
            code = ("import sys; sys.path.insert(0, %r + '/src'); from chameleon import PageTemplate; "
                    "import json; print(json.dumps(PageTemplate(%r)()))" % (REPO, doc))
            try:
                p = subprocess.run([PY, '-c', code], capture_output=True, text=True, timeout=120)
                out = json.loads(p.stdout.strip().split('\n')[-1])
            except Exception as e:  # noqa
                out = 'error: %r' % (e,)
            o['confirmed'] = out != doc
            o['witness'] = {'inputs': {'body': doc},
                            'detail': 'the attribute name %r is a Name for the tokenizer but the parser consumes only '
                                      'part of it; the document renders as %r' % (wit, out)}
    return {'unit': 'regexlang.attr_name', 'function': 'tokenize.py::Name / parser.py::match_single_attribute',
            'obligations': [o], 'wall': time.time() - t0,
            'trusted': ['translation of patterns into SMT regular expressions']}


# ---------------------------------------------------------------------------------------
# C11 / C07 / C05: the statement patterns of tal.py dissect every well-formed clause into its parts,
# also when the expression spans several lines ("multi-line ... sources")
# ---------------------------------------------------------------------------------------
_N = r'[a-zA-Z_][-a-zA-Z0-9_]*'
_AN = r'[a-zA-Z_:][-a-zA-Z0-9_:.]*'
_ANY = r'(?:.|\n)'
STATEMENT_SPECS = {
    'ATTR_RE': (r'\s*' + _AN + r'\s+[^\s]' + _ANY + r'*',
                ['k e9', 'title t\n  u', 'k e9\n', 'class string:a\n b']),
    'DEFINE_RE': (r'\s*(?:(?:global|local)\s+)?(?:' + _N + r'|\(' + _N + r'(?:,\s*' + _N + r')*\))\s+' + _ANY + '*',
                  ['a e1', 'global a e1\n + 1', '(a, b) e1\n', 'a [x\n for x in y]']),
    'SUBST_RE': (r'\s*(?:(?:text|structure)\s+)?' + _ANY + '*',
                 ['e1', 'structure e1\n', 'text a\n + b']),
}


def statement_unit(spec):
    import time
    from .solve import solve_text
    from .vc import real_module
    t0 = time.time()
    mod = real_module('tal.py')
    obls = []
    for name, (lang, samples) in STATEMENT_SPECS.items():
        pat = getattr(mod, name)
        o = {'name': 'tal.%s.accepts_multiline' % name, 'expect': 'valid', 'okind': 'struct', 'backend': 'regexlang',
             'time': 0.0, 'tried': 'translate',
             'text': 'tal.%s matches every well-formed clause of its statement, including clauses whose '
                     'expression contains line breaks (language inclusion)' % name}
        try:
            q, _ = inclusion_query(translate(lang), translate(pat))
            r = solve_text(q, False, t_z3=spec.get('t_z3', 40), t_cvc5=spec.get('t_cvc5', 40))
            o.update(backend=r['backend'], time=round(r['time'], 3), tried=r['tried'],
                     status={'unsat': 'discharged', 'sat': 'failed'}.get(r['verdict'], 'unknown'))
        except Untranslatable as e:
            o.update(status='unknown', reason=str(e))
        if o['status'] == 'failed':
            o['confirmed'] = False
            for sm in samples:
                if re.fullmatch(lang, sm) and pat.match(sm) is None:
                    o['confirmed'] = True
                    o['witness'] = {'inputs': {'clause': sm},
                                    'detail': 'tal.%s does not match the clause %r' % (name, sm)}
                    break
        obls.append(o)
    return {'unit': 'regexlang.statements', 'function': 'tal.py::ATTR_RE / DEFINE_RE / SUBST_RE',
            'obligations': obls, 'wall': time.time() - t0,
            'trusted': ['translation of patterns into SMT regular expressions']}
