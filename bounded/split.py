"""B-SPLIT (bounded stand-in, never counted as proved): tal.split_parts -- the ';'-separated parts
of a tal:define / tal:attributes value with ';;' as the escape for a literal semicolon -- against an
independent left-to-right specification.

Spec: scanning left to right, an entity reference (as ENTITY_RE matches it) is literal text
including its final ';'; ';;' is a literal ';'; any other ';' ends the current part.  A blank last
part after a separator is dropped.

usage: split.py <repo> <maxlen> -> one JSON line.  Runs under /venv/bin/python."""
import itertools
import json
import os
import sys


def spec(s, entity_re):
    parts, cur, i = [], '', 0
    while i < len(s):
        m = entity_re.match(s, i)
        if m is not None and m.end() > i:
            cur += m.group()
            i = m.end()
            continue
        if s.startswith(';;', i):
            cur += ';'
            i += 2
            continue
        if s[i] == ';':
            parts.append(cur)
            cur = ''
            i += 1
            continue
        cur += s[i]
        i += 1
    parts.append(cur)
    if len(parts) > 1 and not parts[-1].strip():
        del parts[-1]
    return parts


def main():
    repo, maxlen = sys.argv[1], int(sys.argv[2])
    sys.path.insert(0, os.path.join(repo, 'src'))
    from chameleon import tal
    from chameleon.tokenize import Token
    pieces = [';', 'a', ' ', '&amp;', '&', '#1']
    cases = 0
    bad = None
    for n in range(0, maxlen + 1):
        for t in itertools.product(pieces, repeat=n):
            s = ''.join(t)
            cases += 1
            want = spec(s, tal.ENTITY_RE)
            try:
                got = [str.__str__(p) for p in tal.split_parts(Token(s, 0, s))]
            except Exception as e:  # noqa
                got = 'raised %r' % (e,)
            if got != want:
                bad = {'value': s, 'expected': want, 'observed': got}
                break
        if bad:
            break
    print(json.dumps({'cases': cases, 'distinct': cases, 'violation': bad,
                      'bound': 'all concatenations of at most %d pieces from %r' % (maxlen, pieces)}))


if __name__ == '__main__':
    main()
