"""C01: "The result never depends on the order in which the statement attributes are written
inside the start tag" -- decided by enumeration over a finite domain of PROGRAMS (not inputs):
for every subset of the TAL statements on one element and every permutation of their attributes
the real compiler must emit the same render code (up to generated ids and source positions).
Identical code means identical behaviour for EVERY binding, so what the schema contracts prove for
one order holds for all orders.  A difference is replayed by rendering both spellings with a
catalogue of bindings."""
from __future__ import annotations

import itertools
import json
import os
import subprocess
import time

from . import k3
from .replay import PY, REPO, VERIF
from .spelling import normalise

STMTS = [
    ('define', 'tal:define="a e1"'),
    ('condition', 'tal:condition="e3"'),
    ('repeat', 'tal:repeat="i e4"'),
    ('content', 'tal:content="e7"'),
    ('replace', 'tal:replace="e7"'),
    ('omit-tag', 'tal:omit-tag="e8"'),
    ('attributes', 'tal:attributes="k e9"'),
    ('on-error', 'tal:on-error="e11"'),
    ('case', 'tal:case="e6"'),
]
ATTR = dict(STMTS)
ORDER = [s for s, _ in STMTS]


def template(names):
    el = '<p k="s" %s>x</p>' % ' '.join(ATTR[n] for n in names)
    if 'case' in names:
        el = '<div tal:switch="e5">%s</div>' % el
    return 'A%sB' % el


def subsets():
    for k in range(2, len(ORDER) + 1):
        for c in itertools.combinations(ORDER, k):
            if 'content' in c and 'replace' in c:
                continue
            yield c


def perms(c, tier):
    if len(c) <= (3 if tier != 'thorough' else 5):
        return list(itertools.permutations(c))[1:]
    out = [tuple(reversed(c)), c[1:] + c[:1], c[-1:] + c[:-1]]
    if tier == 'thorough':
        import random
        rnd = random.Random(len(c) * 7919 + hash(c) % 1000)
        for _ in range(12):
            p = list(c)
            rnd.shuffle(p)
            out.append(tuple(p))
    return [p for p in dict.fromkeys(out) if p != c]


DIFF = r'''
import json, sys
sys.path.insert(0, sys.argv[1] + '/src')
from chameleon import PageTemplate
a, b = sys.argv[2], sys.argv[3]
VALS = [None, '', 'v<', 0, 7, [1, 2], [], True]
import itertools
names = ['e1', 'e3', 'e4', 'e5', 'e6', 'e7', 'e8', 'e9', 'e11']
def run(t, env):
    try:
        return ('ok', PageTemplate(t)(**env))
    except Exception as e:
        return ('raised', type(e).__mro__[-3].__name__ if len(type(e).__mro__) > 2 else type(e).__name__)
import random
rnd = random.Random(0)
for _ in range(400):
    env = {n: rnd.choice(VALS) for n in names}
    env['e4'] = rnd.choice([None, [], [1, 2], 'ab'])
    x, y = run(a, env), run(b, env)
    if x != y:
        print(json.dumps({'bindings': {k: repr(v) for k, v in env.items()}, 'first': x, 'second': y}))
        break
else:
    print(json.dumps({}))
'''


def unit(spec):
    t0 = time.time()
    tier = spec.get('tier', 'quick')
    schemas, pairs = [], []
    for c in subsets():
        ref = 'perm|' + ','.join(c)
        schemas.append({'id': ref, 'text': template(c)})
        for p in perms(c, tier):
            pid = 'perm|' + ','.join(p)
            schemas.append({'id': pid, 'text': template(p)})
            pairs.append((c, p, ref, pid))
    compiled = k3.compile_schemas(schemas)
    obls = []
    searches = 0
    for c, p, ref, pid in pairs:
        a, b = compiled[ref], compiled[pid]
        name = 'permute[%s]' % ','.join(p)
        o = {'name': name, 'expect': 'valid', 'backend': 'enumeration-complete', 'time': 0.0,
             'okind': 'schema', 'tried': 'compile',
             'text': 'statements written in the order %s compile to the same code as in the order %s'
                     % (' '.join(p), ' '.join(c))}
        if 'source' not in a or 'source' not in b:
            same = ('source' not in a) and ('source' not in b) and a.get('error') == b.get('error')
            o['status'] = 'discharged' if same else 'failed'
            if not same:
                o['confirmed'] = True
                o['witness'] = {'inputs': {'first': template(c), 'second': template(p)},
                                'detail': 'one order compiles, the other is rejected: %r / %r'
                                          % (a.get('message', 'ok'), b.get('message', 'ok'))}
            obls.append(o)
            continue
        if normalise(a['source']) == normalise(b['source']):
            o['status'] = 'discharged'
        else:
            o['status'] = 'failed'
            o['verifier_output'] = {'first': template(c), 'second': template(p)}
            env = dict(os.environ)
            env.pop('PYTHONPATH', None)
            d = {}
            searches += 1
            if searches <= 4:
                # a rendering difference is searched for the first few differing pairs only (one
                # witness is enough; on a changed tree hundreds of pairs may differ)
                try:
                    r = subprocess.run([PY, '-c', DIFF, REPO, template(c), template(p)], capture_output=True,
                                       text=True, timeout=300, env=env)
                    line = [ln for ln in r.stdout.strip().split('\n') if ln.startswith('{')]
                    d = json.loads(line[-1]) if line else {}
                except Exception:
                    d = {}
            if d:
                o['confirmed'] = True
                o['witness'] = {'inputs': dict(d['bindings'], first_template=template(c),
                                               second_template=template(p)),
                                'detail': 'renders %r vs %r' % (d['first'], d['second'])}
            else:
                o['confirmed'] = False
        obls.append(o)
    return {'unit': 'permute', 'function': 'zpt/program.py::MacroProgram.visit_element (through %d compilations)'
            % len(schemas), 'obligations': obls, 'wall': time.time() - t0,
            'trusted': ['equal generated code (up to ids and positions) behaves equally']}
