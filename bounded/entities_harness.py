"""Concrete harness for utils.decode_htmlentities (C06)."""


def decode(string):
    from chameleon.utils import decode_htmlentities
    return decode_htmlentities(string)


def gen_texts():
    from chameleon.tokenize import Token
    for s in ("'?lang=en&region=eu'", "x&copy=2", "a &lt b", "a &lt; b", "&amp;amp;", "&#150;", "ord('&#128;')",
              "&#65", "&#65;", "&#x41;", "&#0;", "a && b", "a & b", "&quot;x&quot;", "&nosuch;", "&ampb",
              "&#1;", "plain", ""):
        src = 'xx' + s
        yield ({'string': Token(s, 2, src)}, {})
