"""Concrete harness for utils.detect_encoding (replay / directed search)."""
META = b'<html><head><meta http-equiv="Content-Type" content="text/html; charset=cp1251"></head></html>'


def detect_encoding(body, default_encoding):
    from chameleon.utils import detect_encoding as f
    return f(body, default_encoding)


def gen_meta_docs():
    # sizes around the integer constants a windowed implementation would use
    for pad in (0, 1, 100, 1000, 1023, 1024, 1025, 2048, 4096, 8192, 65536, 100000):
        yield ({'body': b'<!-- ' + b'x' * pad + b' -->' + META, 'default_encoding': 'utf-8'}, {})
    yield ({'body': b'<html>no meta</html>', 'default_encoding': 'latin-1'}, {})


def read_xml_encoding(body):
    from chameleon.utils import read_xml_encoding as f
    return f(body)


def gen_xml_decls():
    decls = [b'<?xml version="1.0"?>', b'<?xml version="1.0" encoding="latin-1"?>',
             b"<?xml version='1.0' encoding = 'utf-8' ?>", b'<?xml?>', b'<?xml version="1.0"',
             b'<?xmlencoding="koi8-r"?>']
    rests = [b'<p>x</p>', b'<p encoding="cp1251">x</p>', b'\n<a b="?>" encoding=\'shift_jis\'/>',
             b'text about encoding="utf-7" here']
    for d in decls:
        for r in rests:
            yield ({'body': d + r}, {})
    yield ({'body': b'<p encoding="latin-1"/>'}, {})
