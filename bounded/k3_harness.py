"""Concrete replay of K3 schema contracts on the REAL compiler + runtime (runs under
/venv/bin/python).  A schema's holes are instantiated with child snippets from a catalogue and
its probes with values from a catalogue; the template is compiled and its render function is
run on a Scope we own; the SAME contract strings are then evaluated with concrete versions of
the K3 primitives.  Used for the directed search after a failed obligation and as the bounded
stand-in for schema contracts."""
import ast
import itertools
import json
import os
import random
import re
import sys
import traceback


class UNBOUND_T:
    def __repr__(self):
        return '<UNBOUND>'


UNBOUND = UNBOUND_T()


class FalsyHandler(list):
    """a callable handler object that is falsy while it has recorded nothing"""

    def __call__(self, exc):
        self.append(exc)


class Boom(Exception):
    pass


def _boom():
    raise Boom('boom')


def _kbi():
    raise KeyboardInterrupt('kbi')


# child snippets: (id, text, raises: None|'exception'|'nonexception', globally defined names)
CHILDREN = [
    ('empty', '', None, ()),
    ('text', 'x', None, ()),
    ('boom', 'p${boom()}q', 'exception', ()),
    ('kbi', 'p${kbi()}q', 'nonexception', ()),
    ('gdef', '<i tal:define="global gz 1">g</i>', None, ('gz',)),
    ('macro-boom', '<m metal:define-macro="mm">C${boom()}</m>', 'exception', ()),
    ('inner-onerror', '<p tal:on-error="string:i">c${boom()}</p>t', None, ()),
    ('collide', '<b tal:define="a 5; i 6; error 7">${a}</b>', None, ()),
    ('inner-repeat', '<u tal:repeat="i (1, 2)">${i}</u>', None, ()),
    ('after-inner-boom', '<p tal:on-error="string:i">c${boom()}</p>t${boom()}', 'exception', ()),
]


def probe_values(default_marker):
    return [UNBOUND, None, default_marker, '', 'a<b&"c\'', 0, 7, [10, 20, 30], [], True, {'title': 't<'}, ('p', 'q')]


class Run:
    """one concrete execution of an instantiated schema"""

    def __init__(self, job, children, values, handler_on, prebound):
        from chameleon.zpt import template as zt
        from chameleon import tales
        from chameleon.utils import Scope
        from chameleon.tal import RepeatDict
        self.job = job
        self.children = children          # {k: child tuple}
        self.values = values              # {n: value or UNBOUND}
        self.handler_on = handler_on
        text = job['template']
        for k, ch in children.items():
            text = text.replace('<?python __hole__(%d, __stream) ?>' % k,
                                '<?python hole_in(%d, __stream) ?>%s'
                                '<?python hole_out(%d, __stream) ?>' % (k, ch[1], k))
        self.text = text
        cls = getattr(zt, job.get('cls', 'PageTemplate'))
        opts = dict(job.get('options', {}))
        self.template = cls(text, **opts)
        self.default_marker = tales.DEFAULT_MARKER
        self.events = []       # ('eval', n) / ('hole', k)
        self.snapshots = {}    # ('eval', n) -> dict of visible bindings at that time
        self.hole_marks = {}   # k -> [(in_len, out_len or None)]
        self.handler_calls_ = []
        kw = {}
        for n, v in values.items():
            if v is not UNBOUND:
                kw['e%d' % n] = v
        kw.update(prebound)
        self.initial = dict(kw)
        kw.update(hole_in=self._hole_in, hole_out=self._hole_out, boom=_boom, kbi=_kbi)
        self.depth = 0
        self.repeat_seen = []
        self.children_translate = any('i18n:' in ch[1] for ch in children.values())
        self.translations = []    # this schema's own calls (made outside every hole)
        real_translate = self.template.translate

        def recording_translate(*a, **k):
            r = real_translate(*a, **k)
            # a translation block passes default=; the conversion routine's offer of a message
            # object does not (the symbolic model keeps those inside __quote/__convert as well)
            if 'default' in k and (self.depth == 0 or not self.children_translate):
                self.translations.append((a, k, r))
            return r
        kw['__translate'] = recording_translate
        kw['__decode'] = bytes.decode
        if handler_on == 'falsy':
            self.handler_calls_ = FalsyHandler()
            kw['__on_error_handler'] = self.handler_calls_
        else:
            kw['__on_error_handler'] = (self.handler_calls_.append if handler_on else None)
        kw['target_language'] = None
        # an enclosing loop over the same name, when the name is pre-bound
        self.repeat_outer = {n: ('outer-item', n) for n in prebound}
        kw['repeat'] = RepeatDict(dict(self.repeat_outer))
        self.helper_names = ('hole_in', 'hole_out', 'boom', 'kbi', '__translate', '__decode',
                             '__on_error_handler', 'target_language', 'repeat')
        self.econtext = Scope(kw)
        self.rcontext = {}
        self.stream = []
        self.raised = None
        orig = Scope.get_name
        run = self

        def counting_get_name(scope, key):
            m = re.match(r'^e(\d+)$', key)
            if m:
                run.events.append(('eval', int(m.group(1))))
                run.snapshots[('eval', int(m.group(1)))] = run._snapshot(scope)
            return orig(scope, key)
        Scope.get_name = counting_get_name
        try:
            self.template.cook_check()
            try:
                self.template._render(self.stream, self.econtext, self.rcontext)
            except BaseException as e:  # noqa
                self.raised = e
        finally:
            Scope.get_name = orig
        self.output = ''.join(self.stream)

    def _repeat_entries(self):
        out = {}
        rd = self.econtext.get('repeat')
        for nm in self.job.get('own_names', []):
            try:
                out[nm] = rd[nm]
            except Exception:
                out[nm] = None
        return out

    def _snapshot(self, scope):
        return {k: scope[k] for k in scope}

    def _hole_in(self, k, n):
        self.events.append(('hole', k))
        self.snapshots[('hole', k)] = self._snapshot(self.econtext)
        # n is the stream in force at the hole (the main one, or a translation sub-stream)
        self.hole_marks.setdefault(k, []).append([len(n), None, n])
        self.depth += 1
        self.repeat_seen.append(['in', self._repeat_entries()])

    def _hole_out(self, k, n):
        self.hole_marks[k][-1][1] = len(n)
        self.depth -= 1
        self.repeat_seen.append(['out', self._repeat_entries()])

    # ---- concrete K3 primitives ------------------------------------------------
    def ns(self):
        job = self.job
        from bounded import k2_harness

        def S():
            return self.output

        def S0():
            return ''

        def out(k, occ=0):
            marks = self.hole_marks.get(k, [])
            if occ < len(marks) and marks[occ][1] is not None:
                return ''.join(self.stream_at_exit(k, occ))
            return '<no-output>'

        def out_at(k, i):
            return out(k, i)

        def val(n, occ=0):
            v = self.values.get(n, UNBOUND)
            return v

        def evals(n):
            return len([1 for e in self.events if e == ('eval', n)])

        def holes(k):
            return len([1 for e in self.events if e == ('hole', k)])

        def key(tag):
            return ('eval', int(tag[1:])) if tag[0] == 'e' else ('hole', int(tag[1:]))

        def trace(*tags):
            return [key(t) for t in tags] == [e for e in self.events]

        def raised(tag):
            kind, n = key(tag)
            if kind == 'eval':
                return self.values.get(n, UNBOUND) is UNBOUND and evals(n) > 0
            ch = self.children[n]
            if ch[2] is None or holes(n) == 0:
                return False
            marks = self.hole_marks.get(n, [])
            return bool(marks) and marks[-1][1] is None

        def repeat_kept(name):
            seen = self.repeat_seen
            for a, b in zip(seen, seen[1:]):
                if a[0] == 'in' and b[0] == 'out' and a[1].get(name) is not b[1].get(name):
                    return False
            return True

        def repeat_restored(name):
            if name not in self.repeat_outer:
                return True
            try:
                return self.econtext.get('repeat')[name] is self.repeat_outer[name]
            except KeyError:
                return False

        def repeat_failed():
            # the operand value is not iterable: list() raised before the loop started
            for n, v in self.values.items():
                if v is not UNBOUND and v is not None and evals(n) > 0:
                    try:
                        iter(v)
                    except TypeError:
                        return isinstance(self.raised, TypeError)
            return False

        def exc_is_exception():
            if self.raised is not None:
                # the exception in flight (symbolically: the last one raised)
                return isinstance(self.raised, Exception)
            for k, ch in reversed(list(self.children.items())):
                if raised('h%d' % k):
                    return ch[2] == 'exception'
            return True   # a probe raised NameError

        def quoted(v, q, qe, d, m):
            k2_harness.setup('same')
            return k2_harness.quote(v, q, qe, d, m)

        def converted(v):
            k2_harness.setup('same')
            return k2_harness.convert(v)

        def piece(x):
            return str(x)

        def bound(d, name):
            return d[name] if name in d else UNBOUND

        def visible(name):
            return bound(self._snapshot(self.econtext), name)

        def visible0(name):
            return bound(self.initial, name)

        def visible_at(tag, name):
            snap = self.snapshots.get(key(tag))
            return bound(snap, name) if snap is not None else object()

        def global_now(name):
            return bound(self.rcontext, name)

        def in_globals(name):
            return name in dict.keys(self.rcontext)

        def in_local(name):
            return name in dict.keys(self.econtext)

        def scope_frame(*names):
            skip = set(names) | set(self.helper_names) | {'error'}   # HoleC: see pyvc/k3.py hole()
            for ch in self.children.values():
                skip |= set(ch[3])
            now = self._snapshot(self.econtext)
            keys = (set(now) | set(self.initial)) - skip
            return all(bound(now, k) is bound(self.initial, k) or bound(now, k) == bound(self.initial, k)
                       for k in keys)

        def handler_calls():
            # calls made for failures handled inside child snippets belong to the children;
            # this schema's own call is the one for the exception bound to `error`
            ei = errorinfo_of()
            exc = getattr(ei, 'value', None)
            if exc is None:
                return len(self.handler_calls_) if not any(
                    c[1].find('on-error') >= 0 for c in self.children.values()) else 0
            return len([1 for a in self.handler_calls_ if a is exc])

        def handler_configured():
            return bool(self.handler_on)

        def errorinfo_of(k=0):
            for tag, snap in self.snapshots.items():
                e = snap.get('error')
                if type(e).__name__ == 'ErrorInfo':
                    return e
            return object()

        def quote_calls():
            return -1    # not observable concretely; contracts compare it only on symbolic runs

        def translate_calls():
            return -1

        def translate_arg(i, nm):
            # with translating children: only meaningful when no child failed half-way (the hole
            # depth is then exact)
            if self.children_translate and any(m[1] is None for ms in self.hole_marks.values() for m in ms):
                raise NotImplementedError
            a, k, r = self.translations[i]
            return a[0] if nm == 'msgid' else k.get(nm)

        def translate_result(i):
            if self.children_translate and any(m[1] is None for ms in self.hole_marks.values() for m in ms):
                raise NotImplementedError
            return self.translations[i][2]

        def normalize(s):
            return re.sub(r'\s+', ' ', str(s)).strip()

        def i18n0(nm):
            return None

        def DEFAULT():
            return self.default_marker

        def rlen(k=0):
            m = re.search(r'tal:repeat="[^" ]+ e(\d+)"', job['template'])
            order = ([int(m.group(1))] if m else []) + list(self.values)
            for n in order:
                v = self.values.get(n, UNBOUND)
                if n == (int(m.group(1)) if m else None) and (v is UNBOUND or v is None):
                    return 0
                if v is UNBOUND or v is None:
                    continue
                try:
                    return len(list(v))
                except TypeError:
                    continue
            return 0

        lemmas = [l for spec in job.get('loops', {}).values() for l in spec.get('lemmas', [])]

        def acc(i):
            base = [l for l in lemmas if l.startswith('acc(0) ==')]
            step = [l for l in lemmas if l.startswith('acc(_i + 1) ==')]
            if i <= 0:
                return eval(base[0].split('==', 1)[1], dict(nsd))
            return eval(step[0].split('==', 1)[1], dict(nsd, _i=i - 1))

        nsd = dict(S=S, S0=S0, out=out, out_at=out_at, val=val, evals=evals, holes=holes,
                   trace=trace, raised=raised, repeat_failed=repeat_failed, repeat_kept=repeat_kept,
                   repeat_restored=repeat_restored,
                   exc_is_exception=exc_is_exception, quoted=quoted, converted=converted,
                   piece=piece, visible=visible, visible0=visible0, visible_at=visible_at,
                   global_now=global_now, in_local=in_local, in_globals=in_globals, scope_frame=scope_frame,
                   handler_calls=handler_calls, handler_configured=handler_configured,
                   errorinfo_of=errorinfo_of, quote_calls=quote_calls,
                   translate_calls=translate_calls, translate_arg=translate_arg,
                   translate_result=translate_result, normalize=normalize, i18n0=i18n0,
                   DEFAULT=DEFAULT, rlen=rlen, acc=acc,
                   UNBOUND=lambda: UNBOUND)
        return nsd

    def stream_at_exit(self, k, occ):
        a, b, st = self.hole_marks[k][occ]
        # the stream may have been truncated after the hole ran; what is still there is what
        # the contract can talk about
        return st[a:b]

    def stream_snapshot(self, a, b):
        # the stream may have been truncated after the hole ran; what is still there is what
        # the contract can talk about
        return self.stream[a:b]


def check_case(job, run):
    """-> None if the contract holds on this run, else dict(clause, observed)"""
    ns = run.ns()
    if run.raised is not None:
        spec = job.get('raises', {}).get('*')
        mro = [c.__name__ for c in type(run.raised).__mro__]
        for en, sp in job.get('raises', {}).items():
            if en in mro:
                spec = sp
        if spec is None:
            return {'clause': 'no %s may escape' % type(run.raised).__name__,
                    'observed': 'raised %r' % (run.raised,)}
        clauses = spec.get('ensures', [])
    else:
        clauses = job.get('ensures', [])
    for c in clauses:
        if 'quote_calls()' in c or 'translate_calls()' in c:
            continue
        try:
            ok = eval(c, dict(ns))
        except Exception as e:
            # a clause that cannot be evaluated concretely says nothing about the code
            continue
        if not ok:
            return {'clause': c, 'observed': 'output=%r raised=%r events=%r' % (
                run.output, run.raised, run.events)}
    return None


def main():
    job = json.load(open(sys.argv[1]))
    sys.path.insert(0, os.path.join(job['repo'], 'src'))
    sys.path.insert(0, job['verif'])
    for k in list(os.environ):
        if k.upper().startswith('CHAMELEON_'):
            del os.environ[k]
    from chameleon import tales
    holes = sorted({int(m) for m in re.findall(r'__hole__\((\d+)', job['template'])})
    probes = sorted({int(m) for m in re.findall(r'\be(\d+)\b', job['template'])})
    own = job.get('own_names', [])
    rnd = random.Random(job.get('seed', 0))
    vals = probe_values(tales.DEFAULT_MARKER)
    children = CHILDREN
    if job.get('children'):
        children = [tuple(c[:2]) + (c[2], tuple(c[3])) for c in job['children']]
    child_choices = list(itertools.product(children, repeat=len(holes)))
    kinds = job.get('probe_values') or {}
    iterables = [UNBOUND, None, [10, 20, 30], [], [5]]
    value_choices = list(itertools.product(*[iterables if kinds.get(str(n)) == 'iterable' else vals
                                             for n in probes]))
    pre_choices = [{}] + [{n: 'outer-' + n} for n in own] + \
        ([{n: 'outer-' + n for n in own}] if len(own) > 1 else [])
    cases = list(itertools.product(child_choices, value_choices, (True, 'falsy', False), pre_choices))
    rnd.shuffle(cases)
    budget = job.get('budget', 4000)
    tried = 0
    errors = 0
    out = {'verdict': 'holds', 'tried': 0}
    for chs, vs, hon, pre in cases[:budget]:
        tried += 1
        try:
            run = Run(job, dict(zip(holes, chs)), dict(zip(probes, vs)), hon, pre)
        except Exception as e:
            errors += 1
            continue
        bad = check_case(job, run)
        if bad:
            out = {'verdict': 'violates', 'detail': bad,
                   'inputs': {'template': run.text,
                              'bindings': {('e%d' % n): repr(v) for n, v in run.values.items()},
                              'prebound': pre, 'on_error_handler': hon}}
            break
    out['tried'] = tried
    out['harness_errors'] = errors
    print(json.dumps(out, default=repr))


if __name__ == '__main__':
    try:
        main()
    except Exception:
        print(json.dumps({'verdict': 'error', 'detail': {'error': traceback.format_exc()}}))
