"""FRESH side conditions of K3 (DESIGN.md 2.6).

The schema proofs let a hole clobber only the *shared* locals of generated code
(k3.SHARED_LOCALS / SHARED_PREFIXES) and rely on every other generated local of the
enclosing schema surviving the hole.  That is sound only if the identifiers the compiler
generates for different nodes do not collide.  For every ordered pair (X, Y) of catalogue
schemas, X[hole := Y] is compiled as ONE template (both node trees alive, so id()-derived
suffixes cannot coincide through address reuse) and a def-use analysis of the generated
function checks:  no protected local that is assigned inside the inner region is live across it.
"""
from __future__ import annotations

import ast
import importlib
import json
import os
import re
import time

from . import k3

BEGIN, END = '__hole_begin__', '__hole_end__'


def catalogue():
    """all schema specs that contain a hole, from every module under /verif/schemas"""
    d = os.path.join(k3.VERIF, 'schemas')
    specs = []
    for f in sorted(os.listdir(d)):
        if f.endswith('.py') and f != '__init__.py':
            m = importlib.import_module('schemas.' + f[:-3])
            for s in getattr(m, 'SPECS', []):
                if '__hole__(1,' in s['text'] and not s.get('no_fresh'):
                    specs.append(s)
    return specs


def compose(x, y):
    inner = re.sub(k3.HOLE_RE, 'y', y['text'])
    # strip the surrounding 'A' ... 'B' text of the inner schema
    inner = re.sub(r'^A', '', inner)
    inner = re.sub(r'B$', '', inner)
    body = '<?python %s(1) ?>%s<?python %s(1) ?>' % (BEGIN, inner, END)
    text = x['text'].replace(k3.hole(1), body)
    text = re.sub(k3.HOLE_RE, 'z', text)
    return text


def protected(name):
    if name in k3.SHARED_LOCALS or name.startswith(k3.SHARED_PREFIXES):
        return False
    if name in ('__token', '__append', '__stream', 'getname', 'get', '__i18n_domain',
                '__i18n_context', 'target_language'):
        return False
    return name.startswith('__') or name.startswith('_slots')


class Linear(ast.NodeVisitor):
    """source-order list of (name, 'load'|'store', index) plus marker positions and loops"""

    def __init__(self):
        self.events = []
        self.begin = self.end = None
        self.loops = []     # (start index, end index) of loop bodies

    def visit_Name(self, n):
        self.events.append((n.id, 'store' if isinstance(n.ctx, (ast.Store, ast.Del)) else 'load'))

    def visit_Assign(self, n):
        self.visit(n.value)
        for t in n.targets:
            self.visit(t)

    def visit_AugAssign(self, n):
        self.events.append((n.target.id, 'load')) if isinstance(n.target, ast.Name) else None
        self.visit(n.value)
        self.visit(n.target)

    def visit_Call(self, n):
        if isinstance(n.func, ast.Name) and n.func.id in (BEGIN, END):
            if n.func.id == BEGIN:
                self.begin = len(self.events)
            else:
                self.end = len(self.events)
            return
        self.generic_visit(n)

    def visit_For(self, n):
        self.visit(n.iter)
        self.visit(n.target)
        start = len(self.events)
        for s in n.body:
            self.visit(s)
        self.loops.append((start, len(self.events)))
        for s in n.orelse:
            self.visit(s)

    def visit_While(self, n):
        start = len(self.events)
        self.visit(n.test)
        for s in n.body:
            self.visit(s)
        self.loops.append((start, len(self.events)))

    def visit_FunctionDef(self, n):
        # nested functions (slot fillers, __quote/__convert) have their own locals
        return

    def visit_ExceptHandler(self, n):
        if n.name:
            self.events.append((n.name, 'store'))
        for s in n.body:
            self.visit(s)


def analyse(source):
    """-> list of (name, reason) collisions in the generated render function"""
    em = k3.Emitted(source)
    lin = Linear()
    for st in em.trybody:
        lin.visit(st)
    if lin.begin is None or lin.end is None:
        return None
    ev = lin.events
    inside = {n for n, c in ev[lin.begin:lin.end] if c == 'store' and protected(n)}
    bad = []
    for n in sorted(inside):
        # order in which the rest of the function sees the name after the region
        after = [c for m, c in ev[lin.end:] if m == n]
        cyc = []
        for (a, b) in lin.loops:
            if a <= lin.begin and lin.end <= b:
                cyc += [c for m, c in ev[a:lin.begin] if m == n]
        seq = after if after else cyc
        if after and after[0] == 'load':
            bad.append((n, 'read after the inner region before being re-assigned'))
        elif not after and cyc and cyc[0] == 'load':
            bad.append((n, 'read in the next iteration of the enclosing loop'))
        # also: was it assigned outside before the region at all (otherwise it is the inner
        # node's own local and the later read would be a NameError, not a collision)
    outside_stores = {m for m, c in ev[:lin.begin] if c == 'store'} | \
                     {m for m, c in ev[lin.end:] if c == 'store'}
    return [(n, why) for n, why in bad if n in outside_stores]


def unit(spec):
    """custom check unit: FRESH(X, Y) for all catalogue pairs"""
    t0 = time.time()
    specs = catalogue()
    pairs = [(x, y) for x in specs for y in specs]
    schemas = [{'id': 'FRESH[%s,%s]' % (x['id'], y['id']), 'text': compose(x, y),
                'cls': x.get('cls', 'PageTemplate'), 'options': x.get('options', {})}
               for x, y in pairs]
    compiled = k3.compile_schemas(schemas)
    replays = 0
    obls = []
    for (x, y), s in zip(pairs, schemas):
        name = 'fresh[%s,%s]' % (x['id'], y['id'])
        r = compiled[s['id']]
        if 'source' not in r:
            # the composition is rejected at compile time (e.g. illegal nesting): nothing to check
            continue
        res = analyse(r['source'])
        if res is None:
            obls.append({'name': name, 'status': 'unknown', 'backend': 'defuse', 'time': 0.0,
                         'okind': 'frame', 'text': 'inner region markers not found', 'tried': 'defuse'})
            continue
        o = {'name': name, 'expect': 'valid', 'backend': 'defuse', 'time': 0.0, 'okind': 'frame',
             'text': 'no generated local of %s that is assigned by a nested %s is live across it'
                     % (x['id'], y['id'])}
        if not res:
            o['status'] = 'discharged'
        else:
            o['status'] = 'failed'
            o['verifier_output'] = {'template': s['text'], 'colliding_locals': res}
            # replay: run X's own contract concretely with Y as the child (for the first few
            # colliding pairs only: one witness is enough, a changed tree may collide everywhere)
            replays += 1
            if replays <= 4:
                o.update(replay_pair(x, y, res))
            else:
                o['confirmed'] = False
        obls.append(o)
    return {'unit': 'FRESH', 'obligations': obls, 'wall': time.time() - t0,
            'trusted': ['def-use analysis of the generated render function (source order, '
                        'enclosing loops treated cyclically)'],
            'function': 'compiler.py::identifier (through %d composed schema compilations)' % len(pairs)}


def replay_pair(x, y, res):
    from . import replay as rp
    from .vc import Contract
    inner = re.sub(k3.HOLE_RE, 'y', y['text'])
    inner = re.sub(r'^A', '', inner)
    inner = re.sub(r'B$', '', inner)
    c = Contract('k3::%s' % x['id'], params={}, source=('def schema():\n    pass\n', 'schema'),
                 kind='K3', ensures=x.get('ensures', []), raises=x.get('raises', {}),
                 loops=x.get('loops', {}),
                 ghost={'k3': True, 'template': x['text'], 'options': x.get('options', {}),
                        'spec': dict(x, children=[['nested-' + y['id'], inner, None, []],
                                                  ['nested-then-boom', inner + '${boom()}', 'exception', []]])})
    r = rp.k3_search(c, budget=600)
    if r.get('verdict') == 'violates':
        return {'confirmed': True, 'witness': {'inputs': r.get('inputs'), 'detail': r.get('detail')}}
    return {'confirmed': False, 'search': r}
