"""BaseTemplate.render (C12): what happens to an exception raised while rendering.

Property-derived postconditions: RecursionError passes through untouched; an exception outside the
Exception hierarchy (KeyboardInterrupt, SystemExit, GeneratorExit) is never turned into something
else; an Exception is re-raised as the object create_formatted_exception built from it (same
class + RenderError, same args) with the original traceback, or unchanged if no error record
exists; the joined stream is returned only on normal completion."""
from pyvc.vc import Contract
from pyvc.values import REC_FIELDS

CONTRACTS = []
BT = "template.py::BaseTemplate"
REC_FIELDS[BT] = {"value_repr": "any"}

EXT = {
    'Scope': {'result': 'any'},
    'self.cook_check': {},
    'self.output_stream_factory': {'result': 'any', 'as': 'new_stream'},
    '__kw.get': {'result': 'any', 'as': 'kwget'},
    'self._render': {'raises_any': True, 'havoc': ['rcontext'], 'as': '_render'},
    'sys.exc_info': {'exc_info': True},
    'ExceptionFormatter': {'result': 'any'},
    'create_formatted_exception': {'result': 'exception', 'raises': ['TypeError'], 'as': 'cfe'},
    'raise_with_traceback': {'raises_arg': 0, 'as': 'reraise'},
    'formatter._errors.extend': {'as': 'extend'},
    'join': {'result': 'str'},
}

CONTRACTS.append(Contract(
    BT + ".render", params={"self": "rec[%s]" % BT, "__kw": "map[str,any]"},
    ensures=["not ext_raised_in('_render')", "result == ext_call_result('join', 0)"],
    raises={'*': {'ensures': [
        "ext_raised_in('_render')",
        # no partial output: join() is never reached
        "ext_index('join') == -1",
        # an exception that is not an Exception instance propagates as itself
        "raised_is_exception('_render') or exc is raised_by('_render')",
        # RecursionError is re-raised untouched
        "not raised_is('_render', 'RecursionError') or exc is raised_by('_render')",
        # an Exception is either re-raised unchanged or replaced by the object built from it by
        # create_formatted_exception (class preserved + RenderError, args preserved: B-EXC / utils)
        "exc is raised_by('_render') or (ext_index('cfe') != -1 and exc is ext_call_result('cfe', 0) "
        "and ext_call_arg('cfe', 0, 0) is raised_by('_render'))",
    ]}},
    ghost={'externals': EXT, 'harness': ('bounded.render_harness', 'render_raising'),
           'search': {'generator': ('bounded.render_harness', 'gen_exceptions')}},
    serves=["C12"]))
