"""Concrete harness for BaseTemplate.render's exception flow (C12): a template whose single
expression raises an instance of a chosen class."""
_last = {}


class Custom(Exception):
    def __init__(self, a, b=2):
        super().__init__(a, b)


class StrOverride(ValueError):
    def __str__(self):
        return 'custom str'


CLASSES = [KeyboardInterrupt, SystemExit, GeneratorExit, RecursionError, ValueError, KeyError,
           Custom, StrOverride, ZeroDivisionError, BaseException]


def render_raising(self, __kw):
    from chameleon import PageTemplate
    cls = __kw['cls']
    inst = cls('boom') if cls is not Custom else Custom('boom')
    _last.clear()
    _last['raised_inside'] = inst

    def thrower():
        raise inst
    t = PageTemplate('<p>${thrower()}</p>')
    return t.render(thrower=thrower)


def gen_exceptions():
    for c in CLASSES:
        yield ({'self': None, '__kw': {'cls': c}}, {})


# concrete primitives for the contract clauses that can be observed from outside
def raised_by(name):
    return _last['raised_inside']


def raised_is_exception(name):
    return isinstance(_last['raised_inside'], Exception)


def raised_is(name, clsname):
    import builtins
    return isinstance(_last['raised_inside'], getattr(builtins, clsname))


def ext_raised_in(name):
    return True


def ext_index(name, k=0):
    raise NotImplementedError


def ext_call_result(name, k):
    raise NotImplementedError
