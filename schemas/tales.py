"""K3 schemas for TALES evaluation (C04) and interpolation (C06)."""
from pyvc.k3 import hole, schema_contracts

H1 = hole(1)
LOOKUP = "'AttributeError', 'NameError', 'LookupError', 'TypeError', 'ValueError'"


def caught(tag):
    return "exc_in('%s', %s)" % (tag, LOOKUP)


Q = "quoted(%s, None, '\\xad', None, None)"

SPECS = [
    dict(id='S-Pipe3', text='A<p tal:content="e1 | e2 | e3"/>B',
         ensures=[
             "evals(1) == 1",
             # the next alternative is tried iff the previous one raised a lookup-type exception
             "evals(2) == (1 if raised('e1') else 0)",
             "evals(3) == (1 if raised('e1') and raised('e2') else 0)",
             "not raised('e1') or %s" % caught('e1'),
             "not raised('e2') or %s" % caught('e2'),
             "not raised('e3')",
         ],
         raises={'*': {'ensures': [
             # any other exception propagates at once; the last alternative's exception always does
             "(raised('e1') and not %s and evals(2) == 0) or (raised('e2') and not %s and evals(3) == 0) "
             "or raised('e3')" % (caught('e1'), caught('e2')),
         ]}},
         serves=['C04']),
    dict(id='S-Pipe-prefix-middle',
         # "nestings of these": a type prefix behind a pipe applies to everything that follows it --
         # `a | not: b | c` is `a | not:(b | c)`
         text='A<p tal:condition="e1 | not: e2 | e3">%s</p>B' % H1,
         ensures=[
             "evals(1) == 1",
             "evals(2) == (1 if raised('e1') else 0)",
             "evals(3) == (1 if raised('e1') and raised('e2') else 0)",
             "raised('e1') or (holes(1) == 1) == bool(val(1))",
             "not raised('e1') or raised('e2') or (holes(1) == 1) == (not bool(val(2)))",
             "not (raised('e1') and raised('e2')) or (holes(1) == 1) == (not bool(val(3)))",
         ],
         raises={'*': {'ensures': ["raised('e1') or raised('e2') or raised('e3') or raised('h1')"]}},
         serves=['C04'], no_token_posts=True),
    dict(id='S-Cdata-twice',
         # a CDATA section ends at ITS `]]>`: what stands between two sections is ordinary markup, and
         # values inserted there are escaped
         text='A<![CDATA[x]]><p>${e1}</p><![CDATA[y]]>B',
         ensures=[
             "evals(1) == 1", "quote_calls() == 1",
             "S() == S0() + 'A<![CDATA[x]]><p>' + "
             "('' if quoted(val(1), '\\0', '&#0;', None, None) is None else piece(quoted(val(1), '\\0', '&#0;', None, None))) + '</p><![CDATA[y]]>B'",
         ],
         raises={'*': {'ensures': ["raised('e1')"]}},
         serves=['C02', 'C06', 'C03']),
    dict(id='S-Not', text='A<p tal:condition="not: e1">%s</p>B' % H1,
         ensures=["evals(1) == 1",
                  "bool(val(1)) == (holes(1) == 0)"],
         raises={'*': {'ensures': ["raised('e1') or raised('h1')"]}}, serves=['C04']),
    dict(id='S-Exists', text='A<p tal:condition="exists: e1">%s</p>B' % H1,
         ensures=["evals(1) == 1",
                  # exists: is true iff evaluation succeeded; lookup-type failures mean false
                  "raised('e1') == (holes(1) == 0)",
                  "not raised('e1') or exc_in('e1', 'AttributeError', 'LookupError', 'TypeError', 'NameError')"],
         raises={'*': {'ensures': [
             "(raised('e1') and not exc_in('e1', 'AttributeError', 'LookupError', 'TypeError', 'NameError'))"
             " or raised('h1')"]}},
         serves=['C04']),
    dict(id='S-Interp-text', text='A${e1}x$$y${e2}B',
         ensures=[
             "trace('e1', 'e2')",
             "S() == S0() + 'A' + ('' if %s is None else piece(%s)) + 'x$y' + "
             "('' if %s is None else piece(%s)) + 'B'" % (
                 "quoted(val(1), '\\0', '&#0;', None, None)", "quoted(val(1), '\\0', '&#0;', None, None)",
                 "quoted(val(2), '\\0', '&#0;', None, None)", "quoted(val(2), '\\0', '&#0;', None, None)"),
         ],
         raises={'*': {'ensures': ["raised('e1') or raised('e2')"]}},
         serves=['C06', 'C02', 'C04']),
    dict(id='S-Interp-implicit-mixed',
         # implicit translation of a text takes the text as ONE message only if every ${...} in it is
         # a plain name; a single other expression - wherever it stands - means the parts are put in
         # place of their ${...} one by one ("the text put in place of ${expr} is the value of expr")
         text='<div><p>a ${(e1)} b ${e2} c</p></div>',
         options={'implicit_i18n_translate': True},
         ensures=[
             "trace('e1', 'e2')",
             "translate_calls() == 0",
             "S() == S0() + '<div><p>a ' + ('' if %s is None else piece(%s)) + ' b ' + "
             "('' if %s is None else piece(%s)) + ' c</p></div>'" % (
                 "quoted(val(1), '\\0', '&#0;', None, None)", "quoted(val(1), '\\0', '&#0;', None, None)", "quoted(val(2), '\\0', '&#0;', None, None)", "quoted(val(2), '\\0', '&#0;', None, None)"),
         ],
         raises={'*': {'ensures': ["raised('e1') or raised('e2')"]}},
         serves=['C06', 'C10']),
    dict(id='S-Interp-percent',
         # "everything else is copied": a literal % next to an interpolation is not a format directive
         text='A<p t="${e1} 100% %s">x ${e2}%d %</p>B',
         ensures=[
             "trace('e1', 'e2')",
             "S() == S0() + 'A<p t=\"' + ('' if quoted(val(1), '\"', '&quot;', None, DEFAULT()) is None else piece(quoted(val(1), '\"', '&quot;', None, DEFAULT()))) + ' 100% %s\">x ' + "
             "('' if quoted(val(2), '\\0', '&#0;', None, None) is None else piece(quoted(val(2), '\\0', '&#0;', None, None))) + '%d %</p>B'",
         ],
         raises={'*': {'ensures': ["raised('e1') or raised('e2')"]}},
         serves=['C06', 'C20']),
    dict(id='S-Cdata-then-text',
         # a CDATA section inserts values unescaped (character data); that choice ends with the section:
         # text after it is escaped as everywhere else
         text='A<![CDATA[ x${e1}< ]]><p>${e2}</p>B',
         ensures=[
             "trace('e1', 'e2')",
             "quote_calls() == 1",
             "S().startswith(S0() + 'A<![CDATA[ x')",
             "S().endswith('< ]]><p>' + ('' if quoted(val(2), '\\0', '&#0;', None, None) is None else piece(quoted(val(2), '\\0', '&#0;', None, None))) + '</p>B')",
         ],
         raises={'*': {'ensures': ["raised('e1') or raised('e2') or ext_count() > 0 or translate_calls() > 0"]}},
         serves=['C02', 'C06']),
    dict(id='S-Interp-lines',
         # line/column in the token table count '\n' only (as the tokenizer, Token.location and the
         # error formatter's source excerpt do): no other "line boundary" character starts a line
         text='A\x0cx\u2028y\x85z\x1c\n <p>\x0b${e1}</p>\n\u2029${e2}B',
         ensures=[
             "trace('e1', 'e2')",
         ],
         raises={'*': {'ensures': ["raised('e1') or raised('e2')"]}},
         serves=['C12']),
    dict(id='S-LambdaScope', text='A${(lambda e1: 0)(1)}B${e1}C<i tal:content="e1 | e2"/>',
         ensures=[
             # a lambda parameter is local to the lambda: later expressions still read the
             # template variable of that name
             "evals(1) == 2",
             "evals(2) == (1 if raised('e1') else 0)",
         ],
         raises={'*': {'ensures': ["raised('e1') or raised('e2')"]}},
         serves=['C04'], no_token_posts=True),
    # "names exactly the failing expression's text together with the line and column at which THAT
    # text stands": the same expression text written several times (prefixed forms, which are parsed
    # into expression objects, and plain ones) is announced at each evaluation with the position of
    # the occurrence being evaluated (generated token posts, one per occurrence)
    dict(id='S-Same-not-twice',
         text='A<p tal:condition="not: e1">x</p>\n<p tal:condition="not: e1">w</p>${e4}\n ${e4}B',
         ensures=["trace('e1', 'e1', 'e4', 'e4')"],
         raises={'*': {'ensures': ["raised('e1') or raised('e4')"]}},
         serves=['C12', 'C04']),
    dict(id='S-Same-exists-twice',
         text='A<b tal:condition="exists: e3"/>\n<b tal:condition="exists: e3"/>B',
         ensures=["trace('e3', 'e3')"],
         raises={'*': {'ensures': ["raised('e3')"]}},
         serves=['C12', 'C04']),
    dict(id='S-Same-string-twice',
         text='A<i tal:define="a string:v ${e2}">y</i>\n <i tal:define="a string:v ${e2}">z</i>B',
         own_names=['a'],
         ensures=["trace('e2', 'e2')"],
         raises={'*': {'ensures': ["True"]}},
         serves=['C12', 'C04']),
    dict(id='S-Interp-braces',
         # "the expression extends to its own closing brace even when it contains braces ... or '}'
         # inside string literals": a lone brace in a literal (unbalanced in the expression text)
         text="A${'{'}-${'}'}-${e1}B", cls='PageTextTemplate',
         ensures=["evals(1) == 1",
                  "not is_exact(val(1), str) or S() == S0() + 'A{-}-' + text(val(1)) + 'B'"],
         raises={'*': {'ensures': ["raised('e1') or ext_count() > 0 or translate_calls() > 0"]}},
         serves=['C06', 'C20']),
    dict(id='S-Cdata-entity',
         # "In element text, quoted attribute values, comments and CDATA sections ... character entities
         # in it are decoded before evaluation": inside ${...} of a CDATA section too (the section's text
         # itself is copied as written)
         text="A<![CDATA[&lt;${e1 if 1 &lt; 2 else e2}]]>B",
         ensures=["evals(1) == 1 and evals(2) == 0",
                  "S().startswith(S0() + 'A<![CDATA[&lt;')", "S().endswith(']]>B')"],
         raises={'*': {'ensures': ["raised('e1') or ext_count() > 0 or translate_calls() > 0"]}},
         serves=['C06']),
    dict(id='S-PI-interp',
         # a processing instruction is no opt-out: a value inserted into one is escaped like text
         text='A<?foo x="${e1}"?>B',
         ensures=["evals(1) == 1", "quote_calls() == 1",
                  "S() == S0() + 'A<?foo x=\"' + ('' if quoted(val(1), '\\0', '&#0;', None, None) is None "
                  "else piece(quoted(val(1), '\\0', '&#0;', None, None))) + '\"?>B'"],
         raises={'*': {'ensures': ["raised('e1')"]}},
         serves=['C02', 'C06']),
    dict(id='S-Interp-off', text='A<p meta:interpolation="off">${e1} $ {x}</p>B',
         ensures=["evals(1) == 0", "S() == S0() + 'A<p>${e1} $ {x}</p>B'"],
         serves=['C06']),
]

CONTRACTS = schema_contracts(SPECS)
