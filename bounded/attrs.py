"""B-ATTR (bounded stand-in, never counted as proved): tal.prepare_attributes against an
independent specification of the merge of static and dynamic attributes (C07, C18, C03).

Spec (from the property): static attributes keep their order and text unless dropped (language
namespaces / their xmlns declarations); a dynamic name matching an entry case-insensitively
replaces that entry in place (keeping the entry's quoting and spacing), later sources override
earlier ones; new names are appended in statement order; i18n-only names not present are
appended last.

usage: attrs.py <repo> <size> -> one JSON line.  Runs under /venv/bin/python."""
import itertools
import json
import os
import sys

TAL = 'http://xml.zope.org/namespaces/tal'
XMLNS = 'http://www.w3.org/2000/xmlns/'
XML = 'http://www.w3.org/XML/1998/namespace'
DROP = (TAL, 'http://xml.zope.org/namespaces/metal', 'http://xml.zope.org/namespaces/i18n',
        'http://xml.zope.org/namespaces/meta')


def spec(attrs, dyn, i18n, ns_keys, drop_ns):
    entries = []
    for a, (ns, _local) in zip(attrs, ns_keys):
        if ns in drop_ns or (ns == XMLNS and a['value'] in drop_ns):
            continue
        entries.append([a['name'], a['value'], a['quote'], a['space'], a['eq'], None])
    # names dropped are dropped by NAME in the implementation's contract: an attribute whose
    # name equals a dropped one is dropped as well
    dropped = {a['name'] for a, (ns, _l) in zip(attrs, ns_keys)
               if ns in drop_ns or (ns == XMLNS and a['value'] in drop_ns)}
    entries = [e for e in entries if e[0] not in dropped]
    for name, expr in dyn:
        hit = None
        if name is not None:
            for k in range(len(entries) - 1, -1, -1):
                if entries[k][0] is not None and entries[k][0].lower() == name.lower():
                    hit = k
                    break
        if hit is not None:
            _, text, quote, space, eq, _ = entries[hit]
            entries[hit] = [name, text, quote, space, eq, expr]
        else:
            entries.append([name, None, '"', ' ', '=', expr])
    for name in i18n:
        if not any(e[0] is not None and e[0].lower() == name.lower() for e in entries):
            entries.append([name, name, '"', ' ', '=', None])
    return [tuple(e) for e in entries]


def main():
    repo, size = sys.argv[1], int(sys.argv[2])
    sys.path.insert(0, os.path.join(repo, 'src'))
    from chameleon.tal import prepare_attributes
    names = ['a', 'A', 'b']
    statics = []
    for n in range(size + 1):
        for combo in itertools.product(names + ['tal:x', 'xmlns:t'], repeat=n):
            statics.append(combo)
    dyns = []
    for n in range(size + 1):
        for combo in itertools.product(names + [None], repeat=n):
            # tal.parse_attributes rejects exact duplicates
            if len(set(combo)) == len(combo):
                dyns.append(combo)
    cases = distinct = 0
    bad = None
    for st in statics:
        attrs, keys = [], []
        for i, nm in enumerate(st):
            if nm == 'tal:x':
                keys.append((TAL, 'x'))
                val = 'v'
            elif nm == 'xmlns:t':
                keys.append((XMLNS, 't'))
                val = TAL
            else:
                keys.append((XML, nm))
                val = 'v%d' % i
            attrs.append({'name': nm, 'value': val, 'quote': "'" if i % 2 else '"',
                          'space': ' ' * (1 + i % 2), 'eq': '='})
        for dy in dyns:
            dyn = [(nm, 'e%d' % i) for i, nm in enumerate(dy)]
            for i18n in ((), ('b',), ('C',)):
                cases += 1
                want = spec(attrs, dyn, i18n, keys, DROP)
                try:
                    got = [tuple(x) for x in prepare_attributes(attrs, dyn, i18n, keys, DROP)]
                except Exception as e:  # noqa
                    got = 'raised %r' % (e,)
                distinct += 1
                if got != want and bad is None:
                    bad = {'static': [a['name'] for a in attrs], 'dynamic': [d[0] for d in dyn],
                           'i18n': list(i18n), 'expected': [list(map(str, w[:1] + w[5:])) for w in want],
                           'observed': got if isinstance(got, str) else
                           [list(map(str, g[:1] + g[5:])) for g in got]}
            if bad:
                break
        if bad:
            break
    print(json.dumps({'cases': cases, 'distinct': distinct, 'violation': bad,
                      'bound': 'all elements with <= %d static attributes over {a, A, b, tal:x, xmlns:t} '
                               'x all tal:attributes lists of <= %d distinct names over {a, A, b, dict} '
                               'x i18n names {(), b, C}' % (size, size)}))


if __name__ == '__main__':
    main()
