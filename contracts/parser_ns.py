"""Contracts for the namespace machinery of parser.py and zpt/program.py (C18)."""
from pyvc.vc import Contract
from pyvc.values import REC_FIELDS

CONTRACTS = []
ATTR = "dictrec[name:Token,value:Token,quote:Token,space:Token,eq:Token]"
NSMAP = "map[opt[str],str]"
EP = "parser.py::ElementParser"
REC_FIELDS[EP] = {"namespaces": "list[%s,2]" % NSMAP, "restricted_namespace": "bool",
                  "queue": "seq[any]", "index": "seq[any]"}


def C(*a, **k):
    c = Contract(*a, **k)
    CONTRACTS.append(c)
    return c


C("parser.py::parse_tag",
  params={"token": "Token", "namespace": NSMAP, "restricted_namespace": "bool"},
  modifies=["namespace"], result="dictrec[name:Token]", kind="assumed",
  raises={"KeyError": {}},
  notes="ASSUMED here (frame only): parse_tag may add xmlns declarations to the map it is given "
        "and to no other object")

# --- namespace stack discipline of ElementParser -------------------------------------------
C(EP + ".visit_empty_tag", params={"self": "rec[%s]" % EP, "kind": "str", "token": "Token"},
  ensures=[
      "len(self.namespaces) == len(old(self.namespaces))",
      # an element without children opens no scope: declarations on it must not reach siblings
      "same_map(self.namespaces[0], old(self.namespaces[0]))",
      "same_map(self.namespaces[1], old(self.namespaces[1]))",
  ],
  raises={"KeyError": {"ensures": ["same_map(self.namespaces[1], old(self.namespaces[1]))"]}},
  result="tuple[str,any]", serves=["C18"])

C(EP + ".visit_start_tag", params={"self": "rec[%s]" % EP, "kind": "str", "token": "Token"},
  models={"dict.get.default": "any"},
  ensures=[
      "len(self.namespaces) == len(old(self.namespaces)) + 1",
      # enclosing scopes are untouched; the new scope is a copy that parse_tag may extend
      "same_map(self.namespaces[0], old(self.namespaces[0]))",
      "same_map(self.namespaces[1], old(self.namespaces[1]))",
      "self.namespaces[2] is not self.namespaces[1]",
  ],
  raises={"KeyError": {}},
  result="any", serves=["C18"], kind="K1")

C(EP + ".__init__", params={"self": "rec[%s]" % EP, "stream": "any", "default_namespaces": NSMAP,
                            "restricted_namespace": "bool"},
  ensures=[
      # the root scope is the parser's OWN copy of the defaults: declarations met while parsing one
      # document must never be written into the (class-level, shared) table they start from
      "len(self.namespaces) == 1",
      "self.namespaces[0] is not default_namespaces",
      "same_map(self.namespaces[0], default_namespaces)",
      "same_map(default_namespaces, old(default_namespaces))",
      "self.restricted_namespace == restricted_namespace",
  ],
  result="none", serves=["C18", "C03", "C14"])
