"""Symbolic versions of the spec primitives (see spec/prim_concrete.py)."""
import z3

from .values import VBool, VStr, VToken, VAny, Val, TokenSort, truth, Unsupported


def p_text(I, args, kwargs, node):
    v = args[0]
    if isinstance(v, (VStr, VToken)):
        return VStr(v.t)
    if isinstance(v, VAny):
        return VStr(z3.If(Val.is_tok(v.t), TokenSort.s(Val.t(v.t)), Val.s(v.t)))
    from .values import VNone, VOpt
    if isinstance(v, VNone):
        return VStr('')   # callers guard with `x is None or ...`
    if isinstance(v, VOpt):
        return p_text(I, [v.val], kwargs, node)
    raise Unsupported('text(%r)' % (v,))


def p_implies(I, args, kwargs, node):
    return VBool(z3.Implies(truth(args[0]), truth(args[1])))


PRIMS = {'text': p_text, 'implies': p_implies}


from .values import VInt  # noqa: E402
from . import models as _m  # noqa: E402

_letters = z3.Function('spec_letters', z3.IntSort(), z3.IntSort(), z3.IntSort(), z3.StringSort())


def p_letters(I, args, kwargs, node):
    n, base, radix = [_m.as_int(a) for a in args]
    return VStr(_letters(n, base, radix))


def p_unfold_letters(I, args, kwargs, node):
    """defining equation of letters at n:
       letters(n) = (letters(n div radix) if n >= radix else '') ++ chr(base + n mod radix)"""
    n, base, radix = [_m.as_int(a) for a in args]
    rhs = z3.Concat(z3.If(n >= radix, _letters(_m.py_floordiv(n, radix), base, radix),
                          z3.StringVal('')),
                    z3.StrFromCode(base + _m.py_mod(n, radix)))
    return VBool(z3.Implies(z3.And(n >= 0, radix >= 2), _letters(n, base, radix) == rhs))


PRIMS.update({'letters': p_letters, 'unfold_letters': p_unfold_letters})


def p_remaining(I, args, kwargs, node):
    return args[0].fields['remaining']


PRIMS['remaining'] = p_remaining


def p_dec(I, args, kwargs, node):
    """spec: dec(encoding, data) = data.decode(encoding)"""
    enc, data = args
    from .values import VOpt
    if isinstance(data, VOpt):
        data = data.val        # spec-side: the group is known to take part where this is used
    if _m.is_concrete(enc):
        _m.decode_axioms(I, _m.concretise(enc), data.t)
    return VStr(_m.f_decode(_m.strterm(enc), data.t))


PRIMS['dec'] = p_dec


def p_called(I, args, kwargs, node):
    """called('name'): how many times the contracted callee `name` was invoked on this path"""
    nm = _m.concretise(args[0])
    return VInt(len([1 for n, _ in I.ghost.get('calls', []) if n == nm or n.endswith('.' + nm)]))


def p_call_arg(I, args, kwargs, node):
    """call_arg('name', k, 'param'): argument of the k-th call of callee `name`"""
    nm, k, prm = [_m.concretise(a) for a in args]
    cs = [b for n, b in I.ghost.get('calls', []) if n == nm or n.endswith('.' + nm)]
    if k < len(cs):
        return cs[k][prm]
    from .values import fresh, parse_ty
    for c in I.vc.reg.contracts.values():
        if c.short == nm or c.short.endswith('.' + nm):
            return fresh(parse_ty(c.params[prm]), 'no_such_call')
    raise Unsupported('call_arg: unknown callee %s' % nm)


PRIMS['called'] = p_called
PRIMS['call_arg'] = p_call_arg


def p_call_result(I, args, kwargs, node):
    """call_result('name', k): result of the k-th normal return of callee `name` (arbitrary if
    there was no such call -- guard with called())"""
    nm, k = [_m.concretise(a) for a in args]
    rs = [r for n, r in I.ghost.get('results', []) if n == nm or n.endswith('.' + nm)]
    if k < len(rs):
        return rs[k]
    return VInt(z3.Int('no_such_call_%s_%d' % (nm, k)))


PRIMS['call_result'] = p_call_result


def p_split_offset(I, args, kwargs, node):
    """split_offset(parts, i): offset of the i-th part of a str.split result in the subject"""
    return VInt(args[0].split_off(_m.as_int(args[1])))


def p_split_part(I, args, kwargs, node):
    return VStr(args[0].split_parts[_m.as_int(args[1])])


def p_is_token(I, args, kwargs, node):
    v = args[0]
    if isinstance(v, VToken):
        return VBool(True)
    if isinstance(v, VAny):
        return VBool(Val.is_tok(v.t))
    return VBool(False)


PRIMS.update({'split_offset': p_split_offset, 'split_part': p_split_part, 'is_token': p_is_token})


def p_split_facts(I, args, kwargs, node):
    """split_facts(parts, i): the trusted str.split model's facts about part i (always true)"""
    return VBool(args[0].split_facts(_m.as_int(args[1])))


PRIMS['split_facts'] = p_split_facts


def p_substr_lemma(I, args, kwargs, node):
    """SUBSTR-TRANS (theorem of the theory of strings, used as a proof hint):
       0<=p, 0<=lo, 0<=ln, lo+ln<=n, p+n<=len(base)  ==>
       base[p:p+n][lo:lo+ln] == base[p+lo : p+lo+ln]"""
    base = _m.strterm(args[0])
    p, n, lo, ln = [_m.as_int(a) for a in args[1:5]]
    return VBool(z3.Implies(
        z3.And(p >= 0, lo >= 0, ln >= 0, lo + ln <= n, p + n <= z3.Length(base)),
        z3.SubString(z3.SubString(base, p, n), lo, ln) == z3.SubString(base, p + lo, ln)))


PRIMS['substr_lemma'] = p_substr_lemma


from .values import VTuple, VDict  # noqa: E402


def _no_such(what):
    """placeholder for an observation of a call that did not happen on this path (the clause that
    mentions it is guarded by the call's presence); an arbitrary value of the universal type"""
    from .values import VAny, Val
    return VAny(z3.Const('no_such_ext_' + what, Val))


def p_ext_names(I, args, kwargs, node):
    """names of the external calls made on this path, in order"""
    return VTuple([VStr(r['name']) for r in I.ghost.get('ext_trace', [])])


def p_ext_index(I, args, kwargs, node):
    nm = _m.concretise(args[0])
    k = _m.concretise(args[1]) if len(args) > 1 else 0
    idx = [i for i, r in enumerate(I.ghost.get('ext_trace', [])) if r['name'] == nm]
    return VInt(idx[k] if k < len(idx) else -1)


def p_ext_raised_in(I, args, kwargs, node):
    nm = _m.concretise(args[0])
    return VBool(any(r['name'] == nm and r['raised'] for r in I.ghost.get('ext_trace', [])))


def p_ext_call_arg(I, args, kwargs, node):
    nm, k, j = [_m.concretise(a) for a in args]
    rs = [r for r in I.ghost.get('ext_trace', []) if r['name'] == nm]
    if k < len(rs) and j < len(rs[k]['args']):
        return rs[k]['args'][j]
    return _no_such('arg')


def p_ext_call_kwarg(I, args, kwargs, node):
    """keyword argument `kw` of the k-th external call `name` (None if it was not passed)"""
    from .values import NONE
    nm, k, kw = [_m.concretise(a) for a in args]
    rs = [r for r in I.ghost.get('ext_trace', []) if r['name'] == nm]
    if k < len(rs):
        kws = rs[k]['kwargs']
        if kw not in kws and kw != '**' and isinstance(kws.get('**'), VDict):
            # passed through a `**mapping` whose entries are known
            return kws['**'].items.get(kw, NONE)
        return kws.get(kw, NONE)
    return _no_such('call')


def p_ext_call_nkwargs(I, args, kwargs, node):
    """number of keyword arguments of the k-th external call `name`"""
    nm, k = [_m.concretise(a) for a in args]
    rs = [r for r in I.ghost.get('ext_trace', []) if r['name'] == nm]
    return VInt(len(rs[k]['kwargs']) if k < len(rs) else -1)


PRIMS['ext_call_kwarg'] = p_ext_call_kwarg
PRIMS['ext_call_nkwargs'] = p_ext_call_nkwargs


def p_ext_call_result(I, args, kwargs, node):
    nm, k = [_m.concretise(a) for a in args]
    rs = [r for r in I.ghost.get('ext_trace', []) if r['name'] == nm and 'result' in r]
    return rs[k]['result'] if k < len(rs) else _no_such('result')


def p_ext_snapshot(I, args, kwargs, node):
    """value an expression of the caller's state had when the k-th external call `name` was made"""
    nm, k, x = [_m.concretise(a) for a in args]
    rs = [r for r in I.ghost.get('ext_trace', []) if r['name'] == nm]
    if k < len(rs) and x in rs[k].get('snapshot', {}):
        return rs[k]['snapshot'][x]
    return _no_such('snapshot')


PRIMS['ext_snapshot'] = p_ext_snapshot
PRIMS.update({'ext_names': p_ext_names, 'ext_index': p_ext_index, 'ext_raised_in': p_ext_raised_in,
              'ext_call_arg': p_ext_call_arg, 'ext_call_result': p_ext_call_result})


def p_complete_at_rename(I, args, kwargs, node):
    """the temporary file has been closed (all bytes written) when it is renamed to the final
    name -- concretely observed by bounded/loader_harness.py at the moment of the rename"""
    tr = [r['name'] for r in I.ghost.get('ext_trace', [])]
    if 'rename' not in tr:
        return VBool(True)
    return VBool('close' in tr and tr.index('close') < tr.index('rename'))


PRIMS['complete_at_rename'] = p_complete_at_rename


def p_same_map(I, args, kwargs, node):
    """two dict values have the same keys and the same value for every key"""
    a, b = args
    k = z3.Const('k!same_map', a.has.sort().domain())
    return VBool(z3.ForAll([k], z3.And(z3.Select(a.has, k) == z3.Select(b.has, k),
                                        z3.Implies(z3.Select(a.has, k),
                                                   z3.Select(a.val, k) == z3.Select(b.val, k)))))


PRIMS['same_map'] = p_same_map


from .values import sort_of, ty_of, unwrap, wrap, parse_ty  # noqa: E402


def p_env(I, args, kwargs, node):
    """env('exists', 'bool', path): the environment observation function of an external declared
    with function=True"""
    short, rty = _m.concretise(args[0]), parse_ty(_m.concretise(args[1]))
    a = args[2:]
    f = z3.Function('env_' + short, *([z3.StringSort() if isinstance(x, (VStr, VToken)) else sort_of(ty_of(x))
                                       for x in a] + [sort_of(rty)]))
    return wrap(rty, f(*[x.t if isinstance(x, (VStr, VToken)) else unwrap(ty_of(x), x) for x in a]))


PRIMS['env'] = p_env


def p_loop_index(I, args, kwargs, node):
    """loop_index(k): iteration index at which loop #k was left (break), or its length"""
    k = _m.concretise(args[0])
    d = I.ghost.get('loop_left_at', {})
    return VInt(d[k]) if k in d else VInt(z3.Int('loop_%d_not_run' % k))


PRIMS['loop_index'] = p_loop_index


def p_at_loop(I, args, kwargs, node):
    """at_loop(k, 'name'): value of a local when loop #k was entered"""
    k, nm = _m.concretise(args[0]), _m.concretise(args[1])
    env = I.ghost.get('loop_entry', {}).get(k)
    if env is None or nm not in env:
        return VStr(z3.String('loop_%d_not_entered_%s' % (k, nm)))
    return env[nm]


PRIMS['at_loop'] = p_at_loop


from .values import VList  # noqa: E402


def p_yielded(I, args, kwargs, node):
    """the values the generator under verification has yielded on this path, in order"""
    return VList(list(I.ghost.get('yielded', [])))


PRIMS['yielded'] = p_yielded


def _pat(I, name):
    from .vc import real_module
    mod = real_module(I.vc.c.file)
    return getattr(mod, _m.concretise(name))


def p_re_nomatch(I, args, kwargs, node):
    """re_nomatch('PATTERN_GLOBAL', how, s): pattern.<how>(s) is None"""
    pat = _pat(I, args[0])
    how = _m.concretise(args[1])
    nomatch, _, _, _ = _m.match_functions(pat, how)
    return VBool(nomatch(_m.strterm(args[2])))


def p_re_group(I, args, kwargs, node):
    """re_group('PATTERN_GLOBAL', how, s, k): group k of pattern.<how>(s) (None if it did not take part)"""
    pat = _pat(I, args[0])
    how = _m.concretise(args[1])
    s = _m.strterm(args[2])
    m = _m.new_match(I, s, pat, how)
    from .values import VOpt
    g = z3.IntVal(_m.concretise(args[3]))
    return _m.match_group_value(m, g)


def p_re_pos(which):
    def prim(I, args, kwargs, node):
        """re_start / re_end('PATTERN_GLOBAL', how, s, k): span of group k of pattern.<how>(s)"""
        pat = _pat(I, args[0])
        how = _m.concretise(args[1])
        m = _m.new_match(I, _m.strterm(args[2]), pat, how)
        g = z3.IntVal(_m.concretise(args[3]))
        return VInt((m.start if which == 'start' else m.end)(g))
    return prim


PRIMS.update({'re_start': p_re_pos('start'), 're_end': p_re_pos('end')})


def p_ascii_ignore(I, args, kwargs, node):
    f = z3.Function('bytes_decode_ignore', z3.StringSort(), z3.StringSort(), z3.StringSort())
    return VStr(f(z3.StringVal('ascii'), args[0].t))


PRIMS.update({'re_nomatch': p_re_nomatch, 're_group': p_re_group, 'ascii_ignore': p_ascii_ignore})


def _ext_exc(I, name):
    for r in I.ghost.get('ext_trace', []):
        if r['name'] == name and r.get('exc') is not None:
            return r['exc']
    return None


def p_raised_by(I, args, kwargs, node):
    """the exception object the named external call raised on this path"""
    e = _ext_exc(I, _m.concretise(args[0]))
    if e is None:
        from .values import VExc
        return VExc(ValueError, [])
    return e


def p_raised_is_exception(I, args, kwargs, node):
    e = _ext_exc(I, _m.concretise(args[0]))
    if e is None:
        return VBool(True)
    return VBool(_m.sym_exc_isinstance(e, [Exception]))


def p_raised_is(I, args, kwargs, node):
    import builtins
    e = _ext_exc(I, _m.concretise(args[0]))
    if e is None:
        return VBool(False)
    return VBool(_m.sym_exc_isinstance(e, [getattr(builtins, _m.concretise(args[1]))]))


PRIMS.update({'raised_by': p_raised_by, 'raised_is_exception': p_raised_is_exception,
              'raised_is': p_raised_is})


def p_scope_marker(I, args, kwargs, node):
    from .vc import real_module
    from .values import VConc
    return VConc(real_module('utils.py').marker)


PRIMS['scope_marker'] = p_scope_marker


# ---------------------------------------------------------------------------------------
# chains of events on opaque objects (utils._resolve_dotted)
# ---------------------------------------------------------------------------------------
def p_ext_last_ok(I, args, kwargs, node):
    """result of the LAST call `name` that returned (did not raise)"""
    nm = _m.concretise(args[0])
    rs = [r for r in I.ghost.get('ext_trace', []) if r['name'] == nm and 'result' in r and not r['raised']]
    return rs[-1]['result'] if rs else _no_such('result')


def p_ext_ok_args(I, args, kwargs, node):
    """tuple of the j-th arguments of the calls `name` that returned, in order"""
    nm, j = [_m.concretise(a) for a in args]
    return VTuple([r['args'][j] for r in I.ghost.get('ext_trace', [])
                   if r['name'] == nm and not r['raised'] and j < len(r['args'])])


def p_ext_chain(I, args, kwargs, node):
    """ext_chain('getattr', 'import'): every call `getattr` is made on the object found so far --
    the result of the first call `import`, then the result of each `getattr` that returned"""
    from .values import ident
    step, start = [_m.concretise(a) for a in args]
    cur, conj = None, []
    for r in I.ghost.get('ext_trace', []):
        if r['name'] == start and cur is None and not r['raised']:
            cur = r['result']
        elif r['name'] == step:
            if cur is None:
                return VBool(False)
            conj.append(ident(r['args'][0], cur))
            if not r['raised']:
                cur = r['result']
    return VBool(z3.And(conj) if conj else z3.BoolVal(True))


PRIMS.update({'ext_last_ok': p_ext_last_ok, 'ext_ok_args': p_ext_ok_args, 'ext_chain': p_ext_chain})


# ---------------------------------------------------------------------------------------
# per-iteration (`step`) contracts of abstracted loops
# ---------------------------------------------------------------------------------------
def p_iter_item(I, args, kwargs, node):
    """iter_item(j): the j-th component of the loop target in the iteration under its step contract"""
    return I.ghost['iter_items'][_m.concretise(args[0])]


def p_iter_old(I, args, kwargs, node):
    """iter_old('name'): the value a local variable had when that iteration started"""
    return I.ghost['iter_env0'][_m.concretise(args[0])]


PRIMS.update({'iter_item': p_iter_item, 'iter_old': p_iter_old})
