#!/usr/bin/env python3
"""tools/seed.py confirm <Cnn> [srcdir]  -- confirm a seeded breaking change produced by a
sub-agent (patch.diff + demo.py in /tmp/seed-<Cnn>), store it under /verif/seeded/<id>/ and run
the property's check against it.   tools/seed.py run <id>  -- re-run the checks against a stored seed."""
import json
import os
import shutil
import subprocess
import sys
import tempfile

VERIF = os.path.dirname(os.path.dirname(os.path.abspath(__file__)))


def sh(cmd, **kw):
    return subprocess.run(cmd, shell=True, capture_output=True, text=True, **kw)


def scratch_tree(patch):
    d = tempfile.mkdtemp(prefix='seedwt-')
    wt = os.path.join(d, 'wt')
    r = sh('git -C /repo worktree add -q --detach %s HEAD' % wt)
    if r.returncode:
        raise SystemExit(r.stderr)
    r = sh('git -C %s apply %s' % (wt, patch))
    return d, wt, r


def drop_tree(d, wt):
    sh('git -C /repo worktree remove --force %s' % wt)
    shutil.rmtree(d, ignore_errors=True)


def checks_for(pid, wt, props):
    out = {}
    for p in props:
        env = dict(os.environ, VERIF_REPO=wt, VERIF_NO_EVIDENCE='1')
        r = subprocess.run([os.path.join(VERIF, 'check'), p], capture_output=True, text=True, env=env)
        lines = [l for l in r.stdout.split('\n') if l.startswith(('VIOLATION', 'UNDECIDED', 'CHECKER', 'KNOWN'))]
        out[p] = {'exit': r.returncode, 'lines': [l[:400] for l in lines[:6]]}
    return out


def confirm(pid, src=None, name=None):
    src = src or '/tmp/seed-%s' % pid
    if src.isdigit():
        src, name = '/tmp/seed%s-%s' % (src, pid), '%s-r%s' % (pid, src)
    name = name or pid
    patch = os.path.join(src, 'patch.diff')
    demo = os.path.join(src, 'demo.py')
    d, wt, r = scratch_tree(patch)
    meta = {'property': pid, 'source': 'independent sub-agent given only the property text'}
    try:
        if r.returncode:
            print('patch does not apply to current /repo HEAD:', r.stderr[:500])
            meta['applies'] = False
            return 1
        t = sh('cd %s && PYTHONPATH=%s/src /venv/bin/python -m pytest -q -p no:cacheprovider '
               '--timeout=900 src/chameleon/tests 2>&1 | tail -1' % (wt, wt))
        meta['tests_with_change'] = t.stdout.strip()
        a = sh('CHAMELEON_SRC=%s/src /venv/bin/python %s' % (wt, demo))
        b = sh('CHAMELEON_SRC=/repo/src /venv/bin/python %s' % demo)
        meta['demo_with_change'] = {'exit': a.returncode, 'tail': a.stdout[-300:]}
        meta['demo_without_change'] = {'exit': b.returncode, 'tail': b.stdout[-200:]}
        ok = ('233 passed' in t.stdout) and a.returncode == 1 and b.returncode == 0
        meta['confirmed'] = ok
        print(json.dumps(meta, indent=1))
        if not ok:
            return 1
        import props
        claimed = [p for p in props.PROPS]
        targets = [pid] if pid in claimed else []
        meta['checks'] = checks_for(pid, wt, targets)
        print(json.dumps(meta['checks'], indent=1))
        dst = os.path.join(VERIF, 'seeded', name)
        os.makedirs(dst, exist_ok=True)
        shutil.copy(patch, os.path.join(dst, 'patch.diff'))
        shutil.copy(demo, os.path.join(dst, 'demo.py'))
        notes = os.path.join(src, 'NOTES.md')
        if os.path.exists(notes):
            shutil.copy(notes, os.path.join(dst, 'NOTES.md'))
        meta['what_i_ran'] = ['git worktree add (scratch) ; git apply patch.diff',
                              'pytest src/chameleon/tests in the worktree (233 passed)',
                              'demo.py with CHAMELEON_SRC=<worktree>/src (exit 1) and =/repo/src (exit 0)',
                              'VERIF_REPO=<worktree> ./check <property>']
        json.dump(meta, open(os.path.join(dst, 'meta.json'), 'w'), indent=1)
        return 0
    finally:
        drop_tree(d, wt)


def run(name, props_=None):
    dst = os.path.join(VERIF, 'seeded', name)
    meta = json.load(open(os.path.join(dst, 'meta.json')))
    d, wt, r = scratch_tree(os.path.join(dst, 'patch.diff'))
    try:
        if r.returncode:
            print('patch no longer applies:', r.stderr[:300])
            return 1
        res = checks_for(meta['property'], wt, props_ or [meta['property']])
        print(json.dumps(res, indent=1))
        meta['checks'] = dict(meta.get('checks', {}), **res)
        json.dump(meta, open(os.path.join(dst, 'meta.json'), 'w'), indent=1)
        return 0
    finally:
        drop_tree(d, wt)


def run_one(name):
    dst = os.path.join(VERIF, 'seeded', name)
    meta = json.load(open(os.path.join(dst, 'meta.json')))
    d, wt, r = scratch_tree(os.path.join(dst, 'patch.diff'))
    try:
        if r.returncode:
            return name, None, 'patch no longer applies'
        res = checks_for(meta['property'], wt, [meta['property']])
        e = res[meta['property']]
        meta['checks'] = dict(meta.get('checks', {}), **res)
        json.dump(meta, open(os.path.join(dst, 'meta.json'), 'w'), indent=1)
        if meta.get('superseded'):
            # no longer a breaking change on the current tree (see meta.json): the check must be quiet
            return name, (1 if e['exit'] == 0 else 0), 'superseded (harmless now): check exit=%d' % e['exit']
        return name, e['exit'], (e['lines'] or [''])[0][:150]
    finally:
        drop_tree(d, wt)


def runall(jobs=3):
    """every stored seed against its property's check (a few at a time: each check is parallel itself)"""
    from concurrent.futures import ThreadPoolExecutor
    names = [n for n in sorted(os.listdir(os.path.join(VERIF, 'seeded')))
             if os.path.exists(os.path.join(VERIF, 'seeded', n, 'meta.json'))]
    bad = 0
    with ThreadPoolExecutor(jobs) as ex:
        for name, code, first in ex.map(run_one, names):
            print('%-8s exit=%s %s' % (name, code, first), flush=True)
            bad += code != 1
    print('seeds not detected:', bad, 'of', len(names), flush=True)
    return 1 if bad else 0


if __name__ == '__main__':
    sys.path.insert(0, VERIF)
    if sys.argv[1] == 'runall':
        sys.exit(runall())
    if sys.argv[1] == 'confirm':
        sys.exit(confirm(*sys.argv[2:]))
    else:
        sys.exit(run(sys.argv[2], sys.argv[3:] or None))
