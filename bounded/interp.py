"""B-INTERP (bounded stand-in, never counted as proved): the ${...} delimiter search and $$
handling of compiler.Interpolator, checked through text-mode templates against an independent
left-to-right specification.

Spec (from the property and Interpolator's docstring): scanning left to right, `$$` is a literal
`$`; `${` starts an expression that extends to the LONGEST following `}` for which the enclosed
text is a valid Python expression (shrinking until one is valid); anything else is literal.

usage: interp.py <repo> <maxlen> <procs> -> one JSON line.  Runs under /venv/bin/python."""
import itertools
import json
import os
import sys
from multiprocessing import Pool

ALPHABET = ['$', '{', '}', 'a', '\n', ' ', "'"]
ENV = {'a': 7}


def valid(expr):
    s = expr.strip().replace('\n', ' ')
    if not s:
        return False
    try:
        compile(s, '<e>', 'eval')
        return True
    except SyntaxError:
        return False
    except ValueError:
        return False


def spec_render(s):
    """-> ('ok', text) | ('raise', exception class name) | ('reject',)"""
    out = []
    i = 0
    n = len(s)
    while i < n:
        if s.startswith('$$', i):
            out.append('$')
            i += 2
            continue
        if s.startswith('${', i):
            closes = [j for j in range(i + 2, n) if s[j] == '}']
            done = False
            for j in reversed(closes):
                e = s[i + 2:j]
                if valid(e):
                    try:
                        v = eval(e.strip().replace('\n', ' '), {'__builtins__': {}}, dict(ENV))
                    except Exception as ex:  # noqa
                        return ('raise', type(ex).__name__)
                    out.append('' if v is None else str(v))
                    i = j + 1
                    done = True
                    break
            if done:
                continue
            if closes:
                return ('reject',)      # ${...} with no valid expression: a template error
        out.append(s[i])
        i += 1
    return ('ok', ''.join(out))


def real_render(s):
    from chameleon import PageTextTemplate
    from chameleon.exc import TemplateError
    try:
        t = PageTextTemplate(s)
    except TemplateError:
        return ('reject',)
    except Exception as e:  # noqa
        return ('crash', repr(e))
    try:
        return ('ok', t(**ENV))
    except Exception as e:  # noqa
        return ('raise', type(e).__mro__[1].__name__ if type(e).__name__ == type(e).__mro__[1].__name__
                else type(e).__mro__[1].__name__)


def work(chunk):
    bad = None
    n = dist = 0
    for s in chunk:
        n += 1
        if '${' not in s and '$$' not in s:
            continue
        dist += 1
        want = spec_render(s)
        got = real_render(s)
        if want[0] == 'reject':
            # ${...} around no valid expression: what happens then is C11's business.  The converse
            # is not: a template whose every ${...} has a valid extent must not be rejected
            continue
        if want[0] == 'raise' and got[0] == 'raise':
            continue
        if want != got and bad is None:
            bad = {'template': s, 'expected': want, 'observed': got}
    return n, dist, bad


def main():
    repo, maxlen, procs = sys.argv[1], int(sys.argv[2]), int(sys.argv[3])
    sys.path.insert(0, os.path.join(repo, 'src'))
    for k in list(os.environ):
        if k.upper().startswith('CHAMELEON_'):
            del os.environ[k]
    strings = []
    for n in range(2, maxlen + 1):
        for t in itertools.product(ALPHABET, repeat=n):
            strings.append(''.join(t))
    chunks = [strings[i::procs * 4] for i in range(procs * 4)]
    with Pool(procs) as pool:
        res = pool.map(work, chunks)
    cases = sum(r[0] for r in res)
    dist = sum(r[1] for r in res)
    bads = [r[2] for r in res if r[2]]
    bads.sort(key=lambda b: (len(b['template']), b['template']))
    print(json.dumps({'cases': cases, 'distinct': dist, 'violation': bads[0] if bads else None,
                      'bound': 'all text templates over %r of length 2..%d, binding a=7' % (ALPHABET, maxlen)}))


if __name__ == '__main__':
    main()
