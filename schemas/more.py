"""Further K3 schemas: switch/case (C01, C04), <!--? comments (C06), on-error combined with
other statements (C13, C05), reserved names (C05, C11)."""
from pyvc.k3 import hole, schema_contracts

H1, H2 = hole(1), hole(2)

SPECS = [
    dict(id='S-Switch',
         text='A<s tal:switch="e5"><i tal:case="e6">%s</i><j tal:case="default">%s</j></s>B' % (H1, H2),
         ensures=[
             # every expression is evaluated exactly once per reach
             "evals(5) == 1", "evals(6) == 1",
             # the first matching case renders, later ones (including default) do not
             "holes(1) + holes(2) == 1",
             "trace('e5', 'e6', 'h1') or trace('e5', 'e6', 'h2')",
         ],
         raises={'*': {'ensures': ["raised('e5') or raised('e6') or raised('h1') or raised('h2')"]}},
         serves=['C01', 'C04'], no_fresh=True),
    dict(id='S-Switch-nested',
         # a tal:case belongs to the NEAREST enclosing tal:switch
         text='A<s tal:switch="e5"><i tal:case="e6"><t tal:switch="e1"><u tal:case="e2">%s</u></t></i></s>B' % H1,
         ensures=[
             "evals(5) == 1", "evals(6) == 1",
             "(evals(1) == 1) == bool(val(6) == val(5) or val(6) == DEFAULT())",
             "evals(2) == evals(1)",
             "evals(1) == 0 or holes(1) == (1 if bool(val(2) == val(1) or val(2) == DEFAULT()) else 0)",
             "evals(1) == 1 or holes(1) == 0",
         ],
         raises={'*': {'ensures': ["raised('e5') or raised('e6') or raised('e1') or raised('e2') or raised('h1')"]}},
         serves=['C01', 'C04'], no_fresh=True),
    dict(id='S-Case-OnError',
         # a case that has been selected stays selected when its body fails and the failure is handled:
         # no later case of the switch is looked at
         text='A<s tal:switch="e5"><i tal:case="e6" tal:on-error="e11">%s</i><j tal:case="e2">y</j></s>B' % H1,
         own_names=['error'],
         ensures=[
             "evals(5) == 1", "evals(6) == 1",
             # (a failure of the case expression itself is handled by the same on-error: nothing selected)
             "raised('e6') or (holes(1) == 1) == bool(val(6) == val(5) or val(6) == DEFAULT())",
             "holes(1) == 0 or evals(2) == 0",
             "raised('e6') or holes(1) == 1 or evals(2) == 1",
         ],
         raises={'*': {'ensures': ["raised('e5') or raised('e6') or raised('e2') or raised('e11') or "
                                   "(raised('h1') and not exc_is_exception())"]}},
         serves=['C04', 'C13', 'C01'], no_fresh=True),
    dict(id='S-Case-Condition',
         # a case element that also carries a guard: the case expression decides whether the
         # element is the selected one, the guard whether the selected element is rendered
         text='A<s tal:switch="e5"><i tal:case="e6" tal:condition="e3">%s</i><j tal:case="e2">%s</j></s>B'
              % (H1, H2),
         ensures=[
             "evals(5) == 1",
             "evals(6) == 1",
             # selected <=> the case value equals the switch value (or is `default`)
             "(evals(3) == 1) == bool(val(6) == val(5) or val(6) == DEFAULT())",
             "evals(3) == 0 or holes(1) == (1 if bool(val(3)) else 0)",
             # once a case has been selected no later case is looked at (here: the same expression
             # a second time), and the second element is rendered only if the first was not selected
             "evals(3) == 0 or (evals(2) == 0 and holes(2) == 0)",
             "evals(3) == 1 or evals(2) == 1",
             "evals(3) == 1 or holes(1) == 0",
         ],
         raises={'*': {'ensures': ["raised('e5') or raised('e6') or raised('e3') or raised('e2') or "
                                   "raised('h1') or raised('h2')"]}},
         serves=['C01', 'C04'], no_fresh=True),
    dict(id='S-Comment-noninterp', text='A<!--?<b>${e1}</b>-->B',
         ensures=["evals(1) == 0",
                  # <!--? switches interpolation off for this comment; the text is emitted as
                  # written (the marker character itself is dropped)
                  "S() == S0() + 'A<!--<b>${e1}</b>-->B'"],
         serves=['C06']),
    dict(id='S-Comment-drop', text='A<!--! ${e1} -->B',
         ensures=["evals(1) == 0", "S() == S0() + 'AB'"], serves=['C06', 'C03']),
    dict(id='S-Comment-interp', text='A<!-- x${e1}y -->B',
         ensures=["evals(1) == 1",
                  "S() == S0() + 'A<!-- x' + ('' if quoted(val(1), '\\0', '&#0;', None, None) is None "
                  "else piece(quoted(val(1), '\\0', '&#0;', None, None))) + 'y -->B'"],
         raises={'*': {'ensures': ["raised('e1')"]}}, serves=['C06', 'C02']),
    dict(id='S-Comment-dollar-name',
         # "every other character, including lone '$' ... is left unchanged": in a comment (and a CDATA
         # section) only ${...} interpolates -- `$name` is ordinary text there
         text='A<!-- $x y$z ${e1} --><![CDATA[$w ${e2}]]>B',
         ensures=["trace('e1', 'e2')",
                  "S().startswith(S0() + 'A<!-- $x y$z ')", "S().endswith(']]>B')",
                  "' --><![CDATA[$w ' in S()"],
         raises={'*': {'ensures': ["raised('e1') or raised('e2') or ext_count() > 0 or translate_calls() > 0"]}},
         serves=['C06']),
    dict(id='S-OnError-dict-attributes',
         text='A<div class="c" tal:on-error="e11" tal:attributes="e9">%s</div>B' % H1,
         static_only=True,   # the emitted dict-attribute loop is outside the executor's reach
         serves=['C13', 'C07'], no_fresh=True),
    dict(id='S-Repeat-reserved', text='A<i tal:repeat="__x e1">x</i>B',
         expect_error={'class': 'TranslationError', 'token': '__x'}, serves=['C05', 'C11']),
    dict(id='S-Define-reserved', text='A<i tal:define="__x e1">x</i>B',
         expect_error={'class': 'TranslationError', 'token': '__x'}, serves=['C05', 'C11']),
    dict(id='S-Define-econtext', text='A<i tal:define="econtext e1">x</i>B',
         expect_error={'class': 'TranslationError', 'token': 'econtext'}, serves=['C05', 'C11']),
    # the names of a parenthesised multi-name clause are parts of the source too: a reserved one among
    # them is reported at its own position (first, middle, last; define and repeat)
    dict(id='S-Define-tuple-reserved', text='A<i tal:define="(a, __x) e1">x</i>B',
         expect_error={'class': 'TranslationError', 'token': '__x'}, serves=['C05', 'C11']),
    dict(id='S-Define-tuple-reserved-first', text='A<i tal:define="b e2; (rcontext,a) e1">x</i>B',
         expect_error={'class': 'TranslationError', 'token': 'rcontext'}, serves=['C05', 'C11']),
    dict(id='S-Repeat-tuple-reserved', text='A<i tal:repeat="(a, econtext, b) e1">x</i>B',
         expect_error={'class': 'TranslationError', 'token': 'econtext'}, serves=['C05', 'C11']),
    # the clauses of a statement are parts of the source: an error in a LATER clause is reported at its
    # own position also when an earlier clause contains an escaped semicolon (';;')
    dict(id='S-Define-reserved-after-escape', text='A<i tal:define="a \'x;;y\'; __x e1">x</i>B',
         expect_error={'class': 'TranslationError', 'token': '__x'}, serves=['C11']),
    # an invalid ${...} is reported with the expression as written, also when the text goes on with
    # further braces (the delimiter search tries longer candidates first; the error that counts is the
    # one for the expression itself)
    dict(id='S-Interp-invalid-then-interp', text='A<p>a ${1 +} and ${e2} b</p>B',
         expect_error={'class': 'ExpressionError', 'token': '1 +'}, serves=['C11', 'C06']),
    dict(id='S-Interp-invalid-then-brace', text='A<p title="x ${1 +}px } y">t</p>B',
         expect_error={'class': 'ExpressionError', 'token': '1 +'}, serves=['C11', 'C06']),
    dict(id='S-Interp-invalid-last', text='A<p>${e2} and ${1 +}</p>B',
         expect_error={'class': 'ExpressionError', 'token': '1 +'}, serves=['C11', 'C06']),
    dict(id='S-Attributes-invalid-after-escape', text='A<i tal:attributes="a \'x;;;;y\'; b 1 +">x</i>B',
         expect_error={'class': 'ExpressionError', 'token': '1 +'}, serves=['C11']),
    # ... or a character reference (statement values are decoded as a whole before they are parsed,
    # which moves everything behind the reference: known finding D26)
    dict(id='S-Define-reserved-after-entity', text='A<i tal:define="a \'x&amp;y\'; __x e1">x</i>B',
         expect_error={'class': 'TranslationError', 'token': '__x'}, serves=['C11']),
    # ... also in a `global` clause (which takes another path through the code generator)
    dict(id='S-Define-global-reserved', text='A<i tal:define="b e2; global __x e1">x</i>B',
         expect_error={'class': 'TranslationError', 'token': '__x'}, serves=['C05', 'C11']),
    dict(id='S-Define-global-tuple-reserved', text='A<i tal:define="global (a, rcontext) e1">x</i>B',
         expect_error={'class': 'TranslationError', 'token': 'rcontext'}, serves=['C05', 'C11']),
    dict(id='S-OnError-Define',
         text='A<div tal:on-error="e11"><p tal:define="a e1">%s</p></div>B' % H1,
         own_names=['a', 'error'],
         ensures=[
             # also after a recovered failure the local definition has ended with its element
             "visible('a') is visible0('a')",
         ],
         raises={'*': {'ensures': ["True"]}},
         serves=['C05', 'C13'], no_fresh=True),
    dict(id='S-GlobalInLocal',
         text='A<div tal:define="x e1"><span tal:define="global x e2">%s</span></div>B' % H1,
         own_names=['x'],
         ensures=[
             # the global definition persists after both elements have ended
             "visible('x') is val(2)", "global_now('x') is val(2)",
         ],
         raises={'*': {'ensures': ["True"]}},
         serves=['C05'], no_fresh=True),
]

CONTRACTS = schema_contracts(SPECS)
