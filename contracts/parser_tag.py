"""parser.match_tag (C11): "compiling it raises an exception derived from TemplateError" -- a tag
token the dissecting pattern does not match must be rejected as a ParseError, never crash.

PARTIAL contract: only the first two statements of the body (the match and the dissection of the
tag head, with the helper `groupdict` inlined) are under contract; the attribute loop that follows
is covered by REGEX-STRUCT (tiling) and the bounded stand-in B-VERBATIM."""
from pyvc.vc import Contract

CONTRACTS = [Contract(
    "parser.py::match_tag", params={"token": "Token"},
    inline=["groupdict"],
    # the tokens parser.identify() classifies as end / empty / start tags
    requires=["token.startswith('<')", "token.startswith('</') or token.endswith('>')",
              "not token.startswith('<!') and not token.startswith('<?')"],
    ensures=[],
    # whatever the token looks like, the only exception the tag head dissection may raise is the
    # template error (no AttributeError / TypeError / KeyError from a failed match)
    raises={"ParseError": {"ensures": ["re_nomatch('match_tag_prefix_and_name', 'match', token)"]}},
    ghost={'prefix_stmts': 3, 'harness': ('bounded.tag_harness', 'match_tag'),
           'search': {'generator': ('bounded.tag_harness', 'gen_tag_tokens')}},
    serves=["C11", "C03"],
    notes="PARTIAL: statements 1-3 of the body (match, rejection, head dissection)")]
