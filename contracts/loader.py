"""Contracts for loader.py (C15, C16).  The file system and the lock are external: calls are
recorded in a ghost trace and the contract constrains the trace (every crash point is a prefix
of it; POSIX axioms -- rename is atomic, mkstemp names are unique -- are assumptions)."""
from pyvc.vc import Contract
from pyvc.values import REC_FIELDS

CONTRACTS = []
ML = "loader.py::ModuleLoader"
REC_FIELDS[ML] = {"path": "str"}

EXT = {
    'acquire_lock': {}, 'release_lock': {},
    'os.path.splitext': {'result': 'tuple[str,str]', 'as': 'splitext'},
    'os.path.join': {'result': 'str', 'as': 'join'},
    'tempfile.mkstemp': {'result': 'tuple[int,str]', 'raises': ['OSError'], 'as': 'mkstemp'},
    'os.fdopen': {'result': 'rec:file', 'raises': ['OSError'], 'as': 'fdopen'},
    'temp.write': {'raises': ['OSError', 'KeyboardInterrupt'], 'as': 'write'},
    'temp.close': {'raises': ['OSError'], 'as': 'close'},
    'os.remove': {'as': 'remove'},
    'os.rename': {'raises': ['OSError'], 'as': 'rename'},
    'py_compile.compile': {'raises': ['OSError'], 'as': 'compile'},
    'self._load': {'result': 'any', 'raises': ['OSError'], 'as': '_load'},
}
PURE = ('splitext', 'join')
ORDER = ("('acquire_lock', 'splitext', 'join', 'mkstemp', 'fdopen', 'write', 'write', 'close', "
         "'rename', 'compile', '_load', 'release_lock')")
ALWAYS = [
    "complete_at_rename()",
    # the lock is released last, whatever happens
    "ext_names()[-1] == 'release_lock'",
    # the final name is only ever produced by renaming the temporary file, after it was closed
    "ext_index('rename') == -1 or (ext_index('close') != -1 and ext_index('close') < ext_index('rename') "
    "and ext_index('write', 1) < ext_index('close'))",
    "ext_index('rename') == -1 or ext_call_arg('rename', 0, 0) == ext_call_result('mkstemp', 0)[1]",
    # a failed write removes the temporary file and nothing is renamed
    "not ext_raised_in('write') or (ext_index('remove') != -1 and ext_index('rename') == -1 "
    "and ext_call_arg('remove', 0, 0) == ext_call_result('mkstemp', 0)[1])",
    # nothing is compiled or loaded before the rename
    "ext_index('compile') == -1 or (ext_index('rename') != -1 and ext_index('rename') < ext_index('compile'))",
]

CONTRACTS.append(Contract(
    ML + ".build", params={"self": "rec[%s]" % ML, "source": "str", "filename": "str"},
    inline=["encode_string"],
    ensures=["ext_names() == " + ORDER,
             # the temporary file lives in the cache directory (same file system: atomic rename)
             "ext_call_arg('rename', 0, 1) == ext_call_result('join', 0)"] + ALWAYS,
    raises={'OSError': {'ensures': ALWAYS}, 'KeyboardInterrupt': {'ensures': ALWAYS}},
    ghost={'externals': EXT, 'harness': ('bounded.loader_harness', 'build_crashpoints'),
           'search': {'generator': ('bounded.loader_harness', 'gen_build_cases')}},
    serves=["C15"],
    notes="trace contract; crash-safety follows for every prefix of the trace under the POSIX axioms"))
