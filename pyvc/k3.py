"""K3: verification of code EMITTED by the real compiler for schema templates (DESIGN.md 1, 2.6).

A schema template is compiled by the real pipeline (subprocess under /venv/bin/python,
pyvc/k3_compile.py); the verified text is the `try:` body of the generated render function.
`<?python __hole__(k) ?>` stands for arbitrary child code (contract HoleC); `getname('eN')`
stands for the evaluation of an arbitrary expression (returns any value or raises anything).
"""
from __future__ import annotations

import ast
import json
import os
import re
import subprocess
import tempfile

import z3

from . import models
from .interp import Raised
from .paths import PathEnd
from .values import (NONE, Ty, Unsupported, V, VAny, VBool, VConc, VDict, VExc, VFunc, VInt,
                     VList, VMap, VNone, VOpt, VRec, VSeq, VStr, VTuple, Val, conc_oid, fresh,
                     fresh_name, lit, to_any, truth, unwrap, wrap)
from .vc import Contract, REPO

VERIF = os.path.dirname(os.path.dirname(os.path.abspath(__file__)))
PY = os.environ.get('VERIF_PYTHON', '/venv/bin/python')
ANY = Ty('any')
STR = Ty('str')

# locals of generated code that are shared between elements (not id-suffixed): a hole may
# assign any of them.  Id-suffixed families are protected by the FRESH obligations.
SHARED_LOCALS = ('__condition', '__value', '__content', '__tt', '__markup', '__converted',
                 '__expression', '__item', '__iterator', '__macro', '__m', '_slots', '__exc',
                 '__ignore')
SHARED_PREFIXES = ('__attr_',)   # __attr_<attribute name> is keyed by name, not by node


def compile_schemas(schemas):
    """[{id,text,cls?,options?}] -> {id: {'source':..} | {'error':..}} using the real compiler"""
    fd, path = tempfile.mkstemp(prefix='pyvc-k3-', suffix='.json')
    try:
        with os.fdopen(fd, 'w') as f:
            json.dump({'repo': REPO, 'schemas': schemas}, f)
        env = dict(os.environ)
        env.pop('PYTHONPATH', None)
        p = subprocess.run([PY, os.path.join(VERIF, 'pyvc', 'k3_compile.py'), path],
                           capture_output=True, text=True, env=env, timeout=600)
        if p.returncode != 0:
            raise RuntimeError('schema compilation failed: %s' % p.stderr[-2000:])
        return json.loads(p.stdout)
    finally:
        os.unlink(path)


class Emitted:
    """the parts of a generated module that matter"""

    def __init__(self, source, fname='render'):
        self.source = source
        tree = ast.parse(source)
        self.tokens = {}
        self.statics = {}
        self.module_names = []
        init = None
        for n in tree.body:
            if isinstance(n, ast.Assign) and isinstance(n.targets[0], ast.Name):
                nm = n.targets[0].id
                self.module_names.append(nm)
                if nm == '__tokens':
                    self.tokens = ast.literal_eval(n.value)
                elif nm.startswith('_static_'):
                    self.statics[nm] = n.value
            elif isinstance(n, ast.FunctionDef) and n.name == 'initialize':
                init = n
            elif isinstance(n, (ast.Import, ast.ImportFrom)):
                for a in n.names:
                    self.module_names.append(a.asname or a.name)
        self.functions = {f.name: f for f in init.body if isinstance(f, ast.FunctionDef)}
        self.builtin_params = [a.arg for a in init.args.args]
        fn = self.functions[fname]
        self.fn = fn
        self.prologue = []
        self.trybody = None
        self.handler = None
        trys = [st for st in fn.body if isinstance(st, ast.Try)]
        main = trys[-1]
        self.slot_prologue = trys[:-1]     # `try: __slot_x = econtext[...].pop() except: ... = None`
        for st in fn.body:
            if st is main:
                self.trybody, self.handler = st.body, st.handlers[0].body
            else:
                self.prologue.append(st)

    def schema_text(self, name='schema'):
        body = '\n'.join(ast.unparse(s) for s in list(self.slot_prologue) + list(self.trybody))
        return 'def %s():\n%s\n' % (name, '\n'.join('    ' + ln for ln in body.split('\n')))

    def assigned_locals(self):
        names = set()
        for st in self.trybody:
            for n in ast.walk(st):
                if isinstance(n, ast.Name) and isinstance(n.ctx, ast.Store):
                    names.add(n.id)
        return names


class OpaqueStatic:
    """a module-level constant of the emitted code the engine cannot evaluate: any use that needs
    its value is Unsupported (never guessed)"""

    def __init__(self, name):
        self.name = name

    def __repr__(self):
        return '<static %s>' % self.name


def static_value(node, nm):
    """`set([...])` / `frozenset([...])` of literals (how the code generator writes set constants)"""
    if isinstance(node, ast.Call) and isinstance(node.func, ast.Name) and \
            node.func.id in ('set', 'frozenset') and len(node.args) <= 1 and not node.keywords:
        try:
            return frozenset(ast.literal_eval(node.args[0])) if node.args else frozenset()
        except Exception:
            pass
    return OpaqueStatic(nm)


# ---------------------------------------------------------------------------
# symbolic render state
# ---------------------------------------------------------------------------
UNBOUND_OBJ = object()
HOLE_RE = r'<\?python __hole__\(\d+, __stream\) \?>'


def hole(k):
    """schema text of hole k; `__stream` is rewritten by the code generator to the stream the
    surrounding code appends to (the main stream or a translation sub-stream)"""
    return '<?python __hole__(%d, __stream) ?>' % k


SCOPE = 'k3::Scope'
RCTX = 'k3::dict'


def merged_map(has1, val1, has2, val2):
    """entries of map 2 override map 1 (dict.update)"""
    k = z3.String(fresh_name('k'))
    has = z3.Lambda([k], z3.Or(z3.Select(has1, k), z3.Select(has2, k)))
    val = z3.Lambda([k], z3.If(z3.Select(has2, k), z3.Select(val2, k), z3.Select(val1, k)))
    return has, val


def not_internal(I, value):
    """A-MARKER: no template variable is bound to the module-private `__marker` object (a fresh
    object() created by the generated module) nor to the verifier's UNBOUND token"""
    I.assume(value != Val.obj(z3.IntVal(conc_oid(K3State.MARKER))))
    I.assume(value != Val.obj(z3.IntVal(conc_oid(UNBOUND_OBJ))))
    cm = I.env.get('_CANCEL_MARKER') if hasattr(I, 'env') else None
    if isinstance(cm, VConc):
        # the switch-cancellation marker is private to chameleon.zpt.program
        I.assume(value != Val.obj(z3.IntVal(conc_oid(cm.obj))))


def scope_visible(sc, key):
    """Scope.get semantics: own layer, then root layer -> (present: Bool, value: Val)"""
    lo, ro = sc.fields['local'], sc.fields['root']
    kt = models.strterm(key)
    present = z3.Or(z3.Select(lo.has, kt), z3.Select(ro.has, kt))
    value = z3.If(z3.Select(lo.has, kt), z3.Select(lo.val, kt), z3.Select(ro.val, kt))
    return present, value


class K3State:
    """installs the free names of a render body into the interpreter"""

    def __init__(self, I, em, spec):
        self.I, self.em, self.spec = I, em, spec
        g = I.ghost
        g['T'] = []                    # event trace (python list per path)
        g['probe_vals'] = {}
        g['probe_raised'] = {}
        g['hole_out'] = {}
        g['hole_raised'] = {}
        g['quotes'] = []
        g['translates'] = []
        g['handler_calls'] = []
        g['errorinfo'] = []
        s0 = z3.String(fresh_name('S0'))
        n0 = z3.Int(fresh_name('S0_len'))
        I.assume(n0 >= 0)
        self.stream = KText(s0, n0)
        g['S0'] = s0
        g['stream'] = self.stream
        mk = lambda n: fresh(Ty('map', [STR, ANY]), n)
        self.econtext = VRec(SCOPE, {'local': mk('E_local'), 'root': mk('E_root')})
        self.rcontext = VRec(RCTX, {'m': mk('G')})
        g['E0'] = (self.econtext.fields['local'].has, self.econtext.fields['local'].val,
                   self.econtext.fields['root'].has, self.econtext.fields['root'].val)
        g['G0'] = (self.rcontext.fields['m'].has, self.rcontext.fields['m'].val)
        # established by PageTemplate.render (setdefault('target_language', None), 'repeat')
        for nm in ('target_language', 'repeat'):
            kt = z3.StringVal(nm)
            I.assume(z3.Or(z3.Select(self.econtext.fields['local'].has, kt),
                           z3.Select(self.econtext.fields['root'].has, kt)))
        g['econtext'] = self.econtext
        g['rcontext'] = self.rcontext
        g['tokens'] = em.tokens
        g['all_holes'] = sorted({int(m) for m in re.findall(r'__hole__\((\d+)', em.schema_text())})

    def env(self):
        I = self.I
        e = {
            '__stream': self.stream,
            '__append': VFunc('append', selfv=self.stream),
            'econtext': self.econtext, 'rcontext': self.rcontext,
            'getname': VFunc('getname', impl=self.getname),
            'get': VFunc('get', impl=self.get),
            '__hole__': VFunc('__hole__', impl=self.hole),
            '__quote': VFunc('__quote', impl=self.quote),
            '__convert': VFunc('__convert', impl=self.convert),
            'translate': VFunc('translate', impl=self.translate),
            'decode': VFunc('decode', impl=lambda I, a, k, n: VStr(z3.String(fresh_name('dec')))),
            'on_error_handler': self.handler_value(),
            '__tokens': VFunc('__tokens', selfv=None),
            '_ErrorInfo': VFunc('_ErrorInfo', impl=self.errorinfo),
            '__token': NONE,
            '__marker': VConc(K3State.MARKER), '__default': VConc(K3State.DEFAULT),
            '__i18n_domain': fresh(ANY, 'i18n_domain'), '__i18n_context': fresh(ANY, 'i18n_context'),
            'target_language': fresh(ANY, 'target_language'),
            '__re_whitespace': VFunc('__re_whitespace', impl=self.re_whitespace),
            '__chain': VFunc('__chain', impl=self.chain),
            'nothing': NONE,
            '_deque': VFunc('_deque', impl=lambda I, a, k, n: VRec('k3::deque', {'items': a[0]})),
            '_loads': VFunc('_loads', impl=self.loads),
        }
        for fname in self.em.functions:
            if fname not in e and fname != self.spec.get('fname', 'render'):
                # sibling render functions of the same module (in-template macros)
                e[fname] = VAny(Val.obj(z3.IntVal(conc_oid(('function', fname)))))
                I.ghost.setdefault('module_functions', {})[fname] = e[fname]
        e['__tokens'] = TokensTable(self.em.tokens)
        for nm, node in self.em.statics.items():
            try:
                val = ast.literal_eval(node)
            except Exception:
                val = static_value(node, nm)
            e[nm] = lit(val) if isinstance(val, (str, int, bool, type(None))) else VConc(val)
        for nm in self.em.module_names:
            if nm.startswith('_') and nm not in e and not nm.startswith('__'):
                e.setdefault(nm, VConc(('symbol', nm)))
        I.ghost['i18n0'] = (e['__i18n_domain'], e['__i18n_context'], e['target_language'])
        return e

    MARKER = object()
    DEFAULT = object()

    def handler_value(self):
        h = fresh(ANY, 'on_error_handler')
        self.I.ghost['handler'] = h
        return h

    # -- probes ------------------------------------------------------------
    def getname(self, I, args, kwargs, node):
        key = args[0]
        k = models.concretise(key)
        m = re.match(r'^e(\d+)$', k)
        if m:
            return self.probe(I, int(m.group(1)))
        if k == 'repeat':
            f = VFunc('repeat', impl=self.repeat_call)
            f.kind = 'repeatdict'       # also subscriptable: see repeat_get / repeat_set
            f.state = self
            return f
        present, value = scope_visible(self.econtext, key)
        if not I.decide(present, 'name-defined'):
            raise Raised(VExc(NameError, [key]))
        not_internal(I, value)
        return VAny(value)

    def get(self, I, args, kwargs, node):
        key = args[0]
        present, value = scope_visible(self.econtext, key)
        if I.decide(present, 'get-present'):
            not_internal(I, value)
            return VAny(value)
        return args[1] if len(args) > 1 else NONE

    def probe(self, I, n):
        g = I.ghost
        occ = len([1 for ev in g['T'] if ev[0] == 'eval' and ev[1] == n])
        lo_, ro_ = self.econtext.fields['local'], self.econtext.fields['root']
        g['T'].append(('eval', n, I.env.get('__token'), (lo_.has, lo_.val, ro_.has, ro_.val)))
        outcome = I.path.choose(2, 'probe-e%d' % n)
        if outcome == 0:
            v = VAny(z3.Const('val!e%d!%d' % (n, occ), Val))
            not_internal(I, v.t)
            g['probe_vals'].setdefault(n, []).append(v)
            g['probe_raised'].setdefault(n, []).append(False)
            return v
        g['probe_raised'].setdefault(n, []).append(True)
        exc = new_sym_exc(I, 'exc!e%d!%d' % (n, occ))
        exc.extra['origin'] = ('probe', n)
        g['raised_exc'] = exc
        g.setdefault('probe_exc', {}).setdefault(n, []).append(exc)
        raise Raised(exc)

    # -- holes (HoleC) -------------------------------------------------------
    def hole(self, I, args, kwargs, node):
        k = models.concretise(args[0])
        g = I.ghost
        occ = len([1 for ev in g['T'] if ev[0] == 'hole' and ev[1] == k])
        lo_, ro_ = self.econtext.fields['local'], self.econtext.fields['root']
        g['T'].append(('hole', k, I.env.get('__token'), (lo_.has, lo_.val, ro_.has, ro_.val),
                       (I.env.get('__i18n_domain'), I.env.get('__i18n_context'),
                        I.env.get('target_language'))))
        ix = g.get('loop_index')
        if ix is not None:
            f = z3.Function('out!%d' % k, z3.IntSort(), z3.StringSort())
            out = f(ix)
        else:
            out = z3.String('out!%d!%d' % (k, occ))
        g['hole_out'].setdefault(k, []).append(out)
        nel = z3.Int(fresh_name('out_elems'))
        I.assume(nel >= 0)
        cur = args[1] if len(args) > 1 else self.stream
        if isinstance(cur, KText):
            cur.append_text(out, nel)
        elif isinstance(cur, VList):
            cur.items.append(VSeg(out, nel))     # a translation sub-stream (plain list)
        else:
            raise Unsupported('hole output stream %r' % (cur,))
        # locals a child may assign
        for nm in list(I.env):
            if nm in SHARED_LOCALS or nm.startswith(SHARED_PREFIXES):
                if nm in I.env and not isinstance(I.env[nm], (VFunc,)):
                    I.env[nm] = fresh(ANY, 'havoc' + nm)
        keys = sorted(self.em.tokens)
        tk = fresh(Ty('opt', [Ty('int')]), 'token_after_hole')
        I.assume(z3.Or(tk.none, z3.Or([tk.val.t == kk for kk in keys] + [z3.BoolVal(False)])))
        I.env['__token'] = tk
        outcome = I.path.choose(2, 'hole-%d' % k)
        gdef = z3.Function('gdef!%d' % k, z3.StringSort(), z3.BoolSort())
        lo = self.econtext.fields['local']
        gm = self.rcontext.fields['m']
        if outcome == 0:
            g['hole_raised'].setdefault(k, []).append(False)
            # normal exit: scope unchanged except names the child defines globally;
            # rcontext only grows / changes on those names
            nl = fresh(Ty('map', [STR, ANY]), 'E_local_after')
            ng = fresh(Ty('map', [STR, ANY]), 'G_after')
            kk = z3.String(fresh_name('kq'))
            # (`error` is the exception: a tal:on-error element inside the child leaves it bound
            # in the local layer after a handled failure)
            I.assume(z3.ForAll([kk], z3.Implies(z3.Not(gdef(kk)), z3.And(
                z3.Or(kk == z3.StringVal('error'),
                      z3.And(z3.Select(nl.has, kk) == z3.Select(lo.has, kk),
                             z3.Select(nl.val, kk) == z3.Select(lo.val, kk))),
                z3.Select(ng.has, kk) == z3.Select(gm.has, kk),
                z3.Select(ng.val, kk) == z3.Select(gm.val, kk)))))
            I.assume(z3.ForAll([kk], z3.Implies(gdef(kk), z3.And(z3.Select(ng.has, kk),
                                                               z3.Select(nl.has, kk)))))
            for nm in self.spec.get('own_names', []):
                I.assume(z3.Not(gdef(z3.StringVal(nm))))
            lo.has, lo.val = nl.has, nl.val
            gm.has, gm.val = ng.has, ng.val
            # repeat dictionary: a child leaves every entry it finds as it found it (a nested
            # tal:repeat over the same name restores it: post `repeat_restored` of S-Repeat, by
            # induction); entries for other keys may appear
            for nm in list(g.get('repeat_map', {})):
                g.setdefault('repeat_kept', {}).setdefault(nm, []).append(z3.BoolVal(True))
            return NONE
        g['hole_raised'].setdefault(k, []).append(True)
        # exceptional exit: output so far is a prefix; scope, rcontext and i18n locals arbitrary
        for rec, fld in ((self.econtext, 'local'), (self.rcontext, 'm')):
            f = fresh(Ty('map', [STR, ANY]), 'after_raise')
            rec.fields[fld].has, rec.fields[fld].val = f.has, f.val
        for nm in ('__i18n_domain', '__i18n_context', 'target_language'):
            I.env[nm] = fresh(ANY, 'after_raise' + nm)
        for nm in list(g.get('repeat_map', {})):
            g['repeat_map'][nm] = z3.Int(fresh_name('repeat_item_after_raise'))
        exc = new_sym_exc(I, 'exc!h%d!%d' % (k, occ))
        exc.extra['origin'] = ('hole', k)
        g['raised_exc'] = exc
        g.setdefault('hole_exc', {}).setdefault(k, []).append(exc)
        raise Raised(exc)

    # -- helpers emitted into every render function (K2 contracts) ------------
    def quote(self, I, args, kwargs, node):
        f = z3.Function('k2_quote', Val, Val, Val, Val, Val, Val)
        a = [to_any(x).t for x in args]
        r = VAny(f(*a))
        I.ghost['quotes'].append((args, r))
        I.ghost['T'].append(('quote', args[0]))
        # K2.__quote contract: None -> None; otherwise the result is None or a str
        I.assume(z3.Implies(Val.is_none(a[0]), Val.is_none(r.t)))
        I.assume(z3.Or(Val.is_none(r.t), Val.is_str(r.t)))
        # ... and (K2.__quote.post[1], precondition default_marker is not None): a value that IS the
        # default marker gives the static default as it is
        I.assume(z3.Implies(z3.And(z3.Not(Val.is_none(a[0])), z3.Not(Val.is_none(a[4])), a[0] == a[4]),
                            r.t == a[3]))
        return r

    def convert(self, I, args, kwargs, node):
        f = z3.Function('k2_convert', Val, Val)
        r = VAny(f(to_any(args[0]).t))
        I.ghost['T'].append(('convert', args[0]))
        I.assume(z3.Implies(Val.is_none(to_any(args[0]).t), Val.is_none(r.t)))
        I.assume(z3.Or(Val.is_none(r.t), Val.is_str(r.t)))
        return r

    def translate(self, I, args, kwargs, node):
        r = fresh(ANY, 'translated')
        I.ghost['translates'].append((args, kwargs, r))
        I.ghost['T'].append(('translate',))
        return r

    def errorinfo(self, I, args, kwargs, node):
        # CALL-SITE PRECONDITION of tal.ErrorInfo.__init__(err, position): the constructor reads
        # position[0] and position[1]; anything that is not a pair of (line, column) - None in
        # particular - makes the handler itself fail before the fallback is written
        if len(args) > 1:
            pos = args[1]
            if isinstance(pos, VTuple):
                ok = z3.BoolVal(len(pos.items) == 2)
            elif isinstance(pos, VOpt) and isinstance(pos.val, VTuple):
                ok = z3.And(z3.Not(pos.none), z3.BoolVal(len(pos.val.items) == 2))
            else:
                ok = z3.BoolVal(False)
            I.oblige('%s.call:ErrorInfo.pre[position]' % I.vc.qual, ok, 'post',
                     {'text': 'the error position handed to tal.ErrorInfo is a (line, column) pair'})
        r = VAny(Val.obj(z3.Int(fresh_name('errorinfo'))))
        I.ghost['errorinfo'].append((args, r))
        return r

    def re_whitespace(self, I, args, kwargs, node):
        return collapse_ws(args[0], I)

    def chain(self, I, args, kwargs, node):
        """itertools.chain(*mappings): only ever used as `name in __chain(...)`; membership is an
        uninterpreted function of the key and each chained value"""
        c = VChain([to_any(a) for a in args])
        return c

    def loads(self, I, args, kwargs, node):
        """pickle.loads of the constant the compiler embedded for a deferred ExpressionError:
        evaluated for real (the constant is concrete)"""
        import pickle
        import sys
        from .vc import SRC
        if SRC not in sys.path:
            sys.path.insert(0, SRC)
        exc = pickle.loads(models.concretise(args[0]))
        tok = exc.args[1]
        from .values import VToken
        vt = VToken(z3.StringVal(str.__str__(tok)), z3.IntVal(tok.pos),
                    VStr(tok.source) if tok.source is not None else NONE, VStr(tok.filename or ''))
        e = VExc(type(exc), [VStr(exc.args[0]), vt])
        e.extra['origin'] = ('deferred', tok.pos)
        I.ghost['raised_exc'] = e
        return e

    def external_call(self, I, callee, args, kwargs):
        """a call that leaves the render function: a macro's render function (same template or
        another one), a slot filler, or the on-error handler.  Contract (HoleC for callees):
        it may append to the stream it is given, may add/overwrite entries of the rcontext it is
        given, cannot touch the caller's scope object (it receives a copy), and may raise."""
        g = I.ghost
        lo_, ro_ = self.econtext.fields['local'], self.econtext.fields['root']
        g.setdefault('extcalls', []).append({
            'callee': callee, 'args': list(args), 'kwargs': dict(kwargs),
            'token': I.env.get('__token'),
            'i18n': (I.env.get('__i18n_domain'), I.env.get('__i18n_context'),
                     I.env.get('target_language'))})
        nth = len(g['extcalls']) - 1
        g['T'].append(('extcall', nth))
        for a in args:
            if isinstance(a, KText):
                out = z3.String(fresh_name('ext_out!%d' % nth))
                nel = z3.Int(fresh_name('ext_n'))
                I.assume(nel >= 0)
                g['extcalls'][-1]['out'] = out
                a.append_text(out, nel)
            if isinstance(a, VRec) and a.cls == RCTX:
                m = a.fields['m']
                nm = fresh(Ty('map', [STR, ANY]), 'G_after_call')
                kk = z3.String(fresh_name('kg'))
                I.assume(z3.ForAll([kk], z3.Implies(z3.Select(m.has, kk), z3.Select(nm.has, kk))))
                m.has, m.val = nm.has, nm.val
        outcome = I.path.choose(2, 'extcall-%d' % nth)
        g['extcalls'][-1]['raised'] = (outcome == 1)
        if outcome == 1:
            exc = new_sym_exc(I, 'exc!x%d' % nth)
            exc.extra['origin'] = ('extcall', nth)
            g['raised_exc'] = exc
            raise Raised(exc)
        r = fresh(ANY, 'ext_result')
        g['extcalls'][-1]['result'] = r
        return r

    def _repeat_key(self, key):
        if models.is_concrete(key):
            k = models.concretise(key)
            if isinstance(k, (str, tuple)):
                return k
        raise Unsupported('repeat dictionary key %r' % (key,))

    def repeat_get(self, I, key):
        """repeat[key] (dict.__getitem__ of the repeat dictionary): the RepeatItem registered
        for the key, KeyError if there is none"""
        k = self._repeat_key(key)
        rm = I.ghost.setdefault('repeat_map', {})
        rm0 = I.ghost.setdefault('repeat_map0', {})
        if k not in rm:
            # nothing is known about the entry at entry of the schema: present or absent
            if I.decide(z3.Bool(fresh_name('repeat_entry_absent')), 'repeat-entry-absent'):
                rm0.setdefault(k, None)
                raise Raised(VExc(KeyError, [key]))
            rm[k] = z3.Int(fresh_name('repeat_item_outer'))
            I.assume(rm[k] > 0)
            rm0.setdefault(k, rm[k])
        return VAny(Val.obj(rm[k]))

    def repeat_set(self, I, key, v):
        k = self._repeat_key(key)
        t = to_any(v).t
        I.ghost.setdefault('repeat_map', {})[k] = Val.oid(t)

    def repeat_call(self, I, args, kwargs, node):
        """getname('repeat')(key, iterable): tal.RepeatDict.__call__ contract:
        returns (iterator over list(iterable), its length); None iterates nothing"""
        # contract of tal.RepeatDict.__call__ (verified: contracts/tal_repeat.py): the operand is
        # materialised by list() first -- which raises for a non-iterable, nothing registered
        if I.path.choose(2, 'repeat-operand') == 1:
            exc = new_sym_exc(I, fresh_name('exc!repeat'))
            exc.extra['origin'] = ('repeat',)
            I.ghost['raised_exc'] = exc
            I.ghost['repeat_failed'] = True
            I.assume(z3.Not(Val.is_none(to_any(args[1]).t)))
            raise Raised(exc)
        n = z3.Int(fresh_name('repeat_len'))
        I.assume(n >= 0)
        it = RepeatIter(n, fresh_name('items'))
        I.ghost.setdefault('repeats', []).append((args, it))
        I.ghost['T'].append(('repeat', args[0]))
        # ghost: which RepeatItem the repeat dictionary holds for this key (RepeatDict.__call__
        # contract: self[key] = RepeatItem(...))
        item = z3.Int(fresh_name('repeat_item'))
        I.assume(item > 0)
        I.ghost.setdefault('repeat_items', []).append(item)
        if models.is_concrete(args[0]) and isinstance(models.concretise(args[0]), (str, tuple)):
            I.ghost.setdefault('repeat_map', {})[models.concretise(args[0])] = item
        I.assume(z3.Implies(Val.is_none(to_any(args[1]).t), n == 0))
        return VTuple([it, VInt(n)])


class KText(V):
    """The output stream, abstracted to (joined text, number of list elements, marks).  A mark
    records the text at a moment `len(__stream)` was taken, so that `del __stream[n:]` can be
    resolved to the text prefix with that many elements."""
    kind = 'ktext'

    def __init__(self, text, count):
        self.text, self.count, self.marks = text, count, []

    @staticmethod
    def piece_text(v):
        if isinstance(v, VStr):
            return v.t
        if isinstance(v, VAny):
            from .values import f_str_of, TokenSort
            t = v.t
            return z3.If(Val.is_str(t), Val.s(t),
                         z3.If(Val.is_tok(t), TokenSort.s(Val.t(t)), f_str_of(t)))
        return models.strterm(v)

    def append_value(self, v):
        self.text = z3.Concat(self.text, self.piece_text(v))
        self.count = self.count + 1

    def append_text(self, term, n_elems):
        self.text = z3.Concat(self.text, term)
        self.count = self.count + n_elems

    def length(self, I):
        c = z3.simplify(self.count)
        self.marks.append((c, self.text))
        return c

    def truncate(self, I, f):
        f = z3.simplify(f)
        for c, txt in reversed(self.marks):
            if c.eq(f):
                self.text, self.count = txt, f
                return
        for c, txt in reversed(self.marks):
            if not I.path._feasible(c != f):
                self.text, self.count = txt, f
                return
        # the saved length is not (provably) a length this stream ever had on this path:
        # the remaining text is some prefix we know nothing about
        self.text = z3.String(fresh_name('unknown_prefix'))
        self.count = f


def collapse_ws(v, I=None):
    """re.compile(r'\\s+').sub(' ', s): exact on constants, uninterpreted otherwise (with the
    fact that a non-whitespace character of a constant piece of the subject survives)"""
    t = z3.simplify(models.strterm(v))
    f = z3.Function('collapse_ws', z3.StringSort(), z3.StringSort())
    if z3.is_string_value(t):
        exact = re.sub(r'\s+', ' ', models.decode_z3_string(t.as_string()))
        if I is not None:
            # the uninterpreted function agrees with the real one on this constant (a spec-side
            # term that equals the constant only under the path condition then resolves too)
            I.assume(f(t) == z3.StringVal(exact))
        return VStr(exact)
    if I is not None and z3.is_app(t) and t.decl().kind() == z3.Z3_OP_SEQ_CONCAT:
        for ch in t.children():
            if z3.is_string_value(ch):
                keep = [c for c in models.decode_z3_string(ch.as_string()) if not c.isspace()]
                if keep:
                    I.assume(z3.Contains(f(t), z3.StringVal(keep[0])))
                    break
    return VStr(f(t))


class VChain(V):
    kind = 'chain'

    def __init__(self, parts):
        self.parts = parts

    def contains(self, key):
        f = z3.Function('chain_contains', z3.StringSort(), Val, z3.BoolSort())
        return z3.Or([f(models.strterm(key), p.t) for p in self.parts] + [z3.BoolVal(False)])


class VSeg(V):
    """an unknown number of list elements whose joined text is `text` (a hole's output inside
    a translation sub-stream)"""
    kind = 'seg'

    def __init__(self, text, n):
        self.t, self.n = text, n


class TokensTable(V):
    kind = 'tokens'

    def __init__(self, table):
        self.table = table


class RepeatIter(V):
    kind = 'repeat_iter'

    def __init__(self, n, tag):
        self.n, self.tag = n, tag
        self.item = z3.Function(tag, z3.IntSort(), Val)


# ---------------------------------------------------------------------------
# native methods of the render state records
# ---------------------------------------------------------------------------
def scope_method(I, rec, name, args, kwargs):
    lo, ro = rec.fields['local'], rec.fields['root']
    if name == '__setitem__':
        models.set_item(I, lo, args[0], to_any(args[1]))
        return NONE
    if name == '__delitem__':
        kt = models.strterm(args[0])
        if not I.decide(z3.Select(lo.has, kt), 'del-key-in-local-layer'):
            raise Raised(VExc(KeyError, [args[0]]))
        lo.has = z3.Store(lo.has, kt, z3.BoolVal(False))
        return NONE
    if name == 'pop' and len(args) == 2:
        # dict.pop(key, default) on the scope's own (local) layer
        kt = models.strterm(args[0])
        if I.decide(z3.Select(lo.has, kt), 'pop-key-in-local-layer'):
            v = VAny(z3.Select(lo.val, kt))
            lo.has = z3.Store(lo.has, kt, z3.BoolVal(False))
            return v
        return args[1]
    if name == '__getitem__':
        present, value = scope_visible(rec, args[0])
        if not I.decide(present, 'key-visible'):
            raise Raised(VExc(KeyError, [args[0]]))
        not_internal(I, value)
        return VAny(value)
    if name == 'get_name' and rec is I.ghost['econtext']:
        return I.ghost['k3'].getname(I, args, kwargs, None)
    if name == 'get':
        present, value = scope_visible(rec, args[0])
        if I.decide(present, 'get-present'):
            not_internal(I, value)
            return VAny(value)
        return args[1] if len(args) > 1 else NONE
    if name == 'copy':
        nl = VMap(STR, ANY, lo.has, lo.val)
        # copy(): fresh own layer holding this scope's own items; the root layer is shared
        # (utils.Scope.copy contract); for a root scope the receiver becomes the root
        return VRec(SCOPE, {'local': nl, 'root': VMap(STR, ANY, ro.has, ro.val),
                            'copy_of': rec})
    if name == 'update':
        other = args[0]
        om = other.fields['m'] if isinstance(other, VRec) else other
        lo.has, lo.val = merged_map(lo.has, lo.val, om.has, om.val)
        return NONE
    raise Unsupported('Scope.%s in emitted code' % name)


def rctx_method(I, rec, name, args, kwargs):
    m = rec.fields['m']
    if name == '__setitem__':
        models.set_item(I, m, args[0], to_any(args[1]))
        return NONE
    if name == '__getitem__':
        return models.get_item(I, m, args[0])
    if name == 'get':
        return models.dict_method(I, m, 'get', args, kwargs)
    if name == '__len__':
        card = z3.Function('dict_len', m.has.sort(), z3.IntSort())
        n = card(m.has)
        I.assume(n >= 0)
        return VInt(n)
    if name == 'setdefault':
        kt = models.strterm(args[0])
        if I.decide(z3.Select(m.has, kt), 'setdefault-present'):
            return VAny(z3.Select(m.val, kt))
        models.set_item(I, m, args[0], to_any(args[1]) if not isinstance(args[1], VList) else VAny(
            Val.obj(z3.Int(fresh_name('newlist')))))
        return args[1]
    if name == 'pop':
        kt = models.strterm(args[0])
        present = z3.Select(m.has, kt)
        old = VAny(z3.Select(m.val, kt))
        if len(args) > 1:
            # pop(key, default): no exception either way -- one path
            m.has = z3.Store(m.has, kt, z3.BoolVal(False))
            return VAny(z3.If(present, old.t, to_any(args[1]).t))
        if I.decide(present, 'rcontext-pop-present'):
            m.has = z3.Store(m.has, kt, z3.BoolVal(False))
            return old
        from .interp import Raised
        from .values import VExc
        raise Raised(VExc(KeyError, [args[0]]))
    raise Unsupported('rcontext.%s in emitted code' % name)


def deque_method(I, rec, name, args, kwargs):
    """the slot-filler chain the emitted code creates itself: `_deque((f,))`, then appendleft / pop"""
    from .values import VTuple
    items = rec.fields['items']
    cur = list(items.items) if hasattr(items, 'items') else [items]
    if name == 'appendleft':
        rec.fields['items'] = VTuple([args[0]] + cur)
        return NONE
    if name == 'append':
        rec.fields['items'] = VTuple(cur + [args[0]])
        return NONE
    raise Unsupported('deque.%s in emitted code' % name)


NATIVE = {SCOPE: scope_method, RCTX: rctx_method, 'k3::deque': deque_method}


# ---------------------------------------------------------------------------
# spec primitives for schema contracts
# ---------------------------------------------------------------------------
def _c(v):
    return models.concretise(v)


def _ev_key(tag):
    """'e3' -> ('eval', 3) ; 'h1' -> ('hole', 1)"""
    return ('eval', int(tag[1:])) if tag[0] == 'e' else ('hole', int(tag[1:]))


def _bound_value(present, value):
    """binding of a name as one Val: the value, or the UNBOUND marker when not defined"""
    return VAny(z3.If(present, value, Val.obj(z3.IntVal(conc_oid(UNBOUND_OBJ)))))


def _exc_classes():
    import builtins
    return [c for c in vars(builtins).values()
            if isinstance(c, type) and issubclass(c, BaseException)]


def new_sym_exc(I, tag):
    """a symbolic exception instance of an arbitrary class; the builtin class hierarchy is
    axiomatised for it (isinstance of a subclass implies isinstance of its bases)"""
    ecls = z3.Int(tag)
    exc = VExc(None, [], ecls=ecls)
    f = z3.Function('exc_subclass', z3.IntSort(), z3.IntSort(), z3.BoolSort())
    for c in _exc_classes():
        for b in c.__mro__[1:]:
            if b is object:
                continue
            I.assume(z3.Implies(f(ecls, z3.IntVal(conc_oid(c))), f(ecls, z3.IntVal(conc_oid(b)))))
    I.assume(f(ecls, z3.IntVal(conc_oid(BaseException))))
    return exc


def k3_prims():
    def S(I, a, k, n):
        return VStr(I.ghost['stream'].text)

    def S0(I, a, k, n):
        return VStr(I.ghost['S0'])

    def piece(I, a, k, n):
        """text a value contributes when appended to the stream"""
        return VStr(KText.piece_text(a[0]))

    def out(I, a, k, n):
        kk = _c(a[0])
        occ = _c(a[1]) if len(a) > 1 else 0
        outs = I.ghost['hole_out'].get(kk, [])
        if occ < len(outs):
            return VStr(outs[occ])
        return VStr(z3.String('out!%d!%d' % (kk, occ)))

    def val(I, a, k, n):
        nn = _c(a[0])
        occ = _c(a[1]) if len(a) > 1 else 0
        vs = I.ghost['probe_vals'].get(nn, [])
        if occ < len(vs):
            return vs[occ]
        return VAny(z3.Const('val!e%d!%d' % (nn, occ), Val))

    def evals(I, a, k, n):
        nn = _c(a[0])
        return VInt(len([1 for ev in I.ghost['T'] if ev[0] == 'eval' and ev[1] == nn]))

    def holes(I, a, k, n):
        kk = _c(a[0])
        return VInt(len([1 for ev in I.ghost['T'] if ev[0] == 'hole' and ev[1] == kk]))

    def holes_here(I, a, k, n):
        """executions of the hole by THIS function (a macro body lives in another function of the
        module; not observable from outside, so the concrete harness has no version of it)"""
        return holes(I, a, k, n)

    def trace(I, a, k, n):
        """trace('e3','h1',...): the evaluations and hole executions happened exactly in this
        order (other event kinds are ignored)"""
        want = [_ev_key(_c(x)) for x in a]
        got = [(ev[0], ev[1]) for ev in I.ghost['T'] if ev[0] in ('eval', 'hole')]
        return VBool(want == got)

    def raised(I, a, k, n):
        """raised('e3') / raised('h1'): did (the last occurrence of) that probe/hole raise"""
        kind, num = _ev_key(_c(a[0]))
        d = I.ghost['probe_raised'] if kind == 'eval' else I.ghost['hole_raised']
        xs = d.get(num, [])
        return VBool(bool(xs) and xs[-1])

    def exc_in(I, a, k, n):
        """exc_in('e1', 'AttributeError', ...): the exception raised by (the last occurrence of)
        that probe/hole is an instance of one of the named builtin classes"""
        import builtins
        kind, num = _ev_key(_c(a[0]))
        d = I.ghost.get('probe_exc' if kind == 'eval' else 'hole_exc', {})
        xs = d.get(num, [])
        if not xs:
            return VBool(False)
        classes = [getattr(builtins, _c(x)) for x in a[1:]]
        return VBool(models.sym_exc_isinstance(xs[-1], classes))

    def iter_S0(I, a, k, n):
        """the stream text at the start of the (arbitrary) loop iteration under its step contract"""
        return VStr(I.ghost['iter_S0'])

    def iter_item(I, a, k, n):
        """iter_item(j): the j-th component of the loop target in that iteration"""
        return I.ghost['iter_items'][_c(a[0])]

    def loop_failed(I, a, k, n):
        """an abstracted loop of the emitted code raised"""
        return VBool(bool(I.ghost.get('loop_failed')))

    def repeat_kept(I, a, k, n):
        """repeat_kept('i'): every child executed so far left the repeat dictionary's entry for
        that name as it found it (so repeat['i'] still describes the enclosing loop)"""
        xs = I.ghost.get('repeat_kept', {}).get(_c(a[0]), [])
        return VBool(z3.And(xs) if xs else z3.BoolVal(True))

    def repeat_restored(I, a, k, n):
        """repeat_restored('i'): if the repeat dictionary had an entry for the key when the
        schema started, it has the same entry now"""
        key = _c(a[0])
        rm, rm0 = I.ghost.get('repeat_map', {}), I.ghost.get('repeat_map0', {})
        if key not in rm:
            return VBool(True)           # never touched
        if key in rm0:
            return VBool(True) if rm0[key] is None else VBool(rm[key] == rm0[key])
        # overwritten without having been read: whatever was there is lost
        absent0 = z3.Bool(fresh_name('repeat_entry0_absent'))
        return VBool(z3.Or(absent0, rm[key] == z3.Int(fresh_name('repeat_item0'))))

    def repeat_failed(I, a, k, n):
        """the operand of tal:repeat could not be iterated (list() raised)"""
        return VBool(bool(I.ghost.get('repeat_failed')))

    def exc_is_exception(I, a, k, n):
        exc = I.ghost.get('raised_exc')
        if exc is None:
            return VBool(False)
        return VBool(models.sym_exc_isinstance(exc, [Exception]))

    def quoted(I, a, k, n):
        f = z3.Function('k2_quote', Val, Val, Val, Val, Val, Val)
        return VAny(f(*[to_any(x).t for x in a]))

    def converted(I, a, k, n):
        f = z3.Function('k2_convert', Val, Val)
        return VAny(f(to_any(a[0]).t))

    def visible(I, a, k, n):
        present, value = scope_visible(I.ghost['econtext'], a[0])
        return _bound_value(present, value)

    def UNBOUND(I, a, k, n):
        return VConc(UNBOUND_OBJ)

    def visible0(I, a, k, n):
        lh, lv, rh, rv = I.ghost['E0']
        kt = models.strterm(a[0])
        present = z3.Or(z3.Select(lh, kt), z3.Select(rh, kt))
        value = z3.If(z3.Select(lh, kt), z3.Select(lv, kt), z3.Select(rv, kt))
        return _bound_value(present, value)

    def visible_at(I, a, k, n):
        """visible_at('e11'|'h1', 'name'): binding of `name` when that probe was (last) evaluated
        / that hole was (last) entered"""
        kind, nn = _ev_key(_c(a[0]))
        evs = [ev for ev in I.ghost['T'] if ev[0] == kind and ev[1] == nn]
        if not evs:
            return fresh(ANY, 'unevaluated')
        lh, lv, rh, rv = evs[-1][3]
        kt = models.strterm(a[1])
        present = z3.Or(z3.Select(lh, kt), z3.Select(rh, kt))
        value = z3.If(z3.Select(lh, kt), z3.Select(lv, kt), z3.Select(rv, kt))
        return _bound_value(present, value)

    def DEFAULT(I, a, k, n):
        return I.env.get('_DEFAULT_MARKER') or I.vc.lookup_global(I, '_DEFAULT_MARKER')

    def local(I, a, k, n):
        """local('____index'): the generated local whose name starts with this prefix"""
        pre = _c(a[0])
        ms = [nm for nm in I.env if nm.startswith(pre)]
        if len(ms) != 1:
            raise Unsupported('local(%r): %d candidates' % (pre, len(ms)))
        return I.env[ms[0]]

    def rlen(I, a, k, n):
        kk = _c(a[0]) if a else 0
        return VInt(I.ghost['repeats'][kk][1].n)

    def ritem(I, a, k, n):
        """ritem(i[, k]): i-th item of the k-th repeat's materialised iterable"""
        kk = _c(a[1]) if len(a) > 1 else 0
        return VAny(I.ghost['repeats'][kk][1].item(models.as_int(a[0])))

    def acc(I, a, k, n):
        f = z3.Function('acc', z3.IntSort(), z3.StringSort())
        return VStr(f(models.as_int(a[0])))

    def out_at(I, a, k, n):
        f = z3.Function('out!%d' % _c(a[0]), z3.IntSort(), z3.StringSort())
        return VStr(f(models.as_int(a[1])))

    def scope_frame(I, a, k, n):
        """every name other than the listed ones, and other than names a hole defines globally,
        is bound exactly as at entry (both layers)"""
        names = [_c(x) for x in a] + ['error']     # HoleC: a child may leave `error` bound
        lh, lv, rh, rv = I.ghost['E0']
        ec = I.ghost['econtext']
        lo, ro = ec.fields['local'], ec.fields['root']
        kq = z3.String(fresh_name('kf'))
        excl = [kq == z3.StringVal(nm) for nm in names]
        for hk in sorted({ev[1] for ev in I.ghost['T'] if ev[0] == 'hole'} | set(I.ghost.get('all_holes', []))):
            excl.append(z3.Function('gdef!%d' % hk, z3.StringSort(), z3.BoolSort())(kq))
        same = z3.And(z3.Select(lo.has, kq) == z3.Select(lh, kq),
                      z3.Select(lo.val, kq) == z3.Select(lv, kq),
                      z3.Select(ro.has, kq) == z3.Select(rh, kq),
                      z3.Select(ro.val, kq) == z3.Select(rv, kq))
        return VBool(z3.ForAll([kq], z3.Implies(z3.Not(z3.Or(excl + [z3.BoolVal(False)])), same)))

    def translate_arg(I, a, k, n):
        """translate_arg(i, 'msgid'|'mapping'|'default'|'domain'|'context'|'target_language')"""
        i, nm = _c(a[0]), _c(a[1])
        calls = I.ghost['translates']
        if i >= len(calls):
            return fresh(ANY, 'no_such_translate_call')
        args, kwargs, r = calls[i]
        if nm == 'msgid':
            return args[0]
        return kwargs.get(nm, NONE)

    def translate_result(I, a, k, n):
        i = _c(a[0])
        calls = I.ghost['translates']
        return calls[i][2] if i < len(calls) else fresh(ANY, 'no_such_translate_call')

    def normalize(I, a, k, n):
        """the message-id normalisation: whitespace collapsed, then trimmed"""
        return models.str_method(I, collapse_ws(a[0], I).t, 'strip', [], {})

    def i18n0(I, a, k, n):
        d, c, t = I.ghost['i18n0']
        return {'domain': d, 'context': c, 'target_language': t}[_c(a[0])]

    def i18n_now(I, a, k, n):
        nm = {'domain': '__i18n_domain', 'context': '__i18n_context',
              'target_language': 'target_language'}[_c(a[0])]
        return I.env[nm]

    def i18n_at(I, a, k, n):
        kind, nn = _ev_key(_c(a[0]))
        evs = [ev for ev in I.ghost['T'] if ev[0] == kind and ev[1] == nn]
        if not evs or kind != 'hole':
            return fresh(ANY, 'no_such_event')
        d, c, t = evs[-1][4]
        return {'domain': d, 'context': c, 'target_language': t}[_c(a[1])]

    def ext_count(I, a, k, n):
        return VInt(len(I.ghost.get('extcalls', [])))

    def _ext(I, i):
        xs = I.ghost.get('extcalls', [])
        return xs[i] if i < len(xs) else None

    def ext_raised(I, a, k, n):
        x = _ext(I, _c(a[0]))
        return VBool(bool(x and x.get('raised')))

    def ext_callee(I, a, k, n):
        x = _ext(I, _c(a[0]))
        return x['callee'] if x else fresh(ANY, 'no_such_call')

    def ext_result(I, a, k, n):
        x = _ext(I, _c(a[0]))
        return x.get('result', fresh(ANY, 'no_result')) if x else fresh(ANY, 'no_such_call')

    def ext_arg(I, a, k, n):
        x = _ext(I, _c(a[0]))
        j = _c(a[1])
        if not x or j >= len(x['args']):
            return fresh(ANY, 'no_such_arg')
        return x['args'][j]

    def ext_nargs(I, a, k, n):
        """number of positional / keyword arguments of the i-th macro / filler call: ext_nargs(i) ==
        positional count, ext_nargs(i, 'kw') == keyword count"""
        x = _ext(I, _c(a[0]))
        if not x:
            return VInt(-1)
        return VInt(len(x['kwargs']) if len(a) > 1 else len(x['args']))

    def ext_out(I, a, k, n):
        x = _ext(I, _c(a[0]))
        return VStr(x['out']) if x and 'out' in x else VStr(z3.String(fresh_name('no_out')))

    def ext_token(I, a, k, n):
        """value of __token when the k-th external call was made"""
        x = _ext(I, _c(a[0]))
        return x['token'] if x else fresh(ANY, 'no_such_call')

    def ext_last(I, a, k, n):
        return VInt(len(I.ghost.get('extcalls', [])) - 1)

    def ext_i18n(I, a, k, n):
        x = _ext(I, _c(a[0]))
        d, c, t = x['i18n'] if x else I.ghost['i18n0']
        return {'domain': d, 'context': c, 'target_language': t}[_c(a[1])]

    def is_stream(I, a, k, n):
        return VBool(a[0] is I.ghost['stream'])

    def is_rcontext(I, a, k, n):
        return VBool(a[0] is I.ghost['rcontext'])

    def is_scope_copy(I, a, k, n):
        """the argument is a fresh copy of the caller's scope (never the scope itself)"""
        v = a[0]
        return VBool(isinstance(v, VRec) and v.cls == SCOPE and v is not I.ghost['econtext']
                     and v.fields.get('copy_of') is I.ghost['econtext'])

    def scope_arg_visible(I, a, k, n):
        """binding of a name in a Scope object that was passed as an argument"""
        if not isinstance(a[0], VRec):
            return fresh(ANY, 'no_such_scope_argument')     # the call did not happen on this path
        present, value = scope_visible(a[0], a[1])
        return _bound_value(present, value)

    def chain_len(I, a, k, n):
        """number of fillers in a slot chain the schema itself created (`_deque((f,))`, then appendleft);
        unknown (a fresh integer) for any other value"""
        from .values import _conc_ids
        t = z3.simplify(to_any(a[0]).t)
        for key, (oid, obj) in _conc_ids.items():
            if isinstance(obj, VRec) and obj.cls == 'k3::deque' and t.eq(z3.simplify(to_any(obj).t)):
                items = obj.fields['items']
                return VInt(len(items.items) if hasattr(items, 'items') else 1)
        return fresh(Ty('int'), 'chain_len_unknown')

    def attr_of(I, a, k, n):
        f = z3.Function('attr_' + _c(a[1]), Val, Val)
        return VAny(f(to_any(a[0]).t))

    def module_function(I, a, k, n):
        return I.ghost.get('module_functions', {}).get(_c(a[0]), fresh(ANY, 'no_such_function'))

    def globals_visible(I, a, k, n):
        """every entry of the render-wide context is visible in the scope with that value
        (names listed as arguments excepted)"""
        names = [_c(x) for x in a]
        m = I.ghost['rcontext'].fields['m']
        ec = I.ghost['econtext']
        kq = z3.String(fresh_name('kg'))
        present, value = scope_visible(ec, VStr(kq))
        excl = [kq == z3.StringVal(nm) for nm in names]
        return VBool(z3.ForAll([kq], z3.Implies(
            z3.And(z3.Select(m.has, kq), z3.Not(z3.Or(excl + [z3.BoolVal(False)]))),
            z3.And(present, value == z3.Select(m.val, kq)))))

    def template_pos(I, a, k, n):
        return VInt(I.vc.c.ghost['template'].index(_c(a[0])))

    def template_rpos(I, a, k, n):
        return VInt(I.vc.c.ghost['template'].rindex(_c(a[0])))

    def token_now(I, a, k, n):
        return I.env.get('__token', NONE)

    def in_local(I, a, k, n):
        lo = I.ghost['econtext'].fields['local']
        return VBool(z3.Select(lo.has, models.strterm(a[0])))

    def in_globals(I, a, k, n):
        m = I.ghost['rcontext'].fields['m']
        return VBool(z3.Select(m.has, models.strterm(a[0])))

    def global_now(I, a, k, n):
        m = I.ghost['rcontext'].fields['m']
        kt = models.strterm(a[0])
        return _bound_value(z3.Select(m.has, kt), z3.Select(m.val, kt))

    def handler_calls(I, a, k, n):
        return VInt(len(I.ghost['handler_calls']))

    def handler_configured(I, a, k, n):
        return VBool(z3.Not(Val.is_none(I.ghost['handler'].t)))

    def translate_calls(I, a, k, n):
        return VInt(len(I.ghost['translates']))

    def quote_calls(I, a, k, n):
        return VInt(len(I.ghost['quotes']))

    def errorinfo_of(I, a, k, n):
        """the ErrorInfo object built for the handled exception (k-th construction)"""
        kk = _c(a[0]) if a else 0
        es = I.ghost['errorinfo']
        return es[kk][1] if kk < len(es) else fresh(ANY, 'no_errorinfo')

    def token_at_eval(I, a, k, n):
        """value of __token when probe eN was evaluated (last evaluation; token_at_eval(N, j): the
        j-th evaluation)"""
        nn = _c(a[0])
        evs = [ev for ev in I.ghost['T'] if ev[0] == 'eval' and ev[1] == nn]
        if len(a) > 1:
            j = _c(a[1])
            return evs[j][2] if j < len(evs) else NONE
        return evs[-1][2] if evs else NONE

    def token_pos(I, a, k, n):
        """source position recorded in the token table for the expression text eN (token_pos(N, j):
        for its j-th occurrence in the template, in document order)"""
        name = 'e%d' % _c(a[0])
        # the token of the expression occurrence that contains this probe (for `a | b` and
        # prefixed expressions that is the whole TALES expression)
        ps = sorted(p for p, (txt, ln, col) in I.ghost['tokens'].items()
                    if re.search(r'\b%s\b' % name, txt))
        if len(a) > 1:
            j = _c(a[1])
            return VInt(ps[j]) if j < len(ps) else VInt(-1)
        return VInt(ps[0]) if len(ps) == 1 else VInt(-1)

    return {f.__name__: (lambda I, a, k, n, f=f: f(I, a, k, n)) for f in
            (S, S0, piece, out, val, evals, holes, trace, raised, exc_in, exc_is_exception, quoted,
             converted, visible, UNBOUND, visible0, visible_at, DEFAULT, local, rlen, ritem, acc, out_at,
             scope_frame, template_pos, template_rpos, token_now, ext_count, ext_token, ext_last, ext_raised, ext_callee, ext_result, ext_arg, ext_out, ext_i18n, is_stream,
             is_rcontext, is_scope_copy, scope_arg_visible, attr_of, module_function, globals_visible,
             in_local, translate_arg, translate_result, normalize, i18n0,
             holes_here, repeat_failed, repeat_kept, repeat_restored, loop_failed, iter_S0, iter_item, chain_len, i18n_now, i18n_at, global_now, in_globals, ext_nargs, handler_calls, handler_configured,
             translate_calls, quote_calls, errorinfo_of, token_at_eval, token_pos)}


def k3_entry(em, spec):
    def entry(I, env_):
        st = K3State(I, em, spec)
        I.ghost['k3'] = st
        env_.update(st.env())
        # prologue assignments the hand-built environment does not know (a local the compiler
        # started to emit): executed as written; what cannot be evaluated is an opaque value
        saved = getattr(I, 'env', None)
        I.env = env_
        try:
            for s in em.prologue:
                if isinstance(s, ast.Assign) and len(s.targets) == 1 and \
                        isinstance(s.targets[0], ast.Name) and s.targets[0].id not in env_:
                    nm = s.targets[0].id
                    try:
                        I.exec_stmt(s)
                    except (Unsupported, Raised):
                        env_[nm] = fresh(ANY, 'prologue_' + nm.strip('_'))
        finally:
            I.env = saved
    return entry


_compiled_cache = {}


def get_compiled(schemas):
    """compile (once per check run: the parent process writes VERIF_K3_CACHE)"""
    key = json.dumps(schemas, sort_keys=True)
    if key in _compiled_cache:
        return _compiled_cache[key]
    cache = os.environ.get('VERIF_K3_CACHE')
    data = None
    if cache and os.path.exists(cache):
        try:
            allc = json.load(open(cache))
            if all(s['id'] in allc for s in schemas):
                data = {s['id']: allc[s['id']] for s in schemas}
        except Exception:
            data = None
    if data is None:
        data = compile_schemas(schemas)
        if cache:
            try:
                allc = json.load(open(cache)) if os.path.exists(cache) else {}
                allc.update(data)
                tmp = cache + '.%d' % os.getpid()
                json.dump(allc, open(tmp, 'w'))
                os.replace(tmp, cache)
            except Exception:
                pass
    _compiled_cache[key] = data
    return data


def schema_contracts(specs):
    """specs: list of dict(id, text, cls?, options?, ensures, raises?, loops?, own_names?,
    serves, fname?) -> list of Contract (compile errors become contracts that are undecided)"""
    schemas = [{'id': s['id'], 'text': s['text'], 'cls': s.get('cls', 'PageTemplate'),
                'options': s.get('options', {})} for s in specs]
    compiled = get_compiled(schemas)
    out = []
    for s in specs:
        r = compiled[s['id']]
        if 'source' not in r:
            exp = s.get('expect_error')
            static = []
            wit = {'template': s['text'], 'options': s.get('options', {}),
                   'compile_result': {k: v for k, v in r.items() if k != 'trace'}}
            if exp is None:
                static.append(('%s.compiles' % s['id'], False, 'the schema template compiles', wit))
            else:
                tok = r.get('token') or {}
                want_pos = s['text'].index(exp['token'])
                static += [
                    ('%s.rejected.class' % s['id'], exp['class'] in r.get('mro', []) and
                     'TemplateError' in r.get('mro', []),
                     'compilation raises %s (a TemplateError)' % exp['class'], wit),
                    ('%s.rejected.token' % s['id'], tok.get('s') == exp['token'],
                     'the error token is %r' % exp['token'], wit),
                    ('%s.rejected.offset' % s['id'], tok.get('pos') == want_pos and
                     bool(tok.get('source_is_body')),
                     'source[offset:offset+len(token)] is the offending text (offset %d)' % want_pos, wit),
                ]
            c = Contract('k3::%s' % s['id'], params={}, source=('def schema():\n    pass\n', 'schema'),
                         kind='K3', serves=s.get('serves', []),
                         ghost={'compile_error': r, 'template': s['text'], 'static_checks': static,
                                'k3_static_only': True})
            out.append(c)
            continue
        if s.get('expect_error'):
            c = Contract('k3::%s' % s['id'], params={}, source=('def schema():\n    pass\n', 'schema'),
                         kind='K3', serves=s.get('serves', []),
                         ghost={'template': s['text'], 'k3_static_only': True, 'static_checks': [
                             ('%s.rejected.class' % s['id'], False,
                              'compilation raises %s' % s['expect_error']['class'],
                              {'template': s['text'], 'options': s.get('options', {}),
                               'observed': 'compiled without error'})]})
            out.append(c)
            continue
        if s.get('bounded_only'):
            # the emitted code is outside the symbolic executor's reach (e.g. a comprehension over a
            # dynamic value): the schema contract is evaluated on the real pipeline over its catalogue
            # only -- a bounded stand-in, labelled as such and never counted as proved
            c = Contract('k3::%s' % s['id'], params={}, source=('def schema():\n    pass\n', 'schema'),
                         kind='K3', ensures=s.get('ensures', []), raises=s.get('raises', {}),
                         serves=s.get('serves', []),
                         ghost={'template': s['text'], 'k3_static_only': True, 'k3_bounded_only': True,
                                'options': s.get('options', {}), 'spec': s,
                                'static_checks': [('%s.compiles' % s['id'], True, 'the schema template compiles',
                                                   {'template': s['text']})]})
            out.append(c)
            continue
        if s.get('static_only'):
            c = Contract('k3::%s' % s['id'], params={}, source=('def schema():\n    pass\n', 'schema'),
                         kind='K3', serves=s.get('serves', []),
                         ghost={'template': s['text'], 'k3_static_only': True, 'static_checks': [
                             ('%s.compiles' % s['id'], True, 'the schema template compiles',
                              {'template': s['text']})]})
            out.append(c)
            continue
        em = Emitted(r['source'], s.get('fname', 'render'))
        # C12: whenever an expression is evaluated, __token is the position of exactly that
        # expression's text (so a failure is reported against the right expression)
        probes = sorted({int(m) for m in re.findall(r'\be(\d+)\b', s['text'])})
        tok = []
        for n in probes:
            cnt = len(re.findall(r'\be%d\b' % n, s['text']))
            if cnt == 1:
                tok.append("evals(%d) == 0 or token_at_eval(%d) == token_pos(%d)" % (n, n, n))
            else:
                # the same expression text written several times (evaluated in document order): every
                # evaluation is announced with the position of ITS OWN occurrence
                tok += ["evals(%d) <= %d or token_at_eval(%d, %d) == token_pos(%d, %d)" % (n, j, n, j, n, j)
                        for j in range(cnt)]
        if s.get('no_token_posts'):
            tok = []
        s = dict(s, ensures=list(s.get('ensures', [])) + tok)
        rz = {k: dict(v, ensures=list(v.get('ensures', [])) + tok) for k, v in s.get('raises', {}).items()}
        if '*' not in rz:
            rz['*'] = {'ensures': ["False"] + tok} if not probes and '__hole__' not in s['text'] \
                else {'ensures': tok}
        s['raises'] = rz
        static = []
        for pos, (txt, ln, col) in sorted(em.tokens.items()):
            src = s['text']
            if not src.startswith('<?xml') and s.get('cls', 'PageTemplate') == 'PageTemplate':
                # positions count characters of the document as it is parsed: in non-XML mode CR LF and a
                # lone CR are ONE line break (lines and columns are those of the file as an editor shows it)
                src = src.replace('\r\n', '\n').replace('\r', '\n')
            ok = src[pos:pos + len(txt)] == txt
            before = src[:pos]
            ok_lc = (ln == before.count('\n') + 1) and (col == pos - (before.rfind('\n') + 1))
            static.append(('%s.token_table[%d].anchored' % (s['id'], pos), ok,
                           'source[%d:%d] == %r' % (pos, pos + len(txt), txt),
                           {'template': src, 'entry': [pos, txt, ln, col], 'source_slice': src[pos:pos + len(txt)]}))
            static.append(('%s.token_table[%d].line_col' % (s['id'], pos), ok_lc,
                           'line/column %d:%d belong to offset %d' % (ln, col, pos),
                           {'template': src, 'entry': [pos, txt, ln, col]}))
        # MacroC (what a caller may assume of a render function that raises): the function-level
        # exception handler only records the failing site -- it never removes or replaces what is
        # already on the caller's stream (an enclosing tal:on-error cuts the stream back to ITS mark)
        bad = []
        for fname_, fdef in em.functions.items():
            for t in [x for x in fdef.body if isinstance(x, ast.Try)]:
                for h in t.handlers:
                    for n in ast.walk(ast.Module(body=h.body, type_ignores=[])):
                        if isinstance(n, ast.Delete) and any('__stream' in ast.unparse(x) for x in n.targets):
                            bad.append('%s: %s' % (fname_, ast.unparse(n)))
                        if isinstance(n, ast.Assign) and any('__stream' in ast.unparse(x) for x in n.targets):
                            bad.append('%s: %s' % (fname_, ast.unparse(n)))
                        if isinstance(n, ast.Call) and isinstance(n.func, ast.Attribute) and \
                                '__stream' in ast.unparse(n.func.value) and \
                                n.func.attr in ('clear', 'pop', 'remove', 'insert', 'reverse', 'sort', '__delitem__',
                                                '__setitem__'):
                            bad.append('%s: %s' % (fname_, ast.unparse(n)))
        # "evaluated exactly once per reach": a module-level constant of a MUTABLE type is shared by all
        # reaches, renders and threads; it may only serve as the read-only static attribute dictionary
        # (`__attrs_*`) or as the right operand of a membership test
        shared = []
        mut = {nm for nm, node in em.statics.items()
               if isinstance(node, (ast.List, ast.Dict, ast.Set, ast.ListComp, ast.DictComp, ast.SetComp))}
        if mut:
            for fname_, fdef in em.functions.items():
                par = {}
                for n in ast.walk(fdef):
                    for ch in ast.iter_child_nodes(n):
                        par[ch] = n
                for n in ast.walk(fdef):
                    if isinstance(n, ast.Name) and n.id in mut and isinstance(n.ctx, ast.Load):
                        p_ = par.get(n)
                        ok_ = (isinstance(p_, ast.Assign) and all(isinstance(t, ast.Name) and t.id.startswith('__attrs_')
                                                                  for t in p_.targets)) or \
                              (isinstance(p_, ast.Compare) and n in p_.comparators and
                               all(isinstance(o, (ast.In, ast.NotIn)) for o in p_.ops))
                        if not ok_:
                            shared.append('%s: %s' % (fname_, ast.unparse(p_) if p_ is not None else n.id))
        # every position the emitted code announces (`__token = N`) has an entry in the token table:
        # the function-level handler reads __tokens[__token] before re-raising
        missing_tok = []
        for fname_, fdef in em.functions.items():
            for n in ast.walk(fdef):
                if isinstance(n, ast.Assign) and len(n.targets) == 1 and isinstance(n.targets[0], ast.Name) \
                        and n.targets[0].id == '__token' and isinstance(n.value, ast.Constant) \
                        and isinstance(n.value.value, int) and n.value.value not in em.tokens:
                    missing_tok.append('%s: __token = %d' % (fname_, n.value.value))
        static.append(('%s.token_table.complete' % s['id'], not missing_tok,
                       'every source position the emitted code announces has an entry in the token table',
                       {'template': s['text'], 'announced_without_entry': missing_tok,
                        'table_keys': sorted(em.tokens)}))
        # slot protocol: the filler of a slot is taken (popped) by the ONE function whose source
        # contains the define-slot; any other function popping it would throw the caller's filler away
        takers = {}
        for fname_, fdef in em.functions.items():
            for n in ast.walk(fdef):
                if isinstance(n, ast.Name) and isinstance(n.ctx, ast.Store) and n.id.startswith('__slot_'):
                    takers.setdefault(n.id, set()).add(fname_)
        multi = {k_: sorted(v_) for k_, v_ in takers.items() if len(v_) > 1}
        # C09: "every define-slot region of a given NAME": distinct slot names stay distinct in the emitted
        # code (their fillers travel under one variable / scope key per name)
        slot_names = set(re.findall(r'metal:define-slot="([^"]+)"', s['text']))
        slot_vars = {n.id for fd_ in em.functions.values() for n in ast.walk(fd_)
                     if isinstance(n, ast.Name) and isinstance(n.ctx, ast.Store) and n.id.startswith('__slot_')}
        static.append(('%s.slot_names_distinct' % s['id'], len(slot_vars) == len(slot_names),
                       'the %d distinct define-slot names of the template have %d distinct filler variables'
                       % (len(slot_names), len(slot_names)),
                       {'template': s['text'], 'slot_names': sorted(slot_names), 'filler_variables': sorted(slot_vars)}))
        static.append(('%s.slot_taken_once' % s['id'], not multi,
                       'every `__slot_<name>` filler is popped by exactly one render function of the module',
                       {'template': s['text'], 'slots_popped_by_several_functions': multi}))
        static.append(('%s.no_shared_mutable_constants' % s['id'], not shared,
                       'no list / dict / set built once per compiled module is handed to an expression or a '
                       'variable (each reach of a literal display builds a new object)',
                       {'template': s['text'], 'uses': shared}))
        # C12: "followed by the enclosing template/macro call sites from innermost to outermost": every
        # render function's handler APPENDS its record to rcontext['__error__'] (the innermost function
        # handles first) and re-raises the exception as it is
        badh = []
        for fname_, fdef in em.functions.items():
            for t in [x for x in fdef.body if isinstance(x, ast.Try)][-1:]:
                for h in t.handlers:
                    recs = [n for n in ast.walk(ast.Module(body=h.body, type_ignores=[]))
                            if isinstance(n, ast.Call) and isinstance(n.func, ast.Attribute)
                            and "'__error__'" in ast.unparse(n.func.value)]
                    ok_ = (len(recs) == 1 and recs[0].func.attr == 'append'
                           and ast.unparse(recs[0].func.value) == "rcontext.setdefault('__error__', [])"
                           and isinstance(h.body[-1], ast.Raise) and h.body[-1].exc is None)
                    if not ok_:
                        badh.append('%s: %s' % (fname_, ast.unparse(h)[:200]))
        # C05/C09: every emitted function that receives a scope (`econtext` parameter: render functions,
        # macro bodies, slot fillers) resolves names through THAT scope -- the lookup helpers `get` /
        # `getname` it uses are bound from its own econtext, never inherited from the enclosing function
        # through the Python closure (a filler runs with the macro's copy of the scope, not with the
        # scope of the template that wrote it)
        inherited = []

        def own_nodes(fd):
            stack = list(fd.body)
            while stack:
                n_ = stack.pop()
                yield n_
                for ch in ast.iter_child_nodes(n_):
                    if not isinstance(ch, (ast.FunctionDef, ast.Lambda)):
                        stack.append(ch)
        for fd in ast.walk(ast.parse(em.source)):
            if isinstance(fd, ast.FunctionDef) and 'econtext' in [a_.arg for a_ in fd.args.args]:
                loads = {n_.id for n_ in own_nodes(fd) if isinstance(n_, ast.Name) and isinstance(n_.ctx, ast.Load)}
                stores = {n_.id for n_ in own_nodes(fd) if isinstance(n_, ast.Name) and isinstance(n_.ctx, ast.Store)}
                for nm_ in ('get', 'getname'):
                    if nm_ in loads and nm_ not in stores:
                        inherited.append('%s reads `%s` without binding it from its own econtext' % (fd.name, nm_))
            # ... and (C09/C10/C13) every emitted function that receives an output stream writes to
            # THAT stream: the append helpers it calls are bound in the function itself (from its own
            # `__stream` or a sub-stream it creates), never inherited through the closure -- a slot
            # filler is called with the stream of the place of the slot, which may be a translation
            # block's private list
            if isinstance(fd, ast.FunctionDef) and '__stream' in [a_.arg for a_ in fd.args.args]:
                loads = {n_.id for n_ in own_nodes(fd) if isinstance(n_, ast.Name) and isinstance(n_.ctx, ast.Load)}
                stores = {n_.id for n_ in own_nodes(fd) if isinstance(n_, ast.Name) and isinstance(n_.ctx, ast.Store)}
                for nm_ in sorted(loads):
                    if (nm_ == '__append' or nm_.startswith('__append_') or nm_.startswith('__stream_')) \
                            and nm_ not in stores:
                        inherited.append('%s uses `%s` without binding it from its own stream' % (fd.name, nm_))
        # C10 (the linking condition behind B.33): `__quote` / `__convert` read the i18n settings
        # (`__i18n_domain`, `__i18n_context`, `target_language`) as FREE variables.  Every emitted function
        # that has those settings as its own parameters - render functions, macro bodies, slot fillers -
        # and inserts a value must therefore define the two helpers itself; a helper inherited through
        # the closure translates with the settings of the function it was defined in
        i18n_inherited = []
        for fd in ast.walk(ast.parse(em.source)):
            if isinstance(fd, ast.FunctionDef) and '__i18n_domain' in [a_.arg for a_ in fd.args.args]:
                loads = {n_.id for n_ in own_nodes(fd) if isinstance(n_, ast.Name) and isinstance(n_.ctx, ast.Load)}
                defined = {x.name for x in fd.body if isinstance(x, ast.FunctionDef)}
                for nm_ in ('__quote', '__convert'):
                    if nm_ in loads and nm_ not in defined:
                        i18n_inherited.append('%s calls `%s` of an enclosing function (which reads THAT '
                                              "function's i18n settings)" % (fd.name, nm_))
        static.append(('%s.i18n_helpers_local' % s['id'], not i18n_inherited,
                       'every emitted function that takes the i18n settings as parameters defines the '
                       'conversion helpers it calls (__quote, __convert) itself, so that an inserted value '
                       'is translated with the settings in force where it is inserted',
                       {'template': s['text'], 'functions': i18n_inherited}))
        static.append(('%s.scope_helpers_local' % s['id'], not inherited,
                       'every emitted function binds the lookup helpers it uses (get, getname) from its own '
                       'econtext and the append helpers from its own stream', {'template': s['text'], 'functions': inherited}))
        static.append(('%s.handler.appends_record' % s['id'], not badh,
                       "the handler of every emitted render function appends one record to "
                       "rcontext['__error__'] and re-raises (records are ordered innermost first)",
                       {'template': s['text'], 'handlers': badh}))
        static.append(('%s.handler.stream_frame' % s['id'], not bad,
                       'the exception handler of every emitted render function leaves the output stream '
                       'as it is (modifies nothing of __stream)', {'template': s['text'], 'statements': bad}))
        c = Contract('k3::%s' % s['id'], params={}, source=(em.schema_text(), 'schema'),
                     kind='K3', ensures=s.get('ensures', []), raises=s.get('raises', {}),
                     loops=s.get('loops', {}), serves=s.get('serves', []),
                     ghost={'entry': k3_entry(em, s), 'template': s['text'], 'emitted': em,
                            'k3': True, 'options': s.get('options', {}), 'spec': s,
                            'static_checks': static,
                            'replay_kind': s.get('replay_kind')},
                     notes=s.get('notes', ''), max_paths=s.get('max_paths'))
        out.append(c)
    return out
