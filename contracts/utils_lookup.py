"""utils.lookup_attr (C04): "attribute access falling back to item lookup".

The object is opaque: fetching an attribute, fetching `__getitem__` and calling it are events of a
ghost trace that may raise.  Property-derived postconditions: the attribute is tried first and
exactly once; the item lookup happens only after the attribute fetch raised AttributeError, at
most once, with the same key; the result is whichever succeeded; when both fail the
AttributeError of the attribute fetch is what propagates, and any other exception propagates as
raised."""
from pyvc.vc import Contract

CONTRACTS = []

EXT = {
    'getattr': {'result': 'any', 'raises_any': True},
    'get': {'result': 'any', 'raises_any': True, 'as': 'item'},
}
ITEM_ONLY_AFTER = ("ext_index('item') == -1 or (ext_raised_in('getattr') and raised_is('getattr', 'AttributeError') "
                   "and ext_index('item') > ext_index('attr:__getitem__') > ext_index('getattr') "
                   "and ext_index('item', 1) == -1 and ext_call_arg('item', 0, 0) == key)")

CONTRACTS.append(Contract(
    "utils.py::lookup_attr", params={"obj": "any", "key": "str"},
    ensures=[
        # the attribute is tried first, exactly once, on this object with this name
        "ext_index('getattr') == 0 and ext_index('getattr', 1) == -1",
        "ext_call_arg('getattr', 0, 0) is obj and ext_call_arg('getattr', 0, 1) == key",
        "ext_index('subscr') == -1",
        # a successful attribute access is the answer and nothing else is consulted
        "ext_raised_in('getattr') or (result == ext_call_result('getattr', 0) and "
        "ext_index('item') == -1 and ext_index('attr:__getitem__') == -1)",
        # otherwise it was an AttributeError and the item lookup answered
        "not ext_raised_in('getattr') or (raised_is('getattr', 'AttributeError') and "
        "ext_index('item') != -1 and result == ext_call_result('item', 0))",
        ITEM_ONLY_AFTER,
    ],
    raises={'*': {'ensures': [
        "ext_index('getattr') == 0 and ext_index('getattr', 1) == -1",
        "ext_index('subscr') == -1",
        "ext_raised_in('getattr')",
        ITEM_ONLY_AFTER,
        # not a lookup failure of the attribute: propagates untouched, nothing else is tried
        "raised_is('getattr', 'AttributeError') or (exc is raised_by('getattr') and "
        "ext_index('attr:__getitem__') == -1 and ext_index('item') == -1)",
        # both lookups failed: the attribute's AttributeError is reported; any other failure of
        # the item lookup propagates as raised
        "not raised_is('getattr', 'AttributeError') or exc is raised_by('getattr') or "
        "(ext_raised_in('item') and exc is raised_by('item') and not raised_is('item', 'KeyError'))",
        # a failure of the item lookup that is not of a lookup type is never turned into the
        # AttributeError (a pipe would fall through where the property says it propagates)
        "not ext_raised_in('item') or raised_is('item', 'LookupError') or raised_is('item', 'TypeError') or "
        "raised_is('item', 'ValueError') or raised_is('item', 'AttributeError') or raised_is('item', 'NameError') "
        "or exc is raised_by('item')",
    ]}},
    result="any",
    ghost={'externals': EXT, 'opaque_attrs': ['__getitem__'], 'opaque_subscript': True,
           'harness': ('bounded.lookup_harness', 'lookup'),
           'search': {'generator': ('bounded.lookup_harness', 'gen_objects')}},
    serves=["C04"],
    notes="getattr / obj.__getitem__ / get(key) are events on an opaque object (any of them may raise "
          "anything); `type(obj)` is only ever compared with concrete classes"))
