"""Contracts for src/chameleon/tokenize.py (K1).

Top-level postconditions come from C11/C12 ("token, offset, line and column identify exactly
the offending substring: source[offset:offset+len(token)] equals the token") and C03 ("the
token stream concatenates back to the input with contiguous source positions"): every
operation that derives a token from a token must preserve `anchored`.
"""
from pyvc.vc import Contract

CONTRACTS = []


def C(*a, **k):
    c = Contract(*a, **k)
    CONTRACTS.append(c)
    return c


C("tokenize.py::Token.__getitem__",
  params={"self": "Token", "index": "slice"},
  requires=["index.start is None or (0 <= index.start and index.start <= len(self))"],
  ensures=["result.pos == self.pos + (0 if index.start is None else index.start)",
           "text(result) == text(self)[index]",
           "same_origin(result, self)",
           "not anchored(self) or anchored(result)"],
  result="Token", serves=["C11", "C12", "C03", "C06"],
  notes="negative starts are outside the precondition; call sites must establish it")

C("tokenize.py::Token.__add__",
  params={"self": "Token", "other": "opt[str]"},
  ensures=["result.pos == self.pos", "same_origin(result, self)",
           "text(result) == (text(self) if other is None else text(self) + other)"],
  result="Token", serves=["C11"])

C("tokenize.py::Token.replace",
  params={"self": "Token", "old": "str", "new": "str"},
  ensures=["result.pos == self.pos", "same_origin(result, self)",
           "text(result) == text(self).replace(old, new)"],
  result="Token", serves=["C11"])

C("tokenize.py::Token.lstrip",
  params={"self": "Token", "chars": "opt[str]"}, defaults={"chars": None},
  requires=["chars is None"],
  ensures=["same_origin(result, self)",
           "result.pos >= self.pos",
           "result.pos + len(result) == self.pos + len(self)",
           "text(result) == text(self).lstrip()",
           "not anchored(self) or anchored(result)"],
  result="Token", serves=["C11", "C12"],
  notes="chars=None (whitespace) is the only form used in the tree besides strip('()')")

C("tokenize.py::Token.rstrip",
  params={"self": "Token", "chars": "opt[str]"}, defaults={"chars": None},
  requires=["chars is None"],
  ensures=["same_origin(result, self)",
           "result.pos == self.pos",
           "len(result) <= len(self)",
           "text(result) == text(self).rstrip()",
           "not anchored(self) or anchored(result)"],
  result="Token", serves=["C11", "C12"])

C("tokenize.py::Token.strip",
  params={"self": "Token", "chars": "opt[str]"}, defaults={"chars": None},
  requires=["chars is None"],
  ensures=["same_origin(result, self)",
           "result.pos >= self.pos",
           "result.pos + len(result) <= self.pos + len(self)",
           "not anchored(self) or anchored(result)"],
  result="Token", serves=["C11", "C12"])

C("tokenize.py::Token.location",
  params={"self": "Token"}, is_property=True,
  requires=["self.source is None or (0 <= self.pos and self.pos <= len(self.source))"],
  ensures=[
      # no source: the documented fallback
      "self.source is not None or (result[0] == 0 and result[1] == self.pos)",
      # line = 1 + number of newlines before pos  (count is an uninterpreted function)
      "self.source is None or result[0] == 1 + self.source[:self.pos].count('\\n')",
      # column: distance to the start of the line, i.e. the text between is newline-free and
      # is preceded by a newline or the start of the source
      "self.source is None or (0 <= result[1] and result[1] <= self.pos)",
      "self.source is None or '\\n' not in self.source[:self.pos][self.pos - result[1]:]",
      "self.source is None or self.pos - result[1] == 0 "
      "or self.source[:self.pos][self.pos - result[1] - 1] == '\\n'",
  ],
  result="tuple[int,int]", serves=["C11", "C12"])
