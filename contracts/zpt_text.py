"""zpt/template.PageTextTemplateFile.render (C20, C17): "The file-based text template returns the
same text encoded to bytes with the template's encoding" -- the configured OUTPUT encoding
(`encoding`, UTF-8 when none is set), never the encoding the source file happened to be decoded
with (`content_encoding`: a byte-order-mark codec there would put a decoding artefact into the
output)."""
from pyvc.vc import Contract
from pyvc.values import REC_FIELDS

CONTRACTS = []
TF = "zpt/template.py::PageTextTemplateFile"
REC_FIELDS[TF] = {"encoding": "opt[str]", "content_encoding": "opt[str]", "default_encoding": "str"}
EXT = {'super().render': {'result': 'str', 'raises_any': True, 'as': 'render'}}

CONTRACTS.append(Contract(
    TF + ".render", params={"self": "rec[%s]" % TF, "vars": "any"},
    ensures=[
        # rendered once, with the caller's variables
        "ext_index('render') == 0 and ext_index('render', 1) == -1",
        "ext_call_kwarg('render', 0, '**') is vars",
        # the text, encoded with the template's encoding
        "result == ext_call_result('render', 0).encode(self.encoding or 'utf-8')",
    ],
    raises={'*': {'ensures': ["True"]}},
    result="bytes", serves=["C20", "C17"],
    ghost={'externals': EXT,
           'harness': ('bounded.text_harness', 'render_file'),
           'search': {'generator': ('bounded.text_harness', 'gen_files')}},
    notes="super().render is external (the text it returns is the subject of the K3 text-mode schemas); "
          "str.encode is an uninterpreted function of text and codec name (LookupError / UnicodeEncodeError "
          "of the codec are not modelled)"))
