"""utils._resolve_dotted (C04: the `import:` expression type resolves a dotted name to the object
it names).

The import system and the objects walked through are opaque: `__import__(x)` and
`getattr(obj, n)` are events of a ghost trace, each of which may raise anything.  The contract
is verified for dotted names of one, two and three components (the loop over the components is
unrolled on the fixed name; every behaviour of the events stays symbolic).  Property-derived
postconditions: the walk starts at the top-level package; every attribute is fetched from the
object found so far; the components are fetched in order, each exactly once successfully; the
answer is the object the LAST component names (never a package imported on the way)."""
from pyvc.vc import Contract

CONTRACTS = []
EXT = {
    '__import__': {'result': 'any', 'raises_any': True, 'as': 'import'},
    'getattr': {'result': 'any', 'raises_any': True},
}


def dotted(variant, name, parts):
    comps = name.split('.')
    ens = [
        "ext_index('import') == 0 and ext_call_arg('import', 0, 0) == %r" % comps[0],
        "ext_chain('getattr', 'import')",
        "ext_ok_args('getattr', 1) == %r" % (tuple(comps[1:]),),
    ]
    if len(comps) == 1:
        ens.append("result is ext_call_result('import', 0) and ext_index('getattr') == -1")
    else:
        ens.append("result is ext_last_ok('getattr')")
    CONTRACTS.append(Contract(
        "utils.py::_resolve_dotted@%s" % variant, params={"name": "str", "module": "none"},
        requires=["name == %r" % name],
        ensures=ens,
        raises={'*': {'ensures': ["ext_chain('getattr', 'import')"]}},
        result="any", serves=["C04"],
        ghost={'externals': EXT, 'fixed_params': {'name': name},
               'harness': ('bounded.dotted_harness', 'resolve'),
               'search': {'generator': ('bounded.dotted_harness', 'gen_names')}},
        notes="verified for the fixed name %r (%d component%s); __import__ and getattr are events on "
              "opaque objects" % (name, len(comps), '' if len(comps) == 1 else 's')))


dotted('1', 'pa', 1)
dotted('2', 'pa.qb', 2)
dotted('3', 'pa.qb.rc', 3)
