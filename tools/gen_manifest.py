#!/usr/bin/env python3
"""Regenerate /verif/MANIFEST.json from props.py (claimed checks) and properties.jsonl."""
import json
import os
import sys

VERIF = os.path.dirname(os.path.dirname(os.path.abspath(__file__)))
sys.path.insert(0, VERIF)
import props  # noqa

ids = [json.loads(l)['id'] for l in open(os.path.join(VERIF, 'properties.jsonl'))]
baseline_cmd = ("cd /repo && /venv/bin/python -m pytest -ra -q -p no:cacheprovider --timeout=900 "
                "--continue-on-collection-errors")
checks, na = [], []
for pid in ids:
    P = props.PROPS.get(pid)
    if not P or P.get('not_applicable'):
        na.append({"property_id": pid,
                   "reason": (P or {}).get('not_applicable', 'check not built yet (build in progress)')})
        continue
    checks.append({
        "property_id": pid,
        "quick_cmd": "./check %s --tier quick" % pid,
        "thorough_cmd": "./check %s --tier thorough" % pid,
        "evidence_file": "/verif/evidence/%s.json" % pid,
        "replay_cmd_template": "./check --replay {path}",
        "engine": "pyvc",
        "level_claimed": {"category": "proof", "text": P['level_text'],
                          "design_ref": P.get('design_ref', 'DESIGN.md section 6, ' + pid)},
        "level_note": P['level_note'],
        "technique": P['technique'],
    })
m = {
    "version": 1,
    "setup_cmd": "./check --setup",
    "hooks": {"guard": "MALTHE_CHAMELEON_VERIF",
              "enable": "no hooks are needed: contracts are sidecar files under /verif and the "
                        "verified text is re-extracted from /repo's working tree on every run",
              "baseline_off_cmd": baseline_cmd, "source_commits": [], "add_only": True},
    "engines": [{"name": "pyvc", "path": "/verif/pyvc",
                 "serves_properties": [c["property_id"] for c in checks],
                 "kind_free_text": "own VC generator: symbolic execution of the real Python source "
                                   "(and of code emitted by the real compiler) under sidecar "
                                   "contracts; obligations discharged by z3 5.1 / cvc5 1.0 processes"}],
    "checks": checks,
    "not_applicable": na,
    "notes": "See DESIGN.md. Exit codes of every check: 0 held, 1 VIOLATION, 2 undecided, 3 checker error.",
}
json.dump(m, open(os.path.join(VERIF, 'MANIFEST.json'), 'w'), indent=1)
print('checks: %d, not_applicable: %d' % (len(checks), len(na)))
