"""Check units for the bounded stand-ins (labelled `bounded`; never counted as discharged)."""
import json
import os
import subprocess
import time

VERIF = os.path.dirname(os.path.dirname(os.path.abspath(__file__)))
PY = os.environ.get('VERIF_PYTHON', '/venv/bin/python')
REPO = os.environ.get('VERIF_REPO', '/repo')


def _run(script, args, timeout=3000):
    env = dict(os.environ)
    env.pop('PYTHONPATH', None)
    p = subprocess.run([PY, os.path.join(VERIF, 'bounded', script)] + [str(a) for a in args],
                       capture_output=True, text=True, env=env, timeout=timeout)
    line = [l for l in p.stdout.strip().split('\n') if l.startswith('{')]
    if not line:
        raise RuntimeError('bounded stand-in %s produced no result: %s' % (script, p.stderr[-1500:]))
    return json.loads(line[-1])


def verbatim(spec):
    t0 = time.time()
    maxlen = 3 if spec.get('tier') != 'thorough' else 4
    r = _run('verbatim.py', [REPO, maxlen, spec.get('seed', 0)])
    out = {'unit': 'B-VERBATIM', 'obligations': [], 'wall': time.time() - t0,
           'bounded': [{'id': 'B-VERBATIM', 'function': 'tokenize.iter_xml o parser.match_tag o emitters',
                        'bound': r['bound'], 'cases': r['cases'], 'distinct': r['distinct'],
                        'note': '%d inputs were rejected with a non-TemplateError exception '
                                '(counted under C11, not here)' % r.get('n_non_template_errors', 0)}]}
    if r.get('violation'):
        out['obligations'].append({
            'name': 'B-VERBATIM', 'expect': 'valid', 'status': 'failed', 'backend': 'bounded',
            'time': 0.0, 'okind': 'bounded', 'tried': 'enumeration', 'confirmed': True,
            'text': 'a statement-free document that compiles renders to itself; tokens tile the input',
            'witness': {'inputs': {'body': r['violation']['body']}, 'detail': r['violation']['what']}})
    return out


def interp(spec):
    t0 = time.time()
    maxlen = 6 if spec.get('tier') != 'thorough' else 7
    r = _run('interp.py', [REPO, maxlen, min(14, os.cpu_count() or 4)])
    out = {'unit': 'B-INTERP', 'obligations': [], 'wall': time.time() - t0,
           'bounded': [{'id': 'B-INTERP', 'function': 'compiler.py::Interpolator.__call__',
                        'bound': r['bound'], 'cases': r['cases'], 'distinct': r['distinct']}]}
    if r.get('violation'):
        v = r['violation']
        out['obligations'].append({
            'name': 'B-INTERP', 'expect': 'valid', 'status': 'failed', 'backend': 'bounded',
            'time': 0.0, 'okind': 'bounded', 'tried': 'enumeration', 'confirmed': True,
            'text': '${expr} extends to its own closing brace, $$ is a literal $, everything else '
                    'is copied (independent left-to-right specification)',
            'witness': {'inputs': {'text_template': v['template'], 'binding': 'a=7'},
                        'detail': 'expected %r, observed %r' % (v['expected'], v['observed'])}})
    return out


def attrs(spec):
    t0 = time.time()
    size = 3 if spec.get('tier') != 'thorough' else 4
    r = _run('attrs.py', [REPO, size])
    out = {'unit': 'B-ATTR', 'obligations': [], 'wall': time.time() - t0,
           'bounded': [{'id': 'B-ATTR', 'function': 'tal.py::prepare_attributes',
                        'bound': r['bound'], 'cases': r['cases'], 'distinct': r['distinct']}]}
    if r.get('violation'):
        v = r['violation']
        out['obligations'].append({
            'name': 'B-ATTR', 'expect': 'valid', 'status': 'failed', 'backend': 'bounded',
            'time': 0.0, 'okind': 'bounded', 'tried': 'enumeration', 'confirmed': True,
            'text': 'prepare_attributes merges static, dynamic and i18n attributes as the property '
                    'prescribes (independent specification)',
            'witness': {'inputs': {k: v[k] for k in ('static', 'dynamic', 'i18n')},
                        'detail': 'expected (name, expr) %r, observed %r' % (v['expected'], v['observed'])}})
    return out


def split(spec):
    t0 = time.time()
    size = 6 if spec.get('tier') != 'thorough' else 8
    r = _run('split.py', [REPO, size])
    out = {'unit': 'B-SPLIT', 'obligations': [], 'wall': time.time() - t0,
           'bounded': [{'id': 'B-SPLIT', 'function': 'tal.py::split_parts',
                        'bound': r['bound'], 'cases': r['cases'], 'distinct': r['distinct']}]}
    if r.get('violation'):
        v = r['violation']
        out['obligations'].append({
            'name': 'B-SPLIT', 'expect': 'valid', 'status': 'failed', 'backend': 'bounded',
            'time': 0.0, 'okind': 'bounded', 'tried': 'enumeration', 'confirmed': True,
            'text': "a statement list is split at single ';' with ';;' as the escape for a literal "
                    "semicolon and entity references kept whole, and every part is a token that starts where "
                    "its text starts in the source (independent left-to-right specification)",
            'witness': {'inputs': {'value': v['value']},
                        'detail': 'expected parts %r, observed %r' % (v['expected'], v['observed'])}})
    return out


def reject(spec):
    """C11: "compiling it raises an exception derived from TemplateError ... A template without such an
    error is never rejected" -- over the B-VERBATIM document catalogue no document makes the compiler
    fail with anything but a TemplateError (the bare KeyError for an undeclared namespace prefix is the
    one documented exception and is not counted)"""
    t0 = time.time()
    maxlen = 3 if spec.get('tier') != 'thorough' else 4
    r = _run('verbatim.py', [REPO, maxlen, spec.get('seed', 0)])
    out = {'unit': 'B-REJECT', 'obligations': [], 'wall': time.time() - t0,
           'bounded': [{'id': 'B-REJECT', 'function': 'tokenize.iter_xml o parser.ElementParser o program builder',
                        'bound': r['bound'] + ' + tag soup', 'cases': r['cases'], 'distinct': r['distinct']}]}
    mis = r.get('misplaced_errors') or []
    if mis:
        out['obligations'].append({
            'name': 'B-REJECT.anchored', 'expect': 'valid', 'status': 'failed', 'backend': 'bounded',
            'time': 0.0, 'okind': 'bounded', 'tried': 'enumeration', 'confirmed': True,
            'text': 'the token of every TemplateError raised for a catalogue document is exactly the '
                    'offending substring: source[offset:offset+len(token)] == token',
            'witness': {'inputs': {'body': mis[0][0]}, 'detail': mis[0][1]}})
    bad = r.get('unexpected_crashes') or []
    if bad:
        out['obligations'].append({
            'name': 'B-REJECT', 'expect': 'valid', 'status': 'failed', 'backend': 'bounded',
            'time': 0.0, 'okind': 'bounded', 'tried': 'enumeration', 'confirmed': True,
            'text': 'a document is compiled or rejected with a TemplateError, never with another exception',
            'witness': {'inputs': {'body': bad[0][0]}, 'detail': 'compiling raises %s' % bad[0][1]}})
    return out


def errmsg(spec):
    """B-ERRMSG (C12, bounded): one obligation per family of failing renders (see errpos for the
    treatment of listed findings)"""
    return _family_unit('errmsg.py', 'B-ERRMSG', 'render pipeline: first record of the error message',
                        'the exception is an instance of the original class and the first record of its message '
                        'names the failing expression with the line and column at which it stands')


def errpos(spec):
    return _family_unit('errpos.py', 'B-ERRPOS', 'compile pipeline: error token of rejected templates',
                        'the token of the TemplateError is exactly the offending substring of the source '
                        '(offset, text, line and column) for every catalogue member of this family')


def _family_unit(script, uid, function, text):
    """B-ERRPOS (C11, bounded): one obligation per family of erroneous templates; a family listed in
    known_findings.json (obligation `B-ERRPOS[family]`, witness = the JSON list of the failing
    templates) is reported as KNOWN-FINDING as long as nothing outside that list fails"""
    import json as _json
    t0 = time.time()
    r = _run(script, [REPO])
    fams = {}
    for v in r.get('violations', []):
        fams.setdefault(v['family'], []).append(v)
    out = {'unit': uid, 'obligations': [], 'wall': time.time() - t0, 'known': {},
           'bounded': [{'id': uid, 'function': function,
                        'bound': r['bound'], 'cases': r['cases'], 'distinct': r['distinct']}]}
    from pyvc.check import load_known
    listed = {f['obligation']: f for f in load_known().get('findings', [])
              if f['obligation'].startswith(uid + '[')}
    for fam, vs in sorted(fams.items()):
        name = '%s[%s]' % (uid, fam)
        o = {'name': name, 'expect': 'valid', 'status': 'failed', 'backend': 'bounded', 'time': 0.0,
             'okind': 'bounded', 'tried': 'enumeration', 'confirmed': True,
             'text': text,
             'witness': {'inputs': {'template': vs[0]['template']},
                         'detail': '%s: %s' % (vs[0].get('error', ''), vs[0]['what'])}}
        f = listed.get(name)
        if f is not None:
            try:
                allowed = set(_json.loads(f['witness']))
            except Exception:
                allowed = set()
            extra = [v for v in vs if v['template'] not in allowed]
            if not extra:
                o['known'] = True
                out['known'][name] = [{'what': f['what'], 'witness': f['witness']}]
            else:
                o['witness'] = {'inputs': {'template': extra[0]['template']},
                                'detail': '%s: %s (not among the listed witnesses of the known finding)'
                                          % (extra[0].get('error', ''), extra[0]['what'])}
        out['obligations'].append(o)
    for name, f in listed.items():
        if name[len(uid) + 1:-1] not in fams:
            # listed finding no longer reproduces: a discharged `known` obligation says so
            out['obligations'].append({'name': name, 'expect': 'valid', 'status': 'discharged', 'backend': 'bounded',
                                       'time': 0.0, 'okind': 'bounded', 'known': True, 'tried': 'enumeration',
                                       'text': 'listed finding'})
            out['known'][name] = [{'what': f['what'], 'witness': f['witness']}]
    return out
