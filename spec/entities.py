"""Independent reference decoder for character references (used concretely; symbolically the clause
is `True`: the two structural clauses carry the deductive part)."""
import html.entities
import re

_REF = re.compile(r'&(?:#(\d{1,5})|#x([0-9a-fA-F]{1,5})|(\w{1,8}));')


def reference_decode(s):
    def one(m):
        if m.group(1) is not None:
            return chr(int(m.group(1)))
        if m.group(2) is not None:
            return chr(int(m.group(2), 16))
        cp = html.entities.name2codepoint.get(m.group(3))
        return chr(cp) if cp else m.group()
    return _REF.sub(one, s)


def reference_decoding_ok(before, after):
    return reference_decode(before) == after
