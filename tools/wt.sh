#!/bin/bash
# dev helper: tools/wt.sh <seed-id> <command...>  -- run a command with VERIF_REPO pointing at a scratch
# worktree of /repo with seeded/<seed-id>/patch.diff applied; the worktree is removed afterwards
id="$1"; shift
d=$(mktemp -d /tmp/wt-XXXXXX)
git -C /repo worktree add -q --detach "$d/wt" HEAD || exit 3
git -C "$d/wt" apply "/verif/seeded/$id/patch.diff" || { echo "patch does not apply"; }
VERIF_REPO="$d/wt" VERIF_NO_EVIDENCE=1 "$@"
rc=$?
git -C /repo worktree remove --force "$d/wt"; rm -rf "$d"; git -C /repo worktree prune
exit $rc
