"""tales.PythonExpr.translate (C06, C04, C20): "the text put in place of ${expr} is the value of exactly
that expression" -- the source handed to Python's parser is the expression as written.  The only
rewriting the function may do is what the language defines: outer white space stripped, a backslash
line continuation and a line break turned into a blank.  Stated as a conditional equation: for an
expression that contains neither a line break nor a backslash the parser gets exactly the stripped
text (so white space INSIDE the expression - string literals included - is never altered).

parse() / transform.visit() / ast.Assign are events of the ghost trace; `substitute` (parser.py) has no
contract and is executed in place; `re_continuation.sub` is an uninterpreted function of its subject
that is the identity on a subject without the pattern's mandatory literal `\\` (REGEX-STRUCT fact)."""
from pyvc.vc import Contract
from pyvc.values import REC_FIELDS

CONTRACTS = []
PE = "tales.py::PythonExpr"
REC_FIELDS[PE] = {"transform": "any"}
EXT = {
    'self.parse': {'as': 'parse', 'result': 'any', 'raises': ['SyntaxError']},
    'self.transform.visit': {'as': 'visit', 'result': 'any', 'raises_any': True},
    'ast.Assign': {'as': 'Assign', 'result': 'any'},
}
PLAIN = "'\\n' in text(expression) or '\\\\' in text(expression)"

CONTRACTS.append(Contract(
    PE + ".translate", params={"self": "rec[%s]" % PE, "expression": "Token", "target": "any"},
    ensures=[
        "ext_index('parse') == 0 and ext_index('parse', 1) == -1",
        PLAIN + " or ext_call_arg('parse', 0, 0) == text(expression).lstrip().rstrip()",
        # what is compiled is what was parsed
        "ext_index('visit') > ext_index('parse') and ext_call_arg('visit', 0, 0) is ext_call_result('parse', 0)",
    ],
    raises={'ExpressionError': {'ensures': ["ext_raised_in('parse')"]},
            '*': {'ensures': ["ext_raised_in('visit')"]}},
    result="any",
    ghost={'externals': EXT},
    serves=["C06", "C04", "C20"],
    notes="conditional equation: no line break and no backslash in the expression => parsed as written"))
