"""Concrete demonstration harness for the translate wrapper of PageTemplate.render (C10): the real
render() is run up to the hand-over to BaseTemplate.render (intercepted), the `__translate` it has
prepared is taken and called the way compiled code calls it; `txl` is a recording stub."""
import itertools

_trace = []


class _Txl:
    def __call__(self, msgid, **kw):
        rec = {'name': 'txl', 'args': [msgid], 'kwargs': dict(kw), 'raised': False}
        _trace.append(rec)
        rec['result'] = 'T(%r)' % (msgid,)
        return rec['result']

    def __repr__(self):
        return '<translation function>'


def wrapped_translate(msgid, txl, encoding, domain, mapping, default, context, target_language):
    from chameleon.zpt.template import PageTemplate
    from chameleon import template as bt
    del _trace[:]
    got = {}
    real = bt.BaseTemplate.render

    def capture(self, **kw):
        got.update(kw)
        return ''
    t = PageTemplate('x')
    bt.BaseTemplate.render = capture
    try:
        t.render(encoding=encoding, translate=txl)
    finally:
        bt.BaseTemplate.render = real
    wrapper = got['__translate']
    # the call protocol of the compiled code
    return wrapper(msgid, domain=domain, mapping=mapping, default=default, context=context,
                   target_language=target_language)


def gen_calls():
    txl = _Txl()
    for msgid, dom, ctx, lang, mp, dflt in itertools.product(
            ('m', b'm\xc3\xa9'), (None, 'd'), (None, 'c'), (None, 'de'), (None, {'n': 'v'}), (None, 'dflt')):
        yield ({'msgid': msgid, 'txl': txl, 'encoding': 'utf-8', 'domain': dom, 'mapping': mp,
                'default': dflt, 'context': ctx, 'target_language': lang}, {})


def _evs(nm):
    return [r for r in _trace if r['name'] == nm]


def ext_index(nm, k=0):
    if nm == 'decode':
        raise NotImplementedError       # bytes.decode is not intercepted
    idx = [i for i, r in enumerate(_trace) if r['name'] == nm]
    return idx[k] if k < len(idx) else -1


def ext_call_arg(nm, k, j):
    return _evs(nm)[k]['args'][j]


def ext_call_kwarg(nm, k, kw):
    return _evs(nm)[k]['kwargs'].get(kw)


def ext_call_result(nm, k):
    return _evs(nm)[k]['result']


def ext_raised_in(nm):
    return any(r['raised'] for r in _evs(nm))
