#!/usr/bin/env python3
"""tools/prepare_round.py <round>: scratch worktrees /tmp/wt<round>-Cnn and task files
/tmp/seed<round>-Cnn/TASK.md for a round of independent seeded changes (one sub-agent per
property; each gets only the property text).  Earlier mechanisms are listed as 'avoid'."""
import json
import os
import subprocess
import sys

VERIF = os.path.dirname(os.path.dirname(os.path.abspath(__file__)))
AVOID = {
 'C01': ['tal:case bound to the outermost instead of the nearest tal:switch', '__quote returning decoded bytes before escaping', 'tal:case closure capturing a renamed local of the tal:condition section', 'skipping the omit-tag cache when the element has no children', 'functools.lru_cache on tal.parse_defines', 'None used instead of the __marker sentinel in _enter_assignment/_leave_assignment'],
 'C02': ['visit_cdata switching self.escape off and restoring the wrong attribute', 'visit_Content: elif skipping __quote when the value is translated (i18n:translate on a tal:content element)', 'TemplateLoader.load passing cls by keyword (cache key)', 'isinstance(target, (int, float)) fast path in __quote', 'escaping & with the __re_amp regex', 'char_escape tuple accumulated across the attributes of one start tag in _create_attributes_nodes'],
 'C03': ['BaseTemplate.digest hashing body.encode(\'ascii\', \'ignore\')', 'attribute-name regex narrowed to [\\w:.@-]+ in match_single_attribute', 'case-insensitive end tag pairing with the End node named after the start tag', 'prepare_attributes dropping repeated attribute names', 'content type from the meta element overriding the XML declaration in BaseTemplate.write', 'ElementParser sharing the default namespace table / visit_empty_tag without a copy of the namespace scope'],
 'C04': ['visit_Cancel emitting the case body before cancelling the switch', 'literal list/dict/set displays hoisted to module-level Static nodes', 'separate Value nodes for a dict-valued tal:attributes entry (evaluated twice)', 'lambda scope aliasing in the name rewriter', 'dict fast path in utils.lookup_attr', 'utils._resolve_dotted returning __import__(used) (the top-level package) for a not yet imported sub-module'],
 'C05': ['one shared backup variable for all names of a tuple define clause', 'NameLookupRewriteVisitor.visit_Lambda sharing the scope set by reference', 'Scope.copy linking to the parent instead of the root', 'merging rcontext into econtext only when len(rcontext) changed', 'scope keyword of a tal:define clause carried over to later clauses', 'functools.lru_cache on tal.parse_defines (shared names object -> shared __backup variable)'],
 'C06': ['has_interpolation gate regex without DOTALL in zpt/program.py', 'decode_htmlentities replaced by html.unescape', 'literal text copied into the % format string of an interpolation', '_interpolation stack moved to class level', '$-run parity loop rewritten with enumerate(reversed(part)) (off by one for an all-$ part)'],
 'C07': ['PageTemplate.parse writing the resolved boolean_attributes back to self', 'digest normalising boolean_attributes with sorted(v or ())', 'split_parts rewritten with a look-around regex (;;; handling)', 'default marker value run through escaping in __quote', 'exclusion names of a dict entry lower-cased in _create_attributes_nodes'],
 'C08': ['loop variables defaulted to None before the repeat expression is evaluated', 'RepeatDict mutable default d={} combined with setdefault(\'repeat\', RepeatDict())', 'visit_text not updating _last for text with an interpolation (repeat whitespace)', 'repeat index variable named after the loop variable instead of id(node)', 'repeat[name] save/restore emitted only when self._scopes[-1] has the name'],
 'C09': ['DEFINE_SLOT and DEFINE wrappers swapped in visit_element', 'Compiler._slots created once in __init__ instead of per macro', 'Macros.__getitem__ calling cook_check only when the render function is missing', 'merging rcontext into econtext only when len(rcontext) changed', 'visit_Macro emitting __slot_x = None for the template body (node.name is None)'],
 'C10': ['i18n.parse_attributes carrying msgid over to the next entry', 'i18n:name wrapper moved innermost in visit_element\'s wrap() list', '__re_whitespace regex changed to \\s{2,}', 'i18n backup variable named after the value', 'i18n:name stream variables named by name only', 'translate wrapper in PageTemplate.render rewritten with named keywords, context not forwarded'],
 'C11': ['visit_end_tag leaving index entries of implicitly closed elements', 'ATTR_RE losing the re.S flag', 'one-pass Token.strip ignoring chars for the offset', 'lru_cache on parse_defines', 'PythonExpr rejection cache keyed by token text', 're.findall(NAME, name) for the names of a multi-name define clause (plain str, position lost)'],
 'C12': ['lookup_attr letting the KeyError of the item fallback escape', 'RepeatDict.__call__ no longer materialising sized iterables', 'ExceptionFormatter caching its formatted message', 'removing __token = None before an in-template macro call', 'token table line/column via str.splitlines', 'ExpressionParser memoising parsed expression objects under Token keys'],
 'C13': ['a shared module-level len(__stream) AST node in visit_OnError', 'del __stream[:] in the function-level exception handler of render functions', 'visit_OnError skipping the try/except when the body has no TokenRef', '`if handler:` instead of `is not None`', '__length = __stream.__len__ bound once per function', 'on-error fallback wrapped in a start tag when `omit is not True` (omit-tag expression)'],
 'C14': ['self.global_builtins |= set(builtins) mutating the class-level set', 'cook() deleting all _render* attributes before installing the new ones', 'frozenset(I18N_ATTRIBUTES) passed to prepare_attributes (hash-seed dependent order)', 'mutable default argument in RepeatDict.__init__', 'search_path list not copied', 'render(encoding=...) stored on the template instance'],
 'C15': ['get_pkg_digest memoised with lru_cache (shared hash object)', 'sys.modules[base] = module before exec_module in ModuleLoader._load', 'mkstemp without dir= plus shutil.move instead of os.rename', 'os.rename inside the with block before close', 'digest computed on a newline-normalised body', 'cook() keeping dict insertion order of the builtins while digest() hashes sorted(names)'],
 'C16': ['stale _render* sweep in cook() guarded by if self._cooked', 'auto_reload made an explicit parameter of PageTemplateFile.__init__ (not forwarded to the loader)', 'own directory inserted into the search path only if not already present', 'search_path copied only if not a list', 'parse() storing resolved boolean_attributes on the instance', 'cook_check keeping _cooked set while a reload is in progress (stale local flag)'],
 'C17': ['UTF-8 BOM stripped first and demoted to the default encoding in read_bytes', 'BaseTemplateFile.read calling read_bytes without the template\'s default_encoding', 'PageTemplate.parse storing the HTML boolean attribute set on the instance', 'meta charset searched only in the first 1024 bytes', 'XML detection by match_xml_declaration regex on str input', 'PageTextTemplateFile.render encoding with content_encoding'],
 'C18': ['prepare_attributes drop set lower-cased', 'HTML entities of statement values decoded before convert_data_attributes', 'namespace (DROP_NS) test folded into the omit flag in visit_element', 'empty tag sharing the namespace map (no copy)', 'per-template cache prefix -> namespace in MacroProgram.visit_element'],
 'C19': ['TalesExpr dropping pipe alternatives after a literal without parsing them', 'empty tokens filtered out of the __tokens table', 'exc.token.source = body in BaseTemplate._cook\'s error handler', 'deferred error statements cached by token text', 'ExpressionParser caching compiled expressions by string', "'strict' dropped from the option tuple of PageTemplate.digest"],
 'C20': ['MacroProgram._interpolation stack as a class attribute', 'TemplateLoader.load passing cls by keyword (xml then text from one loader)', 'iter_text splitting the body into paragraphs', '$-parity decided by the regex \\$*$', 'visit_text gate regex (?<!\\$)\\$\\{', "'unbalanced braces' pre-filter in Interpolator.__call__'s back-off loop"],
}


def main():
    rnd = sys.argv[1]
    tmpl = open(os.path.join(VERIF, 'tools', 'agent_prompt.txt')).read()
    props = [json.loads(l) for l in open(os.path.join(VERIF, 'properties.jsonl'))]
    for p in props:
        pid = p['id']
        wt, sd = '/tmp/wt%s-%s' % (rnd, pid), '/tmp/seed%s-%s' % (rnd, pid)
        subprocess.run(['git', '-C', '/repo', 'worktree', 'add', '-q', '--detach', wt, 'HEAD'], check=True)
        os.makedirs(sd, exist_ok=True)
        text = '%s: %s\n\n%s\n\n(It must hold for: %s)' % (pid, p['title'], p['statement'], p['quantifier']['text'])
        t = tmpl.replace('@R@', rnd).replace('@ID@', pid).replace('@PROP@', text)
        t = t.replace('@AVOID@', '\n'.join('  - ' + a for a in AVOID.get(pid, ['(none)'])))
        open(os.path.join(sd, 'TASK.md'), 'w').write(t)
    print('prepared', len(props))


if __name__ == '__main__':
    main()
