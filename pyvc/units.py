"""Check units: a contract unit verifies one function against its sidecar contract and
triages every failed obligation by native replay (DESIGN.md 3.2, 3.3)."""
from __future__ import annotations

import json
import os
import sys
import time

from . import models
from .run import build_registry, VERIF
from .vc import FunctionVC, reify

ALL_CONTRACT_MODULES = None


def contract_modules():
    global ALL_CONTRACT_MODULES
    if ALL_CONTRACT_MODULES is None:
        ALL_CONTRACT_MODULES = []
        for pkg in ('contracts', 'schemas'):
            d = os.path.join(VERIF, pkg)
            ALL_CONTRACT_MODULES += ['%s.%s' % (pkg, f[:-3]) for f in sorted(os.listdir(d))
                                     if f.endswith('.py') and f != '__init__.py']
    return ALL_CONTRACT_MODULES


_reg = None


def registry():
    global _reg
    if _reg is None:
        _reg = build_registry(contract_modules())
    return _reg


def known_for(pid, prefix):
    from .check import load_known
    out = {}
    for f in load_known().get('findings', []):
        if f['property'] == pid and f['obligation'].startswith(prefix):
            out.setdefault(f['obligation'], []).append(f)
    return out


def contract_unit(spec):
    from .solve import discharge, TextModel
    from . import replay as rp
    reg = registry()
    target = spec['target']
    c = reg.contracts[target]
    tier = spec.get('tier', 'quick')
    pid = spec.get('property')
    t0 = time.time()
    vc = FunctionVC(reg, c)
    known = known_for(pid, c.qual + '.') if pid else {}
    # a finding on a function is recorded once (under the property it was found for) but the
    # same obligation is shared by every property the contract serves
    if not known:
        from .check import load_known
        for f in load_known().get('findings', []):
            if f['obligation'].startswith(c.qual + '.'):
                known.setdefault(f['obligation'], []).append(f)
    vc.exclusions = {name: [f['witness'] for f in fs] for name, fs in known.items()}
    res = vc.generate()
    out = {'unit': target, 'function': target, 'kind': c.kind, 'serves': c.serves,
           'undecided': res.undecided, 'paths': res.paths, 'gen_time': res.gen_time,
           'obligations': [], 'notes': c.notes, 'assumes': list(c.assumes)}
    # (counter-models of K3 obligations are never replayed -- a schema is searched over its catalogue
    # instead -- so no model is asked for: on a changed tree with many failing path instances that
    # saved most of the wall time)
    results = discharge(vc.obls, want_models=not c.ghost.get('k3'),
                        t_z3=spec.get('t_z3', 40), t_cvc5=spec.get('t_cvc5', 40),
                        both=(tier == 'thorough'))
    searched = None
    for o, r in zip(vc.obls, results):
        e = {'name': o.name, 'expect': o.expect, 'status': r['status'], 'backend': r['backend'],
             'time': round(r['time'], 3), 'smt_bytes': r.get('smt_bytes', 0),
             'text': o.info.get('text'), 'okind': o.info.get('kind'),
             'known': bool(o.info.get('known')), 'tried': r.get('tried')}
        if r['status'] == 'error':
            e['reason'] = r.get('reason')
        if r['status'] == 'failed' and o.expect == 'valid':
            inputs = None
            if o.info.get('static_witness') is not None:
                e['confirmed'] = True
                e['witness'] = {'inputs': o.info['static_witness'],
                                'detail': 'computed on the real compiler output for this schema'}
                out['obligations'].append(e)
                continue
            if r.get('model_text'):
                try:
                    tm = TextModel(r['query_text'], r['model_text'])
                    inputs = {n: reify(v, tm) for n, v in o.inputs.items()}
                except Exception as ex:  # noqa
                    e['reify_error'] = repr(ex)
            e['model_inputs'] = inputs
            confirmed = None
            if inputs is not None and not c.ghost.get('k3'):
                rr = rp.replay(c, inputs)
                e['replay'] = rr
                if rr.get('verdict') == 'violates':
                    confirmed = rr
            if confirmed is None and not o.info.get('known'):
                if searched is None:
                    cc = c
                    if vc.exclusions:
                        # the directed search must not rediscover listed findings
                        import copy
                        cc = copy.copy(c)
                        extra = []
                        for ws in vc.exclusions.values():
                            extra.extend('not (%s)' % w for w in ws)
                        cc.requires = list(c.requires) + extra
                    searched = rp.search(cc)
                e['search'] = {k: v for k, v in searched.items() if k != 'inputs_py'}
                if searched.get('verdict') == 'violates':
                    confirmed = searched
            e['confirmed'] = confirmed is not None
            if confirmed is not None:
                e['witness'] = {'inputs': confirmed.get('inputs'), 'detail': confirmed.get('detail')}
        out['obligations'].append(e)
    if c.ghost.get('k3_bounded_only'):
        r = rp.k3_search(c, budget=4000)
        out.setdefault('bounded', []).append(
            {'id': 'B-K3[%s]' % c.qual, 'function': 'schema %s on the real pipeline' % c.qual,
             'bound': 'child catalogue x value catalogue x handler modes x pre-bound names',
             'cases': r.get('tried', 0), 'distinct': r.get('tried', 0)})
        if r.get('verdict') == 'violates':
            out['obligations'].append({
                'name': 'B-K3[%s]' % c.qual, 'expect': 'valid', 'status': 'failed', 'backend': 'bounded',
                'time': 0.0, 'okind': 'bounded', 'tried': 'enumeration', 'confirmed': True,
                'text': 'the schema contract holds on the real code for every catalogue instance',
                'witness': {'inputs': r.get('inputs'), 'detail': r.get('detail')}})
        elif r.get('verdict') != 'holds':
            out['obligations'].append({
                'name': 'B-K3[%s]' % c.qual, 'expect': 'valid', 'status': 'error', 'backend': 'bounded',
                'time': 0.0, 'okind': 'bounded', 'tried': 'enumeration', 'reason': str(r.get('detail'))[:500]})
    unknown_posts = [e for e in out['obligations'] if e['status'] == 'unknown' and e.get('expect') == 'valid']
    if unknown_posts and c.ghost.get('k3') and not c.ghost.get('k3_static_only') and not vc.exclusions:
        # the solvers gave up on an obligation (typically a satisfiable one on a changed tree: no
        # model found within the budget).  The schema contract is then evaluated on the real pipeline
        # over its catalogue; a violated clause is a confirmed violation, otherwise the obligation
        # stays undecided.
        if searched is None:
            searched = rp.search(c)
        if searched.get('verdict') == 'violates':
            out['obligations'].append({
                'name': '%s.concrete' % c.qual, 'expect': 'valid', 'status': 'failed', 'backend': 'replay',
                'time': 0.0, 'okind': 'post', 'confirmed': True,
                'tried': 'catalogue search (solvers undecided on %s)' % ', '.join(
                    sorted({e['name'] for e in unknown_posts})[:3]),
                'text': 'the schema contract holds on the real pipeline for every catalogue instance',
                'witness': {'inputs': searched.get('inputs'), 'detail': searched.get('detail')}})
    if res.undecided and (c.ghost.get('harness') or c.ghost.get('search')) and not c.ghost.get('k3'):
        # the generator could not handle the function as it stands (on a changed tree: a construct
        # outside the subset, a loop without a specification).  No obligation can be discharged, the
        # unit stays undecided -- unless the contract, evaluated on the real code over its directed
        # search domain, is violated outright: that is a confirmed violation with its witness.
        if searched is None:
            searched = rp.search(c)
        if searched.get('verdict') == 'violates':
            out['obligations'].append({
                'name': '%s.concrete' % c.qual, 'expect': 'valid', 'status': 'failed', 'backend': 'replay',
                'time': 0.0, 'okind': 'post', 'tried': 'directed search (generation undecided: %s)' % res.undecided,
                'confirmed': True,
                'text': 'the contract holds on the real code for every member of its directed search domain',
                'witness': {'inputs': searched.get('inputs'), 'detail': searched.get('detail')}})
    for name, info in vc.trivial_names:
        out['obligations'].append({'name': name, 'expect': 'valid', 'status': 'discharged',
                                   'backend': 'simplify', 'time': 0.0, 'smt_bytes': 0,
                                   'text': info.get('text'), 'okind': info.get('kind'),
                                   'known': bool(info.get('known'))})
    if tier == 'thorough' and c.ghost.get('k3') and not c.ghost.get('k3_static_only') and not vc.exclusions:
        # CPython cross-check of the schema contract (bounded, never counted as proved): the same
        # contract strings evaluated on the real compiler + runtime for the whole child x value
        # catalogue.  On the unchanged tree this must hold -- it guards the model and the harness.
        r = rp.k3_search(c, budget=20000)
        out['bounded'] = [{'id': 'B-K3[%s]' % c.qual, 'function': 'schema %s on the real pipeline' % c.qual,
                           'bound': 'child catalogue x value catalogue x handler modes x pre-bound names',
                           'cases': r.get('tried', 0), 'distinct': r.get('tried', 0)}]
        if r.get('verdict') == 'violates':
            out['obligations'].append({
                'name': 'B-K3[%s]' % c.qual, 'expect': 'valid', 'status': 'failed', 'backend': 'bounded',
                'time': 0.0, 'okind': 'bounded', 'tried': 'enumeration', 'confirmed': True,
                'text': 'the schema contract holds on the real code for every catalogue instance',
                'witness': {'inputs': r.get('inputs'), 'detail': r.get('detail')}})
    out['known'] = {n: [{'what': f['what'], 'witness': f['witness']} for f in fs]
                    for n, fs in known.items()}
    out['models'] = sorted(models.USED)
    out['wall'] = time.time() - t0
    return out


def replay_file(path):
    """./check --replay <file>: re-run a recorded violation on the real code"""
    from . import replay as rp
    rec = json.load(open(path))
    if rec.get('kind') == 'contract':
        reg = registry()
        c = reg.contracts[rec['target']]
        if rec.get('inputs_model'):
            r = rp.replay(c, rec['inputs_model'])
        else:
            r = rp.search(c)
        print(json.dumps(r, indent=1))
        return 1 if r.get('verdict') == 'violates' else 0
    if rec.get('replay_cmd'):
        return os.system(rec['replay_cmd']) >> 8
    print('nothing to replay: %s' % rec.get('note', 'no failing input was found for this obligation'))
    return 0
