"""zpt/template.PageTemplate.parse (C03, C20, C17): what the program builder is given.

"Documents that start with an XML declaration are treated as XML (no implicit boolean attributes,
no newline rewriting), all others as HTML": for content type text/xml the body goes to the builder
as it is and the boolean attributes are the configured ones (none by default); otherwise CR LF and
lone CR -- and nothing else -- become LF and the HTML boolean attribute set is the default.  Every
other option reaches the builder as configured on the template."""
from pyvc.vc import Contract
from pyvc.values import REC_FIELDS

CONTRACTS = []
PT = "zpt/template.py::PageTemplate"
OPTS = ['implicit_i18n_translate', 'implicit_i18n_attributes', 'trim_attribute_space', 'enable_data_attributes',
        'enable_comment_interpolation', 'restricted_namespace', 'tokenizer', 'default_marker']
REC_FIELDS.setdefault(PT, {}).update(dict({"content_type": "str", "mode": "str", "filename": "any",
                                           "boolean_attributes": "any"}, **{o: "any" for o in OPTS}))
EXT = {'MacroProgram': {'result': 'any', 'raises_any': True}}
NORMAL = "body.replace('\\r\\n', '\\n').replace('\\r', '\\n')"

CONTRACTS.append(Contract(
    PT + ".parse", params={"self": "rec[%s]" % PT, "body": "str"},
    ensures=[
        "ext_index('MacroProgram') == 0 and ext_index('MacroProgram', 1) == -1 and result is ext_call_result('MacroProgram', 0)",
        "self.content_type != 'text/xml' or ext_call_arg('MacroProgram', 0, 0) == body",
        "self.content_type == 'text/xml' or ext_call_arg('MacroProgram', 0, 0) == %s" % NORMAL,
        "ext_call_arg('MacroProgram', 0, 1) == self.mode and ext_call_arg('MacroProgram', 0, 2) is self.filename",
        "ext_call_kwarg('MacroProgram', 0, 'escape') == (self.mode == 'xml')",
    ] + ["ext_call_kwarg('MacroProgram', 0, %r) is self.%s" % (o, o) for o in OPTS],
    raises={'*': {'ensures': ["ext_raised_in('MacroProgram')"]}},
    result="any", serves=["C03", "C20", "C17", "C15"],
    ghost={'externals': EXT,
           'harness': ('bounded.parse_harness', 'parse_body'),
           'search': {'generator': ('bounded.parse_harness', 'gen_bodies')},
           # stated against the real code only (an independent character-by-character specification)
           'concrete_ensures': ["builder_body_is_normalised()"]},
    notes="MacroProgram (the program builder) is external; str.replace is the engine's model on both sides of "
          "the equation, the concrete clause compares with an independent scanner"))
