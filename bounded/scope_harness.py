"""Concrete harness for utils.Scope.copy (C05): chains of copies of real Scope objects, seen through
the record view of the contract (`own` = the dict layer, `_root` = the root attribute or None)."""


class View:
    """what the contract calls a Scope record"""

    def __init__(self, scope):
        self.scope = scope

    @property
    def own(self):
        return dict(dict.items(self.scope))

    @property
    def _root(self):
        try:
            r = object.__getattribute__(self.scope, '_root')
        except AttributeError:
            return None
        return _view(r)

    def __eq__(self, other):
        return isinstance(other, View) and other.scope is self.scope

    def __hash__(self):
        return id(self.scope)

    def __deepcopy__(self, memo):
        return Frozen(self.own)


class Frozen:
    def __init__(self, own):
        self.own = own


_views = {}


def _view(scope):
    v = _views.get(id(scope))
    if v is None or v.scope is not scope:
        v = _views[id(scope)] = View(scope)
    return v


def scope_copy(self):
    return _view(self.scope.copy())


def same_map(a, b):
    return dict(a) == dict(b)


def gen_scopes():
    from chameleon.utils import Scope
    root = Scope({'a': 1, 'b': 2})
    c1 = root.copy()
    c1['x'] = 3
    c2 = c1.copy()
    c2['y'] = 4
    c3 = c2.copy()
    for s in (root, c1, c2, c3, Scope()):
        yield ({'self': _view(s)}, {})
