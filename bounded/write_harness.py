"""Concrete harness for BaseTemplate.write (C17, C03): the REAL write() runs on a template class
whose cook() only records its argument and what it can see of the sniffing decision."""
import types

_obs = {}


def _run(self, body):
    from chameleon.zpt.template import PageTemplate
    calls = []

    class Probe(PageTemplate):
        def cook(s, b):
            calls.append((b, s.__dict__.get('content_type'), s.__dict__.get('content_encoding')))

    de = getattr(self, 'default_encoding', None) or 'utf-8'
    dc = getattr(self, 'default_content_type', None) or 'text/html'
    Probe.default_encoding = de
    Probe.default_content_type = dc
    t = Probe.__new__(Probe)
    _obs.clear()
    _obs.update(calls=calls, body=body, de=de, dc=dc)
    try:
        t.write(body)
    finally:
        if isinstance(self, types.SimpleNamespace):
            self.default_encoding, self.default_content_type = de, dc
            self.content_type = t.__dict__.get('content_type')
            self.content_encoding = t.__dict__.get('content_encoding')


def write_str(self, body):
    return _run(self, body)


def write_bytes(self, body):
    return _run(self, body)


XML = ['', '<?xml version="1.0"?>', '<?xml\tversion="1.0" encoding="latin-1"?>', '<?xml\nversion="1.0"?>',
       '<?xmlfoo?>', ' <?xml version="1.0"?>', "<?xml version='1.0' encoding='iso-8859-15' ?>"]
META = ['', '<meta http-equiv="Content-Type" content="text/html; charset=utf-8">',
        '<meta http-equiv="content-type" content="application/xhtml+xml; charset=koi8-r" />']
REST = ['<p>a</p>', '<p>\r\n</p>\r']


def gen_str_docs():
    for x in XML:
        for m in META:
            for r in REST:
                yield ({'self': types.SimpleNamespace(default_encoding='utf-8', default_content_type='text/html'), 'body': x + m + r}, {})


def gen_bytes_docs():
    import codecs
    for x in XML:
        for m in META:
            for bom, enc in ((b'', 'utf-8'), (codecs.BOM_UTF8, 'utf-8'), (codecs.BOM_UTF16_LE, 'utf-16-le'),
                             (b'', 'utf-16-be')):
                yield ({'self': types.SimpleNamespace(default_encoding='utf-8', default_content_type='text/html'), 'body': bom + (x + m + REST[1]).encode(enc)}, {})


# concrete versions of the trace primitives
def ext_index(name, k=0):
    if name == 'cook':
        return k if k < len(_obs['calls']) else -1
    raise NotImplementedError


def ext_call_arg(name, k, j):
    if name == 'cook' and j == 0:
        return _obs['calls'][k][0]
    if name in ('detect', 'read_bytes') and k == 0:
        return (_obs['body'], _obs['de'])[j]
    if name == 'rxe' and k == 0 and j == 0:
        return _obs['body'].encode('utf-8')
    raise NotImplementedError


def ext_snapshot(name, k, what):
    c = _obs['calls'][k]
    return {'self.content_type': c[1], 'self.content_encoding': c[2]}[what]


def ext_call_result(name, k):
    from chameleon import utils
    if name == 'detect':
        return utils.detect_encoding(_obs['body'], _obs['de'])
    if name == 'rxe':
        return utils.read_xml_encoding(_obs['body'].encode('utf-8'))
    if name == 'read_bytes':
        return utils.read_bytes(_obs['body'], _obs['de'])
    raise NotImplementedError


def ext_raised_in(name):
    raise NotImplementedError
