"""K3 schemas for the single TAL statements (C01, C04, C05, C07, C08, C02 sinks)."""
from pyvc.k3 import schema_contracts

from pyvc.k3 import hole
H1 = hole(1)
PROP = ["C01", "C04"]
ANYRAISE = {'*': {'ensures': ["True"]}}

SPECS = [
    dict(id='S-Define', text='A<div tal:define="a e1; global b e2">%s</div>B' % H1,
         own_names=['a', 'b'],
         ensures=[
             "trace('e1', 'e2', 'h1')",
             "S() == S0() + 'A<div>' + out(1) + '</div>B'",
             # inside the element both definitions are visible
             "visible_at('h1', 'a') is val(1)", "visible_at('h1', 'b') is val(2)",
             "visible_at('e2', 'a') is val(1)",
             # afterwards the local is gone / the outer binding is back, the global persists
             "visible('a') is visible0('a')",
             "visible('b') is val(2)", "global_now('b') is val(2)",
             "scope_frame('a', 'b')",
         ],
         raises={'*': {'ensures': ["raised('e1') or raised('e2') or raised('h1')"]}},
         serves=PROP + ["C05"]),
    dict(id='S-Define-nested-same',
         # the same name defined again on a descendant: the inner definition ends with ITS element --
         # between the end of the inner element and the end of the outer one the outer value is back
         text='A<div tal:define="a e1"><p tal:define="a e2">%s</p>%s</div>B' % (H1, hole(2)),
         own_names=['a'],
         ensures=[
             "trace('e1', 'e2', 'h1', 'h2')",
             "visible_at('h1', 'a') is val(2)",
             "visible_at('h2', 'a') is val(1)",
             "visible('a') is visible0('a')",
         ],
         raises={'*': {'ensures': ["raised('e1') or raised('e2') or raised('h1') or raised('h2')"]}},
         serves=PROP + ["C05"]),
    dict(id='S-Define-clauses',
         text='A<div tal:define="global b e2; a e1; local c e3; d e4">%s</div>B' % H1,
         own_names=['a', 'b', 'c', 'd'],
         ensures=[
             # each ';'-separated clause has its own scope keyword: it never carries over
             "trace('e2', 'e1', 'e3', 'e4', 'h1')",
             "S() == S0() + 'A<div>' + out(1) + '</div>B'",
             "visible_at('h1', 'a') is val(1)", "visible_at('h1', 'b') is val(2)",
             "visible_at('h1', 'c') is val(3)", "visible_at('h1', 'd') is val(4)",
             "visible('a') is visible0('a')", "visible('c') is visible0('c')",
             "visible('d') is visible0('d')",
             "visible('b') is val(2)", "global_now('b') is val(2)",
             "scope_frame('a', 'b', 'c', 'd')",
         ],
         raises={'*': {'ensures': ["raised('e1') or raised('e2') or raised('e3') or raised('e4') or "
                                   "raised('h1')"]}},
         serves=PROP + ["C05"]),
    dict(id='S-Define-tuple',
         # several names bound by ONE clause: each is restored to its OWN outer binding
         text='A<div tal:define="(a, b) e5">%s</div>B' % H1,
         own_names=['a', 'b'],
         ensures=[
             "trace('e5', 'h1')",
             "S() == S0() + 'A<div>' + out(1) + '</div>B'",
             "visible('a') is visible0('a')", "visible('b') is visible0('b')",
             "scope_frame('a', 'b')",
         ],
         # the value is not a pair: the element is not entered
         raises={'*': {'ensures': ["True"]}, 'TypeError': {'ensures': ["holes(1) == 0"]},
                 'ValueError': {'ensures': ["holes(1) == 0"]}},
         serves=PROP + ["C05"]),
    dict(id='S-Condition', text='A<div tal:condition="e3">%s</div>B' % H1,
         ensures=[
             "evals(3) == 1",
             "bool(val(3)) or (S() == S0() + 'AB' and holes(1) == 0)",
             "not bool(val(3)) or (S() == S0() + 'A<div>' + out(1) + '</div>B' and trace('e3', 'h1'))",
             "scope_frame()",
         ],
         raises={'*': {'ensures': ["raised('e3') or raised('h1')"]}},
         serves=PROP),
    dict(id='S-Content', text='A<p tal:content="e7">%s</p>B' % H1,
         ensures=[
             "evals(7) == 1",
             # default keeps the original content
             "val(7) is not DEFAULT() or (S() == S0() + 'A<p>' + out(1) + '</p>B' and quote_calls() == 0)",
             # anything else replaces it by the escaped value (None: nothing); children are not run
             "val(7) is DEFAULT() or (holes(1) == 0 and S() == S0() + 'A<p>' + "
             "('' if quoted(val(7), None, '\\xad', None, None) is None "
             " else piece(quoted(val(7), None, '\\xad', None, None))) + '</p>B')",
             "scope_frame()",
         ],
         raises={'*': {'ensures': ["raised('e7') or raised('h1')"]}},
         serves=PROP + ["C02"]),
    dict(id='S-Replace', text='A<p tal:replace="e7">x</p>B',
         ensures=[
             "evals(7) == 1",
             # default keeps the whole element as written; anything else replaces the element
             # (tags included) by the escaped value, None by nothing
             "val(7) is not DEFAULT() or S() == S0() + 'A<p>x</p>B'",
             "val(7) is DEFAULT() or S() == S0() + 'A' + ('' if quoted(val(7), None, '\\xad', None, None) is None else piece(quoted(val(7), None, '\\xad', None, None))) + 'B'",
         ],
         raises={'*': {'ensures': ["raised('e7')"]}},
         serves=PROP + ["C02"]),
    dict(id='S-Replace-omit-expr',
         # tal:replace decides first whether the element is rendered at all; the tal:omit-tag expression
         # belongs to the element's own tags: it is evaluated (once) only when the element is kept
         # (`default`), after the replace expression, and never for an element that is replaced
         text='A<p tal:replace="e7" tal:omit-tag="e8">%s</p>B' % H1,
         ensures=[
             "evals(7) == 1",
             "val(7) is DEFAULT() or (evals(8) == 0 and holes(1) == 0)",
             "val(7) is not DEFAULT() or (evals(8) == 1 and holes(1) == 1 and trace('e7', 'e8', 'h1'))",
             "val(7) is not DEFAULT() or not bool(val(8)) or S() == S0() + 'A' + out(1) + 'B'",
             "val(7) is not DEFAULT() or bool(val(8)) or S() == S0() + 'A<p>' + out(1) + '</p>B'",
         ],
         raises={'*': {'ensures': ["raised('e7') or (val(7) is DEFAULT() and (raised('e8') or raised('h1')))"]}},
         serves=PROP + ["C04"]),
    dict(id='S-Structure', text='A<p tal:content="structure e7">x</p>B',
         ensures=[
             "evals(7) == 1",
             "val(7) is not DEFAULT() or S() == S0() + 'A<p>x</p>B'",
             # the documented opt-out: converted to text but NOT escaped
             "val(7) is DEFAULT() or (quote_calls() == 0 and S() == S0() + 'A<p>' + "
             "('' if converted(val(7)) is None else piece(converted(val(7)))) + '</p>B')",
         ],
         raises={'*': {'ensures': ["raised('e7')"]}},
         serves=PROP + ["C02", "C04"]),
    dict(id='S-OmitTag', text='A<p tal:omit-tag="e8">%s</p>B' % H1,
         ensures=[
             "evals(8) == 1", "holes(1) == 1",
             "not bool(val(8)) or S() == S0() + 'A' + out(1) + 'B'",
             "bool(val(8)) or S() == S0() + 'A<p>' + out(1) + '</p>B'",
         ],
         raises={'*': {'ensures': ["raised('e8') or raised('h1')"]}},
         serves=PROP),
    dict(id='S-OmitTag-empty', text='A<p tal:omit-tag="e8" tal:content="e7"></p>B',
         ensures=[
             # one decision per element, also when the element has no children of its own
             "evals(8) == 1", "evals(7) == 1",
             "val(7) is DEFAULT() or not bool(val(8)) or S() == S0() + 'A' + "
             "('' if quoted(val(7), None, '\\xad', None, None) is None else piece(quoted(val(7), None, '\\xad', None, None))) + 'B'",
             "val(7) is DEFAULT() or bool(val(8)) or S() == S0() + 'A<p>' + "
             "('' if quoted(val(7), None, '\\xad', None, None) is None else piece(quoted(val(7), None, '\\xad', None, None))) + '</p>B'",
         ],
         raises={'*': {'ensures': ["raised('e8') or raised('e7')"]}},
         serves=PROP),
    dict(id='S-OmitTag-selfclosing', text='A<p tal:omit-tag="e8" tal:content="e7"/>B',
         ensures=["evals(8) == 1", "evals(7) == 1"],
         raises={'*': {'ensures': ["raised('e8') or raised('e7')"]}},
         serves=PROP),
    dict(id='S-Attribute', text='A<p k="s" tal:attributes="k e9">%s</p>B' % H1,
         ensures=[
             "evals(9) == 1", "trace('e9', 'h1')",
             # None drops the attribute; default keeps the static text (handled inside __quote:
             # the static text is passed as `default`); the value is escaped with the
             # attribute's own quote character
             "S() == S0() + 'A<p' + ('' if quoted(val(9), '\"', '&quot;', 's', DEFAULT()) is None else "
             "' k=\"' + piece(quoted(val(9), '\"', '&quot;', 's', DEFAULT())) + '\"') + '>' + out(1) + '</p>B'",
             "quote_calls() == 1",
         ],
         raises={'*': {'ensures': ["raised('e9') or raised('h1')"]}},
         serves=PROP + ["C02", "C07"]),
    dict(id='S-Attribute-quotes',
         # every attribute value is escaped for ITS OWN quote character, whatever quote characters its
         # neighbours in the same start tag are written with
         text='A<p c="s" k=\'t\' d="u" tal:attributes="k e9; d e10">x</p>B',
         ensures=[
             "evals(9) == 1 and evals(10) == 1",
             "S() == S0() + 'A<p c=\"s\"' + "
             "('' if quoted(val(9), \"'\", '&#39;', 't', DEFAULT()) is None else "
             "\" k='\" + piece(quoted(val(9), \"'\", '&#39;', 't', DEFAULT())) + \"'\") + "
             "('' if quoted(val(10), '\"', '&quot;', 'u', DEFAULT()) is None else "
             "' d=\"' + piece(quoted(val(10), '\"', '&quot;', 'u', DEFAULT())) + '\"') + '>x</p>B'",
             "quote_calls() == 2",
         ],
         raises={'*': {'ensures': ["raised('e9') or raised('e10')"]}},
         serves=PROP + ["C02", "C07"]),
    dict(id='S-Attribute-unquoted',
         # an attribute written WITHOUT quotes can be computed like any other (C11: the template is not
         # rejected); there is no quote character to escape, the value is escaped like text
         text='A<p k=t tal:attributes="k e9">x</p>B',
         ensures=[
             "evals(9) == 1",
             "S() == S0() + 'A<p' + ('' if quoted(val(9), None, '&#0;', 't', DEFAULT()) is None else "
             "' k=' + piece(quoted(val(9), None, '&#0;', 't', DEFAULT()))) + '>x</p>B'",
             "quote_calls() == 1",
         ],
         raises={'*': {'ensures': ["raised('e9')"]}},
         serves=PROP + ["C02", "C07", "C11"]),
    dict(id='S-Attribute-default-under-target',
         # `default` keeps meaning "the static text" below an element that sets i18n:target (which binds
         # a name of its own for the subtree)
         text='A<div i18n:target="e1"><p k="s" tal:attributes="k default">x</p></div>B',
         ensures=["evals(1) == 1", "S() == S0() + 'A<div><p k=\"s\">x</p></div>B'"],
         raises={'*': {'ensures': ["raised('e1')"]}},
         serves=PROP + ["C07", "C10"]),
    dict(id='S-Attribute-boolean-interp',
         # "Attributes configured as boolean ... disappear for false ones": also when the value is
         # written as several ${...} parts -- all of them None gives no attribute at all
         text='A<input checked="${e1}${e2}"/>B',
         own_names=['None'],
         ensures=["trace('e1', 'e2')",
                  # (the emitted code spells a false value as the NAME None, which -- "names resolved from
                  # template variables before Python builtins" -- a template variable called None
                  # would shadow: excluded here)
                  "visible0('None') is not UNBOUND() or not (val(1) is None and val(2) is None) "
                  "or S() == S0() + 'A<input/>B'"],
         raises={'*': {'ensures': ["raised('e1') or raised('e2') or ext_count() > 0 or translate_calls() > 0"]}},
         serves=PROP + ["C07"]),
    dict(id='S-Attribute-dict',
         # a dictionary-valued entry of tal:attributes: evaluated once, before the named entries
         # it may override; each named entry once
         text='A<p k="s" tal:attributes="k e9; e10">x</p>B',
         loops={1: {'abstract': {'calls': ['items', 'bool', '__append', '__quote']}}},
         ensures=["evals(9) == 1", "evals(10) == 1", "trace('e10', 'e9')"],
         raises={'*': {'ensures': ["raised('e9') or raised('e10') or loop_failed() or "
                                   "(evals(9) == 1 and evals(10) == 1)"]}},
         serves=PROP + ["C04", "C07"], no_fresh=True),
    dict(id='S-Attribute-dict-first',
         # "at most once ... later sources overriding earlier ones": an entry of an attribute dictionary
         # whose key a LATER named statement targets contributes nothing -- the key compared exactly as
         # the statement spells it; every other entry with a value other than None is appended once,
         # escaped for the double quote.  One arbitrary iteration of the emitted loop is verified
         # against this per-entry contract (keys are strings: A-DICTKEYS).
         text='A<p tal:attributes="e10; onClick e9; data-Xy e8">x</p>B',
         options={'boolean_attributes': []},
         loops={1: {'abstract': {'calls': ['items', 'bool', '__append', '__quote']},
                    'step': {'types': ['str', 'any'],
                             'ensures': [
                                 "iter_item(0) != 'onClick' or S() == iter_S0()",
                                 "iter_item(0) != 'data-Xy' or S() == iter_S0()",
                                 "iter_item(1) is not None or S() == iter_S0()",
                                 "iter_item(0) == 'onClick' or iter_item(0) == 'data-Xy' or iter_item(1) is None or "
                                 "S() == iter_S0() + ' ' + iter_item(0) + '=\"' + "
                                 "piece(quoted(iter_item(1), '\"', '&quot;', None, None)) + '\"'",
                             ]}}},
         ensures=["evals(10) == 1 and evals(9) == 1 and evals(8) == 1", "trace('e10', 'e9', 'e8')"],
         raises={'*': {'ensures': ["raised('e9') or raised('e10') or raised('e8') or loop_failed()"]}},
         serves=PROP + ["C07", "C02"], no_fresh=True),
    dict(id='S-Literal',
         # expressions that are literal displays of mutable objects
         text='A<p tal:define="a []; b {1: 2}" tal:attributes="k {3}" tal:content="[e1]">x</p>B',
         own_names=['a', 'b'],
         loops={},
         ensures=["evals(1) == 1", "visible('a') is visible0('a')", "visible('b') is visible0('b')"],
         raises={'*': {'ensures': ["True"]}},
         serves=PROP + ["C04", "C14"], no_fresh=True, no_token_posts=True),
    dict(id='S-Combined',
         # "definitions first, then the guards, then content or replacement, then tag omission
         # and attributes" -- all statements on ONE element (the order they are written in is
         # irrelevant: unit permute)
         text='A<p k="s" tal:define="a e1" tal:condition="e3" tal:content="e7" '
              'tal:attributes="k e9" tal:omit-tag="e8">x</p>B',
         own_names=['a'],
         ensures=[
             "evals(1) == 1 and evals(3) == 1",
             # the guard sees the definition; a false guard removes the element and nothing
             # inside it is evaluated
             "visible_at('e3', 'a') is val(1)",
             "bool(val(3)) or (S() == S0() + 'AB' and trace('e1', 'e3'))",
             "not (bool(val(3)) and bool(val(8))) or (trace('e1', 'e3', 'e8', 'e7') and "
             "S() == S0() + 'A' + ('x' if val(7) is DEFAULT() else ('' if quoted(val(7), None, '\\xad', None, None) is None else piece(quoted(val(7), None, '\\xad', None, None)))) + 'B')",
             "not (bool(val(3)) and not bool(val(8))) or (trace('e1', 'e3', 'e8', 'e9', 'e7') and "
             "S() == S0() + 'A<p' + ('' if quoted(val(9), '\"', '&quot;', 's', DEFAULT()) is None else ' k=\"' + piece(quoted(val(9), '\"', '&quot;', 's', DEFAULT())) + '\"') + '>' + ('x' if val(7) is DEFAULT() else ('' if quoted(val(7), None, '\\xad', None, None) is None else piece(quoted(val(7), None, '\\xad', None, None)))) + '</p>B')",
             "not bool(val(3)) or visible_at('e7', 'a') is val(1)",
             # the definition ends with the element
             "visible('a') is visible0('a')", "scope_frame('a')",
         ],
         raises={'*': {'ensures': ["raised('e1') or raised('e3') or raised('e7') or raised('e8') or raised('e9')"]}},
         serves=PROP + ["C05", "C07"]),
    dict(id='S-Repeat', text='A<li tal:repeat="i e4">%s</li>B' % H1,
         own_names=['i'],
         loops={1: {
             'inv': ["local('____index') == rlen() - _i",
                     "S() == acc(_i)",
                     "scope_frame('i')", "in_local('i')",
                     # repeat['i'] keeps describing THIS loop while its body runs ("also in
                     # nested loops ... with reused variable names")
                     "repeat_kept('i')"],
             # acc(i): text after i repetitions -- DEFINITION (separator between repetitions,
             # none after the last one)
             'lemmas': ["acc(0) == S0() + 'A'",
                        "acc(_i + 1) == acc(_i) + '<li>' + out_at(1, _i) + '</li>' + "
                        "('\\n ' if _i + 1 < rlen() else '')"],
         }},
         ensures=[
             "evals(4) == 1",
             # the repeat expression is evaluated in the ENCLOSING scope: it sees the outer binding of
             # the loop variable (tal:repeat="x x", tal:repeat="node node.children")
             "visible_at('e4', 'i') is visible0('i')",
             "S() == acc(rlen()) + 'B'",
             "rlen() > 0 or S() == S0() + 'AB'",
             "visible('i') is visible0('i')",
             "scope_frame('i')",
             "repeat_kept('i')",
             # an enclosing loop over the same name finds its own entry again afterwards
             "repeat_restored('i')",
         ],
         raises={'*': {'ensures': ["raised('e4') or raised('h1') or (repeat_failed() and evals(4) == 1 "
                                   "and holes(1) == 0 and val(4) is not None)"]}},
         serves=PROP + ["C08", "C05"]),
    dict(id='S-Repeat-comprehension',
         # the outer binding of the loop name is saved BEFORE the repeat expression is evaluated -- an
         # expression that itself binds the name (a comprehension over it) must not change what is
         # restored afterwards.  The comprehension is outside the symbolic executor: BOUNDED (catalogue).
         text='A<li tal:repeat="i [i for i in e4]">%s</li>B' % H1,
         own_names=['i'], probe_values={'4': 'iterable'}, bounded_only=True,
         ensures=["visible('i') is visible0('i')"],
         raises={'*': {'ensures': ["True"]}},
         serves=["C05", "C08"], no_fresh=True),
    dict(id='S-Repeat-indent',
         # "consecutive repetitions are separated by a line break plus that line's indentation":
         # the indentation is that of the element's own line, also when the text in front of it
         # contains an interpolation
         text='A\n  t${e1}\n    <li tal:repeat="i e4">%s</li>B' % H1,
         own_names=['i'],
         loops={1: {
             'inv': ["local('____index') == rlen() - _i", "S() == acc(_i)", "scope_frame('i')", "in_local('i')"],
             'lemmas': ["acc(0) == S0() + 'A\\n  t' + ('' if quoted(val(1), '\\0', '&#0;', None, None) is None else piece(quoted(val(1), '\\0', '&#0;', None, None))) + '\\n    '",
                        "acc(_i + 1) == acc(_i) + '<li>' + out_at(1, _i) + '</li>' + "
                        "('\\n    ' if _i + 1 < rlen() else '')"],
         }},
         ensures=["S() == acc(rlen()) + 'B'"],
         raises={'*': {'ensures': ["True"]}},
         serves=["C08"], no_fresh=True, no_token_posts=True),
]

CONTRACTS = schema_contracts(SPECS)
