"""Concrete harness for the compiler's verbatim emitters (replay of contract counterexamples)."""
_out = []


def visit_end(self, node):
    from chameleon.compiler import Compiler
    del _out[:]
    _out.extend(Compiler.visit_End(None, node))
    return None


def gen_end_nodes():
    from chameleon import nodes
    for name in ('a', 'x:y'):
        for space in ('', ' ', '\n '):
            yield ({'self': None, 'node': nodes.End(name, space, '</', space + '>')}, {})


def yielded():
    return list(_out)
