"""Concrete demonstration harness for BaseTemplateFile.cook_check (C16): the REAL method runs on an
instance whose three callees -- mtime(), read(), cook() -- are scripted stubs that behave as their
(assumed) contracts allow: each returns or raises, cook() sets `_cooked` last.  The trace
primitives of the contract (called / call_result / call_arg) read the stub's log."""
import itertools

_log = []


class Boom(Exception):
    pass


def _make(auto_reload, cooked, last_read, mtime, read, cook):
    from chameleon.template import BaseTemplateFile

    class Stub(BaseTemplateFile):
        def __init__(self):     # noqa: the real constructor reads the file system
            pass

        def __repr__(self):
            return ('<file template auto_reload=%r _cooked=%r _v_last_read=%r; script: mtime()->%r read()->%r '
                    'cook()->%r>' % (auto_reload, cooked, last_read, mtime, read, cook))

        def __deepcopy__(self, memo):
            c = Stub()
            c.__dict__.update(self.__dict__)
            return c

        def mtime(self):
            if mtime == 'raise':
                _log.append(('mtime', {}, Boom))
                raise Boom('mtime')
            _log.append(('mtime', {}, mtime))
            return mtime

        def read(self):
            if read == 'raise':
                _log.append(('read', {}, Boom))
                raise Boom('read')
            _log.append(('read', {}, read))
            return read

        def cook(self, body):
            if cook == 'raise':
                _log.append(('cook', {'body': body}, Boom))
                raise Boom('cook')
            _log.append(('cook', {'body': body}, None))
            self._cooked = True

    s = Stub()
    s.filename = 'f.pt'         # (the property setter resets _cooked and _v_last_read)
    s.auto_reload = auto_reload
    s._cooked = cooked
    s._v_last_read = last_read
    return s


def cook_check(self):
    del _log[:]
    from chameleon.template import BaseTemplateFile
    return BaseTemplateFile.cook_check(self)


def gen_cases():
    # modification times: small integers and present-day epoch seconds one second (and a fraction of a
    # second) apart -- "changed" means a different time stamp, whatever its magnitude
    T = 1790000000.0
    for auto, cooked, last, mt, rd, ck in itertools.product(
            (False, True), (False, True), (None, 1, 2, T), (1, 2, T, T + 1.0, T - 0.25, 'raise'),
            ('body', 'raise'), ('ok', 'raise')):
        yield ({'self': _make(auto, cooked, last, mt, rd, ck)}, {})


def called(name):
    return sum(1 for n, _, _ in _log if n == name)


def _kth(name, k):
    return [e for e in _log if e[0] == name][k]


def call_result(name, k):
    return _kth(name, k)[2]


def call_arg(name, k, param):
    return _kth(name, k)[1][param]
