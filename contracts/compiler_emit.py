"""Contracts for the verbatim emitters of compiler.py (C03): what is emitted for a tag is the
concatenation of exactly the fields the tag was dissected into."""
from pyvc.vc import Contract
from pyvc.values import REC_FIELDS

CONTRACTS = []
REC_FIELDS["node::End"] = {"name": "str", "space": "str", "prefix": "str", "suffix": "str"}
REC_FIELDS["compiler.py::Compiler"] = {}

# From parser.match_tag / match_tag_prefix_and_name (obligation parser.tag.tiling): an end tag's
# token is prefix + name + suffix, and `space` is the whitespace the suffix begins with.
CONTRACTS.append(Contract(
    "compiler.py::Compiler.visit_End",
    params={"self": "rec[compiler.py::Compiler]", "node": "rec[node::End]"},
    requires=["node.suffix.startswith(node.space)"],
    ensures=[
        "len(yielded()) == 1",
        # byte for byte what was written: nothing added, nothing lost
        "yielded()[0].s == node.prefix + node.name + node.suffix",
    ],
    ghost={'harness': ('bounded.emit_harness', 'visit_end'),
           'search': {'generator': ('bounded.emit_harness', 'gen_end_nodes')}},
    serves=["C03"]))
