"""Check units for the bounded stand-ins (labelled `bounded`; never counted as discharged)."""
import json
import os
import subprocess
import time

VERIF = os.path.dirname(os.path.dirname(os.path.abspath(__file__)))
PY = os.environ.get('VERIF_PYTHON', '/venv/bin/python')
REPO = os.environ.get('VERIF_REPO', '/repo')


def _run(script, args, timeout=3000):
    env = dict(os.environ)
    env.pop('PYTHONPATH', None)
    p = subprocess.run([PY, os.path.join(VERIF, 'bounded', script)] + [str(a) for a in args],
                       capture_output=True, text=True, env=env, timeout=timeout)
    line = [l for l in p.stdout.strip().split('\n') if l.startswith('{')]
    if not line:
        raise RuntimeError('bounded stand-in %s produced no result: %s' % (script, p.stderr[-1500:]))
    return json.loads(line[-1])


def verbatim(spec):
    t0 = time.time()
    maxlen = 3 if spec.get('tier') != 'thorough' else 4
    r = _run('verbatim.py', [REPO, maxlen, spec.get('seed', 0)])
    out = {'unit': 'B-VERBATIM', 'obligations': [], 'wall': time.time() - t0,
           'bounded': [{'id': 'B-VERBATIM', 'function': 'tokenize.iter_xml o parser.match_tag o emitters',
                        'bound': r['bound'], 'cases': r['cases'], 'distinct': r['distinct'],
                        'note': '%d inputs were rejected with a non-TemplateError exception '
                                '(counted under C11, not here)' % r.get('n_non_template_errors', 0)}]}
    if r.get('violation'):
        out['obligations'].append({
            'name': 'B-VERBATIM', 'expect': 'valid', 'status': 'failed', 'backend': 'bounded',
            'time': 0.0, 'okind': 'bounded', 'tried': 'enumeration', 'confirmed': True,
            'text': 'a statement-free document that compiles renders to itself; tokens tile the input',
            'witness': {'inputs': {'body': r['violation']['body']}, 'detail': r['violation']['what']}})
    return out


def interp(spec):
    t0 = time.time()
    maxlen = 6 if spec.get('tier') != 'thorough' else 7
    r = _run('interp.py', [REPO, maxlen, min(14, os.cpu_count() or 4)])
    out = {'unit': 'B-INTERP', 'obligations': [], 'wall': time.time() - t0,
           'bounded': [{'id': 'B-INTERP', 'function': 'compiler.py::Interpolator.__call__',
                        'bound': r['bound'], 'cases': r['cases'], 'distinct': r['distinct']}]}
    if r.get('violation'):
        v = r['violation']
        out['obligations'].append({
            'name': 'B-INTERP', 'expect': 'valid', 'status': 'failed', 'backend': 'bounded',
            'time': 0.0, 'okind': 'bounded', 'tried': 'enumeration', 'confirmed': True,
            'text': '${expr} extends to its own closing brace, $$ is a literal $, everything else '
                    'is copied (independent left-to-right specification)',
            'witness': {'inputs': {'text_template': v['template'], 'binding': 'a=7'},
                        'detail': 'expected %r, observed %r' % (v['expected'], v['observed'])}})
    return out


def attrs(spec):
    t0 = time.time()
    size = 3 if spec.get('tier') != 'thorough' else 4
    r = _run('attrs.py', [REPO, size])
    out = {'unit': 'B-ATTR', 'obligations': [], 'wall': time.time() - t0,
           'bounded': [{'id': 'B-ATTR', 'function': 'tal.py::prepare_attributes',
                        'bound': r['bound'], 'cases': r['cases'], 'distinct': r['distinct']}]}
    if r.get('violation'):
        v = r['violation']
        out['obligations'].append({
            'name': 'B-ATTR', 'expect': 'valid', 'status': 'failed', 'backend': 'bounded',
            'time': 0.0, 'okind': 'bounded', 'tried': 'enumeration', 'confirmed': True,
            'text': 'prepare_attributes merges static, dynamic and i18n attributes as the property '
                    'prescribes (independent specification)',
            'witness': {'inputs': {k: v[k] for k in ('static', 'dynamic', 'i18n')},
                        'detail': 'expected (name, expr) %r, observed %r' % (v['expected'], v['observed'])}})
    return out


def split(spec):
    t0 = time.time()
    size = 6 if spec.get('tier') != 'thorough' else 8
    r = _run('split.py', [REPO, size])
    out = {'unit': 'B-SPLIT', 'obligations': [], 'wall': time.time() - t0,
           'bounded': [{'id': 'B-SPLIT', 'function': 'tal.py::split_parts',
                        'bound': r['bound'], 'cases': r['cases'], 'distinct': r['distinct']}]}
    if r.get('violation'):
        v = r['violation']
        out['obligations'].append({
            'name': 'B-SPLIT', 'expect': 'valid', 'status': 'failed', 'backend': 'bounded',
            'time': 0.0, 'okind': 'bounded', 'tried': 'enumeration', 'confirmed': True,
            'text': "a statement list is split at single ';' with ';;' as the escape for a literal "
                    "semicolon and entity references kept whole (independent left-to-right specification)",
            'witness': {'inputs': {'value': v['value']},
                        'detail': 'expected parts %r, observed %r' % (v['expected'], v['observed'])}})
    return out


def reject(spec):
    """C11: "compiling it raises an exception derived from TemplateError ... A template without such an
    error is never rejected" -- over the B-VERBATIM document catalogue no document makes the compiler
    fail with anything but a TemplateError (the bare KeyError for an undeclared namespace prefix is the
    one documented exception and is not counted)"""
    t0 = time.time()
    maxlen = 3 if spec.get('tier') != 'thorough' else 4
    r = _run('verbatim.py', [REPO, maxlen, spec.get('seed', 0)])
    out = {'unit': 'B-REJECT', 'obligations': [], 'wall': time.time() - t0,
           'bounded': [{'id': 'B-REJECT', 'function': 'tokenize.iter_xml o parser.ElementParser o program builder',
                        'bound': r['bound'] + ' + tag soup', 'cases': r['cases'], 'distinct': r['distinct']}]}
    bad = r.get('unexpected_crashes') or []
    if bad:
        out['obligations'].append({
            'name': 'B-REJECT', 'expect': 'valid', 'status': 'failed', 'backend': 'bounded',
            'time': 0.0, 'okind': 'bounded', 'tried': 'enumeration', 'confirmed': True,
            'text': 'a document is compiled or rejected with a TemplateError, never with another exception',
            'witness': {'inputs': {'body': bad[0][0]}, 'detail': 'compiling raises %s' % bad[0][1]}})
    return out
