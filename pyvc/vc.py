"""Contracts, source extraction (K1), VC generation per function and discharge."""
from __future__ import annotations

import ast
import builtins as _builtins
import importlib
import json
import os
import re as _re
import subprocess
import sys
import tempfile
import time

import z3

from . import models
from .interp import Closure, Interp, Raised, Returned
from .paths import Explorer, Obligation, PathEnd
from .values import (NONE, Ty, Unsupported, V, VAny, VBool, VBytes, VConc, VDict, VExc, VFunc,
                     VInt, VList, VMap, VMatch, VNone, VOpt, VRec, VSeq, VSlice, VStr, VToken,
                     VTuple, Val, TokenSort, eq, fresh, fresh_name, is_none, lit, parse_ty,
                     reset_names, sort_of, strterm, to_any, truth, ty_of, unwrap, wrap)

REPO = os.environ.get('VERIF_REPO', '/repo')
SRC = os.path.join(REPO, 'src')
PKG = os.path.join(SRC, 'chameleon')


class Contract:
    def __init__(self, target, params, requires=(), ensures=(), raises=None, loops=None,
                 modifies=(), serves=(), result=None, defaults=None, models=None, inline=(),
                 notes='', kind='K1', ghost=None, is_property=False, source=None,
                 assumes=(), rec_fields=None, max_paths=None, raises_default=None):
        self.target = target
        self.params = dict(params)
        self.requires = list(requires)
        self.ensures = list(ensures)
        self.raises = dict(raises or {})
        self.loops = dict(loops or {})
        self.modifies = list(modifies)
        self.serves = list(serves)
        self.result = result
        self.defaults = dict(defaults or {})
        self.models = dict(models or {})
        self.inline = list(inline)
        self.notes = notes
        self.kind = kind
        self.ghost = ghost or {}
        self.is_property = is_property
        self.source = source          # override: (text, name) for K2/K3 code
        self.assumes = list(assumes)  # extra assumptions at entry (documented in evidence)
        self.rec_fields = rec_fields or {}
        self.max_paths = max_paths
        self.file, self.qual = target.split('::')

    @property
    def short(self):
        return self.qual


class FunctionSource:
    _cache = {}

    def __init__(self, relfile, qual, text=None):
        self.relfile, self.qual = relfile, qual
        if text is None:
            path = os.path.join(PKG, relfile)
            key = path
            if key not in FunctionSource._cache:
                with open(path, encoding='utf-8') as f:
                    src = f.read()
                FunctionSource._cache[key] = (src, ast.parse(src))
            self.text, self.module = FunctionSource._cache[key]
        else:
            self.text, self.module = text, ast.parse(text)
        self.node = self._find(self.module, qual.split('.'))
        self.imports = self._imports(self.module)

    @staticmethod
    def _find(node, parts):
        cur = node
        for p in parts:
            found = None
            for child in ast.walk(cur) if cur is node and False else ast.iter_child_nodes(cur):
                pass
            cands = []
            for child in _iter_defs(cur):
                if getattr(child, 'name', None) == p:
                    cands.append(child)
            cands = [c for c in cands if not _is_overload(c)]
            if not cands:
                raise Unsupported('source of %s not found (looking for %s)' % ('.'.join(parts), p))
            found = cands[-1]
            cur = found
        return cur

    @staticmethod
    def _imports(module):
        out = {}
        for n in module.body:
            if isinstance(n, ast.ImportFrom) and n.module and n.module.startswith('chameleon'):
                rel = n.module.split('.', 1)[1].replace('.', '/') + '.py' if '.' in n.module else None
                for a in n.names:
                    out[a.asname or a.name] = (rel, a.name, n.module)
        return out


def _iter_defs(node):
    """function/class definitions directly inside node, looking through if/try blocks"""
    for child in ast.iter_child_nodes(node):
        if isinstance(child, (ast.FunctionDef, ast.ClassDef, ast.AsyncFunctionDef)):
            yield child
        elif isinstance(child, (ast.If, ast.Try)):
            yield from _iter_defs(child)


def _is_overload(fn):
    for d in getattr(fn, 'decorator_list', []):
        if isinstance(d, ast.Name) and d.id == 'overload':
            return True
    return False


_real_modules = {}


def real_module(relfile):
    """import the real chameleon module from VERIF_REPO (stdlib-only, safe under python3-vt)"""
    if SRC not in sys.path:
        sys.path.insert(0, SRC)
    name = 'chameleon.' + relfile[:-3].replace('/', '.')
    if name not in _real_modules:
        _real_modules[name] = importlib.import_module(name)
    return _real_modules[name]


class Registry:
    def __init__(self):
        self.contracts = {}     # target -> Contract
        self.spec_funcs = {}    # name -> ast.FunctionDef
        self.spec_prims = {}    # name -> impl(I, args, kwargs, node)
        self.regex_facts = {}   # pattern text -> fact builder
        from . import k3
        self.k3_prims = k3.k3_prims()

    def add(self, c):
        self.contracts[c.target] = c
        return c

    def load_spec_module(self, path):
        with open(path) as f:
            tree = ast.parse(f.read())
        for n in tree.body:
            if isinstance(n, ast.FunctionDef):
                self.spec_funcs[n.name] = n


class Result:
    def __init__(self, target):
        self.target = target
        self.obligations = []      # list of dict(name, status, time, backend, ...)
        self.undecided = None      # reason string if function left the subset
        self.paths = 0
        self.trivial = 0
        self.gen_time = 0.0
        self.solve_time = 0.0
        self.models_used = []
        self.named = set()


class FunctionVC:
    """Verifies one function against its contract."""

    def __init__(self, registry, contract):
        self.reg = registry
        self.c = contract
        self.qual = contract.qual
        self.obls = []
        self.trivial = 0
        self.named = set()
        self.trivial_names = []
        self._spec_cache = {}
        if contract.source is not None:
            text, qual = contract.source
            self.fn = FunctionSource(contract.file, qual, text=text)
        else:
            self.fn = FunctionSource(contract.file, contract.qual.split('@')[0])   # 'f@variant': a second contract on f

    # -- sinks --------------------------------------------------------------
    def add(self, o):
        self.obls.append(o)
        self.named.add(o.name)

    def note_named(self, name):
        self.named.add(name)

    def note_trivial(self, name, info=None):
        """an obligation whose goal simplified to True (discharged by z3.simplify)"""
        self.named.add(name)
        self.trivial_names.append((name, dict(info or {})))

    def parse_spec(self, text):
        if text not in self._spec_cache:
            self._spec_cache[text] = ast.parse(text.strip(), mode='eval').body
        return self._spec_cache[text]

    def model_option(self, key, default):
        return self.c.models.get(key, default)

    # -- name resolution ----------------------------------------------------
    def lookup_global(self, I, name):
        if self.c.kind == 'K3' and name in self.reg.k3_prims:
            return VFunc(name, impl=self.reg.k3_prims[name])
        genv = self.c.ghost.get('env')
        if genv and name in genv:
            v = genv[name]
            return v(I) if callable(v) and not isinstance(v, V) else v
        if name in self.reg.spec_prims:
            return VFunc(name, impl=self.reg.spec_prims[name])
        if name in self.reg.spec_funcs:
            return VConc(Closure(self.reg.spec_funcs[name], {}, None, name))
        # contracted function imported into / defined in this module
        tgt = None
        if name in self.fn.imports:
            rel, orig, _ = self.fn.imports[name]
            if rel:
                tgt = '%s::%s' % (rel, orig)
        else:
            tgt = '%s::%s' % (self.c.file, name)
        if tgt in self.reg.contracts and tgt != self.c.target:
            c = self.reg.contracts[tgt]
            return VFunc(name, impl=lambda I2, a, k, node, c=c: self.apply_contract(I2, c, a, k, node))
        if tgt == self.c.target and name == self.qual:
            c = self.c
            return VFunc(name, impl=lambda I2, a, k, node, c=c: self.apply_contract(I2, c, a, k, node))
        if name in self.c.inline:
            src = self._inline_source(name)
            if src is not None:
                return src
        if hasattr(_builtins, name):
            return VConc(getattr(_builtins, name))
        if I.spec_mode:
            # an unknown name in a SPECIFICATION is an error of the contract, never behaviour of the
            # program under verification
            raise Unsupported('specification refers to an unknown name %r' % name)
        if self.c.kind == 'K3':
            # a bare name the generated module does not define: Python raises NameError
            from .interp import Raised as R
            raise R(VExc(NameError, [VStr(name)]))
        mod = real_module(self.c.file)
        if hasattr(mod, name):
            return self.wrap_global(getattr(mod, name), name)
        from .interp import Raised as R
        raise R(VExc(NameError, [VStr(name)]))

    def _inline_source(self, name):
        rel = self.c.file
        orig = name
        if name in self.fn.imports and self.fn.imports[name][0]:
            rel, orig, _ = self.fn.imports[name]
        try:
            fs = FunctionSource(rel, orig)
        except Unsupported:
            return None
        return VConc(Closure(fs.node, {}, None, name))

    def wrap_global(self, val, name):
        if val is None or isinstance(val, (bool, int, str, bytes)):
            return lit(val)
        if isinstance(val, tuple):
            try:
                return VTuple([self.wrap_global(x, name) for x in val])
            except Unsupported:
                return VConc(val)
        return VConc(val)

    def call_real(self, I, o, args, kwargs, callnode):
        """a call to a real python function object without a model"""
        mod = getattr(o, '__module__', '') or ''
        qn = getattr(o, '__qualname__', None)
        if mod.startswith('chameleon') and qn:
            rel = mod.split('.', 1)[1].replace('.', '/') + '.py'
            tgt = '%s::%s' % (rel, qn)
            if tgt in self.reg.contracts:
                return self.apply_contract(I, self.reg.contracts[tgt], args, kwargs, callnode)
            if qn in self.c.inline:
                fs = FunctionSource(rel, qn)
                return I.call_closure(Closure(fs.node, {}, None, qn), args, kwargs)
            if '.' not in qn and I.inline_depth < 3:
                # a module-level helper of the repository without a contract (typically one a change
                # has just introduced): its real source is executed in place -- as sound as executing the
                # caller's own statements; if it is outside the subset the unit is undecided as before
                try:
                    fs = FunctionSource(rel, qn)
                except Unsupported:
                    fs = None
                if fs is not None:
                    I.ghost.setdefault('auto_inlined', []).append(tgt)
                    return I.call_closure(Closure(fs.node, {}, None, qn), args, kwargs)
            raise Unsupported('call to %s which has no contract' % tgt)
        return None

    # -- hooks used by models ------------------------------------------------
    def has_method_contract(self, recv, name):
        return self._method_target(recv, name) in self.reg.contracts

    def _method_target(self, recv, name):
        if isinstance(recv, VToken):
            return 'tokenize.py::Token.%s' % name
        if isinstance(recv, VRec):
            return '%s.%s' % (recv.cls, name)
        return None

    def method_contract(self, I, recv, name, args, kwargs, callnode=None, is_property=False):
        if isinstance(recv, VRec):
            from . import k3
            if recv.cls in k3.NATIVE:
                return k3.NATIVE[recv.cls](I, recv, name, args, kwargs)
        tgt = self._method_target(recv, name)
        c = self.reg.contracts.get(tgt)
        # contract variants (`f@variant`): the first whose `applies_when` guard accepts the
        # arguments (a guard is a python predicate over the evaluated arguments)
        for key, cv in self.reg.contracts.items():
            if tgt and key.startswith(tgt + '@') and cv.ghost.get('applies_when') and \
                    cv.ghost['applies_when'](args, kwargs):
                c = cv
                break
        if c is None and isinstance(recv, VRec) and 'own' in recv.fields and \
                name in ('__setitem__', '__delitem__'):
            # dict subclass that does not override the method: plain dict behaviour on its own layer
            return models.dict_method(I, recv.fields['own'], name, args, kwargs)
        if c is None:
            raise Unsupported('no contract for method %s' % tgt)
        return self.apply_contract(I, c, args, kwargs, callnode, selfv=recv)

    def rec_attr(self, I, rec, name):
        from . import k3
        if rec.cls in k3.NATIVE:
            return VFunc(name, selfv=rec)
        tgt = self._method_target(rec, name)
        c = self.reg.contracts.get(tgt)
        if c is not None:
            if c.is_property:
                return self.apply_contract(I, c, [], {}, None, selfv=rec)
            return VFunc(name, selfv=rec)
        return None

    def on_set_attr(self, I, rec, name, v):
        w = I.ghost.setdefault('writes', [])
        w.append((rec, name))

    def rec_class(self, rec):
        raise Unsupported('type() of record')

    def rec_isinstance(self, rec, c):
        return getattr(c, '__name__', None) == rec.cls.split('::')[-1]

    def obj_isinstance(self, t, c):
        f = z3.Function('obj_isinstance', Val, z3.IntSort(), z3.BoolSort())
        from .values import conc_oid
        return f(t, z3.IntVal(conc_oid(c)))

    def any_method(self, I, recv, name, args, kwargs):
        t = recv.t
        if name in ('replace', 'startswith', 'endswith', 'strip', 'lower', 'find', 'split'):
            if I.decide(z3.Or(Val.is_str(t), Val.is_tok(t)), 'any-is-str'):
                st = z3.If(Val.is_tok(t), TokenSort.s(Val.t(t)), Val.s(t))
                return models.str_method(I, z3.simplify(st), name, args, kwargs)
            raise Raised(VExc(AttributeError, [VStr(name)]))
        raise Unsupported('method %s on a dynamically typed value' % name)

    def conc_dict_get(self, I, recv, args):
        raise Unsupported('dict.get with a symbolic key on a concrete dict')

    def decode_model(self, I, recv, args, kwargs):
        return models.decode_model(I, recv, args, kwargs)

    def regex_fact(self, I, pat, how, s, m):
        fb = self.reg.regex_facts.get(pat.pattern)
        if fb is None:
            return None
        return lambda isnone: fb(I, how, s, m, isnone)

    # -- contract application at a call site ---------------------------------
    def call_ordinal(self, I, callnode):
        return I.call_ord.get(callnode, 0) if callnode is not None else 0

    def bind(self, c, args, kwargs, selfv=None, I=None):
        names = list(c.params)
        vals = ([selfv] if selfv is not None else []) + list(args)
        if len(vals) > len(names):
            raise Unsupported('too many arguments for %s' % c.target)
        bound = {}
        for n, v in zip(names, vals):
            bound[n] = v
        for n in names[len(vals):]:
            if n in kwargs:
                bound[n] = kwargs[n]
            elif n in c.defaults:
                bound[n] = lit(c.defaults[n])
            else:
                raise Unsupported('missing argument %s for %s' % (n, c.target))
        for n in bound:
            ty = parse_ty(c.params[n])
            v = bound[n]
            if I is not None and ty.name == 'str' and isinstance(v, VAny):
                # a dynamically typed argument where the callee needs a str: a str, or TypeError
                from .interp import Raised
                from .values import TokenSort
                if I.decide(Val.is_str(v.t), 'arg-is-str'):
                    v = VStr(Val.s(v.t))
                elif I.decide(Val.is_tok(v.t), 'arg-is-token'):
                    v = VStr(TokenSort.s(Val.t(v.t)))
                else:
                    raise Raised(VExc(TypeError, [VStr('expected str')]))
            bound[n] = coerce(v, ty)
        return bound

    def apply_contract(self, I, c, args, kwargs, callnode=None, selfv=None):
        if I.spec_mode:
            raise Unsupported('contracted function %s called inside a spec' % c.target)
        bound = self.bind(c, args, kwargs, selfv, I)
        k = self.call_ordinal(I, callnode)
        I.ghost.setdefault('calls', []).append((c.short, dict(bound)))
        saved_env, saved_old = I.env, I.old_env
        I.env = dict(bound)
        try:
            for j, r in enumerate(c.requires):
                I.oblige('%s.call#%d:%s.pre[%d]' % (self.qual, k, c.short, j),
                         I.spec_bool(r), 'pre', {'text': r, 'callee': c.target})
            I.old_env = {n: models.snapshot(v) for n, v in bound.items()}
            for n in c.modifies:
                if '.' in n:
                    obj, fld = n.split('.', 1)
                    rec = bound[obj]
                    rec.fields[fld] = fresh(ty_of(rec.fields[fld]), fld) if fld in rec.fields \
                        else fresh(parse_ty(c.rec_fields[fld]), fld)
                else:
                    havoc_in_place(bound[n], n)
            raises = list(c.raises.items())
            choice = I.path.choose(1 + len(raises), 'call:%s' % c.short)
            if choice == 0:
                result = fresh(parse_ty(c.result), 'ret_' + c.short.replace('.', '_')) \
                    if c.result else NONE
                I.env['result'] = result
                I.ghost.setdefault('results', []).append((c.short, result))
                for en, spec in raises:
                    if spec.get('iff') and spec.get('when'):
                        I.assume(z3.Not(I.spec_bool(spec['when'])))
                for e in c.ensures:
                    I.assume(I.spec_bool(e))
                return result
            en, spec = raises[choice - 1]
            if spec.get('when'):
                I.assume(I.spec_bool(spec['when']))
            exc = VExc(resolve_exc(en), [fresh(parse_ty(t), 'excarg') for t in spec.get('args', [])])
            I.env['exc'] = exc
            for e in spec.get('ensures', []):
                I.assume(I.spec_bool(e))
            raise Raised(exc)
        finally:
            I.env, I.old_env = saved_env, saved_old

    # -- verification of the function itself ---------------------------------
    def generate(self):
        res = Result(self.c.target)
        t0 = time.time()
        ex = Explorer(max_paths=self.c.max_paths or 4000)
        c = self.c
        try:
            for path in ex.paths():
                reset_names()
                I = Interp(self, path, self.fn, c)
                try:
                    self.run_path(I, c)
                except PathEnd:
                    continue
        except Unsupported as u:
            res.undecided = 'unsupported: %s' % u
        except RuntimeError as u:
            res.undecided = 'engine: %s' % u
        res.paths = ex.n_paths
        res.trivial = self.trivial
        res.gen_time = time.time() - t0
        res.named = set(self.named)
        return res

    def entry_params(self, I, c):
        env = {}
        fixed = c.ghost.get('fixed_params', {})
        for n, t in c.params.items():
            # a parameter fixed to a constant by the contract (stated in its requires as well)
            env[n] = lit(fixed[n]) if n in fixed else fresh(parse_ty(t), n)
        return env

    def run_path(self, I, c):
        env = self.entry_params(I, c)
        if c.ghost.get('k3_static_only'):
            I.inputs = {}
            for nm, ok, text, wit in c.ghost.get('static_checks', []):
                I.oblige(nm, z3.BoolVal(bool(ok)), 'data', {'text': text, 'static_witness': wit})
            return
        hook = c.ghost.get('entry')
        if hook:
            hook(I, env)
        I.env = dict(env)
        I.inputs = dict(env)
        for r in c.requires:
            I.assume(I.spec_bool(r))
        for r in c.assumes:
            I.assume(I.spec_bool(r))
        for r in c.ghost.get('lemmas', []):
            I.assume(I.spec_bool(r))
        I.old_env = {n: models.snapshot(v) for n, v in env.items()}
        if not I.path.taken and not I.path.prefix:
            I.cover('%s.cover.pre' % self.qual)
            for nm, ok, text, wit in c.ghost.get('static_checks', []):
                # concrete facts about the compiler's output for this schema
                I.oblige(nm, z3.BoolVal(bool(ok)), 'data', {'text': text, 'static_witness': wit})
        node = self.fn.node
        a = node.args
        # parameters not named in the contract take their source defaults
        params = [p.arg for p in a.posonlyargs + a.args]
        nd = len(a.defaults)
        if a.kwarg is not None and a.kwarg.arg not in I.env:
            I.env[a.kwarg.arg] = VDict()
        # CALL PROTOCOL contracts: parameters the callers pass BY KEYWORD.  The function may take them
        # as named (keyword-only or ordinary) parameters or collect them in its **kwargs -- the
        # contract is about what the callers pass, not about how the signature is spelled.  A keyword
        # the function cannot accept at all is a TypeError at every call: reported as an obligation.
        formal = set(params) | {p.arg for p in a.kwonlyargs}
        for kwn in c.ghost.get('call_keywords', []):
            if kwn in formal:
                continue
            v = I.env.pop(kwn)
            if a.kwarg is not None:
                I.env[a.kwarg.arg].items[kwn] = v
            else:
                I.oblige('%s.accepts[%s]' % (self.qual, kwn), z3.BoolVal(False), 'pre',
                         {'text': 'the function accepts the keyword argument %r its callers pass' % kwn})
        for p, d in zip(a.kwonlyargs, a.kw_defaults):
            if p.arg not in I.env:
                if d is None:
                    raise Unsupported('keyword-only parameter %s has no type in the contract' % p.arg)
                I.env[p.arg] = I.eval(d)
        if c.kind == 'K2' and not I.path.taken and not I.path.prefix:
            # LINKING obligation K2 <-> K3: the emitted render code calls the helper with exactly the
            # contract's parameters and the helper reads everything else (translate, decode, the i18n
            # settings in force) from the enclosing render function AT CALL TIME.  A further parameter
            # with a default would freeze that state when the helper is defined.
            extra = [p for p in params + [k_.arg for k_ in a.kwonlyargs] if p not in c.params]
            I.oblige('%s.signature' % self.qual, z3.BoolVal(not extra), 'struct',
                     {'text': 'the helper takes exactly the parameters of its contract (%s); extra: %s'
                              % (', '.join(c.params), ', '.join(extra) or 'none')})
        for i, p in enumerate(params):
            if p not in I.env:
                di = i - (len(params) - nd)
                if di < 0:
                    raise Unsupported('parameter %s has no type in the contract' % p)
                I.env[p] = I.eval(a.defaults[di])
        try:
            try:
                body = node.body
                npre = c.ghost.get('prefix_stmts')
                if npre:
                    # PARTIAL contract: only the first statements of the body are under contract
                    # (stated in the contract's notes and in the evidence); nothing is claimed
                    # about the rest, and the postconditions must be about this prefix only
                    body = [s_ for s_ in body if not (isinstance(s_, ast.Expr) and
                                                      isinstance(s_.value, ast.Constant))][:npre]
                rng = c.ghost.get('stmt_range')
                if rng:
                    # BLOCK contract: statements [a, b) of the body (docstring not counted), started
                    # in a state where the locals assigned earlier hold arbitrary values of the types
                    # the contract declares (`block_locals`); nothing is claimed about the rest
                    body = [s_ for s_ in body if not (isinstance(s_, ast.Expr) and
                                                      isinstance(s_.value, ast.Constant))]
                    if isinstance(rng[0], str):
                        # (start_source, count): the block starts at the first statement whose source
                        # is exactly `start_source` -- robust against statements added in front of it
                        at = [k_ for k_, s_ in enumerate(body) if ast.unparse(s_) == rng[0]]
                        if not at:
                            raise Unsupported('block contract: no statement %r in %s' % (rng[0], c.target))
                        body = body[at[0]:at[0] + rng[1]]
                    else:
                        body = body[rng[0]:rng[1]]
                    for n_, t_ in c.ghost.get('block_locals', {}).items():
                        I.env[n_] = fresh(parse_ty(t_), n_)
                I.exec_block(body)
                result = NONE
            except Returned as r:
                result = r.value
        except Raised as r:
            self.check_raise(I, c, r.exc, env)
            return
        # normal return (K3 posts read the final locals; K1/K2 posts read the parameters)
        if c.kind == 'K3':
            I.env = dict(I.env)
        else:
            I.env = dict(env)
        I.env['result'] = result
        for en, spec in c.raises.items():
            if spec.get('iff') and spec.get('when'):
                I.oblige('%s.raises[%s].iff' % (self.qual, en),
                         z3.Not(I.spec_bool(spec['when'])), 'raises',
                         {'text': 'returns normally only if not (%s)' % spec['when']})
        for j, e in enumerate(c.ensures):
            I.oblige('%s.post[%d]' % (self.qual, j), I.spec_bool(e), 'post', {'text': e})
        I.cover('%s.cover.ret' % self.qual)

    def check_raise(self, I, c, exc, env):
        I.env = dict(I.env) if c.kind == 'K3' else dict(env)
        I.env['exc'] = exc
        names = [k.__name__ for k in exc.cls.__mro__] if exc.cls is not None else ['*']
        spec = None
        for en, sp in c.raises.items():
            if en in names:
                spec, ename = sp, en
                break
        cname = exc.cls.__name__ if exc.cls is not None else 'SymbolicException'
        if spec is None and '*' in c.raises:
            # '*': any exception, also one whose class the engine knows concretely
            spec, ename = c.raises['*'], '*'
        if spec is None:
            I.oblige('%s.raises[%s].unexpected' % (self.qual, cname), z3.BoolVal(False),
                     'raises', {'text': 'no %s may escape' % cname})
            return
        if spec.get('when'):
            I.oblige('%s.raises[%s].when' % (self.qual, ename), I.spec_bool(spec['when']),
                     'raises', {'text': spec['when']})
        for j, e in enumerate(spec.get('ensures', [])):
            I.oblige('%s.raises[%s].post[%d]' % (self.qual, ename, j), I.spec_bool(e),
                     'raises', {'text': e})
        I.cover('%s.cover.raise[%s]' % (self.qual, ename))


def resolve_exc(name):
    if hasattr(_builtins, name):
        return getattr(_builtins, name)
    mod = real_module('exc.py')
    return getattr(mod, name)


def coerce(v, ty):
    """adapt an argument value to the declared parameter type where that is lossless"""
    n = ty.name
    if n == 'str' and isinstance(v, VToken):
        return VStr(v.s)
    if n == 'opt':
        if isinstance(v, VOpt):
            return v
        if isinstance(v, VNone):
            return VOpt(True, fresh(ty.args[0], 'unused'))
        return VOpt(False, coerce(v, ty.args[0]))
    if n == 'any' and not isinstance(v, VAny):
        return to_any(v)
    if n == 'Token' and not isinstance(v, VToken):
        raise Unsupported('argument %r where a Token is required by the contract' % (v,))
    if n == 'seq' and isinstance(v, (VList, VTuple)):
        return models.seq_of(None, v, ty.args[0])
    return v


def havoc_in_place(v, name):
    if isinstance(v, VSeq):
        v.t = fresh(Ty('seq', [v.ty]), name).t
    elif isinstance(v, VMap):
        f = fresh(Ty('map', [v.kty, v.vty]), name)
        v.has, v.val = f.has, f.val
    else:
        raise Unsupported('modifies of %r' % (v,))


# ---------------------------------------------------------------------------
# discharge
# ---------------------------------------------------------------------------
def smt2_of(pc, goal, expect):
    s = z3.Solver()
    for c in pc:
        s.add(c)
    if expect == 'valid':
        s.add(z3.Not(goal))
    else:
        s.add(goal)
    return s


def solve_obligation(o, timeout_ms=10000, use_cvc5=True, want_model=True):
    """-> dict(status in {'discharged','failed','unknown'}, backend, time, model?)

    The query is serialised to SMT-LIB text and re-parsed into a fresh solver: measured to be
    far more reliable for string queries than asserting terms incrementally, and it is the
    same text cvc5 receives."""
    t0 = time.time()
    s0 = smt2_of(o.pc, o.goal, o.expect)
    text = '(set-logic ALL)\n' + s0.to_smt2()
    s = z3.Solver()
    s.set('timeout', timeout_ms)
    try:
        s.from_string(text)
    except z3.Z3Exception:
        s = s0
        s.set('timeout', timeout_ms)
    r = s.check()
    backend = 'z3'
    model = None
    if r == z3.unknown and use_cvc5:
        r2 = cvc5_check(text, max(timeout_ms // 1000, 5) * 2)
        if r2 is not None:
            r = r2
            backend = 'cvc5'
    dt = time.time() - t0
    size = len(text)
    if o.expect == 'valid':
        if r == z3.unsat or r == 'unsat':
            return {'status': 'discharged', 'backend': backend, 'time': dt, 'smt_bytes': size}
        if r == z3.sat or r == 'sat':
            if backend == 'z3' and want_model:
                model = s.model()
            return {'status': 'failed', 'backend': backend, 'time': dt, 'model': model,
                    'smt_bytes': size}
        return {'status': 'unknown', 'backend': backend, 'time': dt, 'smt_bytes': size,
                'reason': s.reason_unknown() if backend == 'z3' else 'cvc5 unknown'}
    else:
        if r == z3.sat or r == 'sat':
            return {'status': 'discharged', 'backend': backend, 'time': dt, 'smt_bytes': size}
        if r == z3.unsat or r == 'unsat':
            return {'status': 'failed', 'backend': backend, 'time': dt, 'model': None,
                    'smt_bytes': size}
        # a cover that the solver cannot decide is not a vacuity failure
        return {'status': 'unknown', 'backend': backend, 'time': dt, 'smt_bytes': size,
                'reason': 'cover undecided'}


def cvc5_check(text, timeout_s):
    fn = None
    try:
        with tempfile.NamedTemporaryFile('w', suffix='.smt2', delete=False) as f:
            f.write(text)
            fn = f.name
        p = subprocess.run(['/usr/bin/cvc5', '--strings-exp', '--tlimit=%d' % (timeout_s * 1000), fn],
                           capture_output=True, text=True, timeout=timeout_s + 5)
        out = p.stdout.strip().split('\n')[0] if p.stdout.strip() else ''
        if out in ('sat', 'unsat'):
            return out
        return None
    except Exception:
        return None
    finally:
        try:
            os.unlink(fn)
        except Exception:
            pass


def reify(v, model):
    """symbolic input value -> JSON-able python description under a z3 model"""
    def ev(t):
        return model.eval(t, model_completion=True)
    if isinstance(v, VInt):
        return {'k': 'int', 'v': ev(v.t).as_long()}
    if isinstance(v, VBool):
        return {'k': 'bool', 'v': z3.is_true(ev(v.t))}
    if isinstance(v, VStr):
        return {'k': 'str', 'v': models.decode_z3_string(ev(v.t).as_string())}
    if isinstance(v, VBytes):
        return {'k': 'bytes', 'v': models.decode_z3_string(ev(v.t).as_string())}
    if isinstance(v, VNone):
        return {'k': 'none'}
    if isinstance(v, VOpt):
        if z3.is_true(ev(v.none)):
            return {'k': 'none'}
        return reify(v.val, model)
    if isinstance(v, VToken):
        return {'k': 'token', 's': models.decode_z3_string(ev(v.s).as_string()),
                'pos': ev(v.pos).as_long(), 'source': reify(v.source, model),
                'filename': reify(v.filename, model)}
    if isinstance(v, VSlice):
        return {'k': 'slice', 'start': reify(v.start, model), 'stop': reify(v.stop, model)}
    if isinstance(v, VTuple):
        return {'k': 'tuple', 'items': [reify(i, model) for i in v.items]}
    if isinstance(v, VSeq):
        t = ev(v.t)
        n = ev(z3.Length(v.t)).as_long()
        return {'k': 'list', 'items': [reify(wrap(v.ty, ev(v.t[i])), model) for i in range(min(n, 50))]}
    if isinstance(v, VAny):
        t = ev(v.t)
        if z3.is_true(ev(Val.is_none(t))):
            return {'k': 'none'}
        if z3.is_true(ev(Val.is_str(t))):
            return {'k': 'str', 'v': models.decode_z3_string(ev(Val.s(t)).as_string())}
        if z3.is_true(ev(Val.is_int(t))):
            return {'k': 'int', 'v': ev(Val.i(t)).as_long()}
        if z3.is_true(ev(Val.is_bool(t))):
            return {'k': 'bool', 'v': z3.is_true(ev(Val.b(t)))}
        if z3.is_true(ev(Val.is_bytes(t))):
            return {'k': 'bytes', 'v': models.decode_z3_string(ev(Val.bs(t)).as_string())}
        if z3.is_true(ev(Val.is_tok(t))):
            return reify(wrap(Ty('Token'), Val.t(t)), model)
        return {'k': 'obj', 'oid': ev(Val.oid(t)).as_long()}
    if isinstance(v, VRec):
        return {'k': 'rec', 'cls': v.cls, 'fields': {f: reify(x, model) for f, x in v.fields.items()}}
    return {'k': 'opaque', 'repr': repr(v)}
