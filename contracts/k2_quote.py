"""K2: the convert-and-escape routine `__quote` that compiler.py splices into every render
function (C02, C07, C10).  The verified text is the `source=` string of
emit_func_convert_and_escape, re-read from /repo/src/chameleon/compiler.py on every run.

Two contracts on the same text:
  K2.__quote        -- dispatch on the value (None / default / numbers / __html__ / translate)
  K2.__quote@char   -- single-character instance of the string branch (rule HOM): G1..G3
"""
import z3

from pyvc import k2, models
from pyvc.interp import Raised
from pyvc.values import (NONE, VAny, VBool, VConc, VExc, VFunc, VOpt, VStr, Val, TokenSort,
                         f_str_of, fresh, fresh_name, Ty, f_typeid, conc_oid)
from pyvc.vc import Contract

CONTRACTS = []
_T = k2.template_sources()['emit_func_convert_and_escape']
SRC = (_T['source'], 'func')
CLASS = k2.escape_class()      # read off the pattern the compiler emits for __re_needs_escape


def _needs_escape(I, args, kwargs, node):
    """__re_needs_escape = re.compile('[&<>"\\']').search : TypeError unless str; a match iff
    the subject contains one of the five characters.  In the @char instance the subject stands
    for one character of a longer string, so a match may be due to another character."""
    v = args[0]
    if CLASS is None:
        from pyvc.values import Unsupported
        raise Unsupported('__re_needs_escape is not the search method of a plain character class')
    if isinstance(v, VAny):
        if not I.decide(z3.Or(Val.is_str(v.t), Val.is_tok(v.t)), 're-subject-is-str'):
            raise Raised(VExc(TypeError, [VStr('expected string or bytes-like object')]))
        s = z3.If(Val.is_tok(v.t), TokenSort.s(Val.t(v.t)), Val.s(v.t))
    else:
        s = models.strterm(v)
    has = z3.Or([z3.Contains(s, z3.StringVal(ch)) for ch in CLASS])
    nomatch = z3.Bool(fresh_name('nomatch'))
    if I.ghost.get('char_instance'):
        I.assume(z3.Implies(nomatch, z3.Not(has)))
    else:
        I.assume(nomatch == z3.Not(has))
    return VOpt(nomatch, VConc(object()))


def _decode(I, args, kwargs, node):
    """decode(bytes) -> str (assumption A-DECODE: the configured decoder returns a str)"""
    I.ghost['decoded'] = I.ghost.get('decoded', 0) + 1
    if I.ghost.get('char_instance'):
        return VStr(I.ghost['c'])
    return VStr(z3.String(fresh_name('decoded')))


def _translate(I, args, kwargs, node):
    """translate(value, domain=, context=, target_language=): returns the value itself, a str,
    or None (assumption A-TRANSLATE); every call is recorded"""
    I.ghost.setdefault('translate_calls', []).append((args, kwargs))
    k = I.path.choose(3, 'translate-result')
    if k == 0:
        return args[0]
    if k == 1:
        if I.ghost.get('char_instance'):
            return VAny(Val.str(I.ghost['c']))
        return VAny(Val.str(z3.String(fresh_name('translated'))))
    return VAny(Val.none)


def env():
    e = {k: VConc(v) for k, v in k2.prelude_objects().items()
         if not isinstance(v, type(k2)) and k != '__re_needs_escape'}
    e.update(_env())
    return e


def _env():
    return {
        'str': VConc(str), 'type': VConc(type), 'encoded': VConc(bytes),
        '__re_needs_escape': VFunc('__re_needs_escape', impl=_needs_escape),
        'decode': VFunc('decode', impl=_decode),
        'translate': VFunc('translate', impl=_translate),
        '__i18n_domain': lambda I: fresh(Ty('any'), 'domain'),
        '__i18n_context': lambda I: fresh(Ty('any'), 'context'),
        'target_language': lambda I: fresh(Ty('any'), 'lang'),
    }


def p_translate_count(I, args, kwargs, node):
    from pyvc.values import VInt
    return VInt(len(I.ghost.get('translate_calls', [])))


def p_kind(I, args, kwargs, node):
    """kind(v) in {'none','str','bytes','int','float','bool','other'} as z3-backed tests"""
    raise NotImplementedError


def p_is_exact(I, args, kwargs, node):
    v, cls = args
    if not isinstance(v, VAny):
        v = models.to_any(v)
    return VBool(models.exact_type_term(I, v, cls.obj))


def p_has_html(I, args, kwargs, node):
    from pyvc.values import f_html_of
    v = args[0]
    return VBool(z3.Not(Val.is_none(f_html_of(v.t))))


def p_html_result(I, args, kwargs, node):
    from pyvc.values import f_html_of, f_call0
    return VAny(f_call0(f_html_of(args[0].t)))


def register(reg):
    reg.spec_prims.update({'translate_count': p_translate_count, 'is_exact': p_is_exact,
                           'has_html': p_has_html, 'html_result': p_html_result})


PARAMS = {"target": "any", "quote": "opt[str]", "quote_entity": "str", "default": "any",
          "default_marker": "any"}
QUOTE_DOMAIN = ["quote is None or quote == '\"' or quote == \"'\" or quote == '\\0'",
                "quote is None or quote_entity == entity_of(quote)"]
BYPASS = ("target is None or target is default_marker or is_exact(target, int) "
          "or is_exact(target, float) or has_html(target)")
TEXTY = "is_exact(target, str) or is_exact(target, bytes)"

CONTRACTS.append(Contract(
    "compiler.py::K2.__quote", params=PARAMS, source=SRC, kind="K2",
    requires=QUOTE_DOMAIN + ["default_marker is not None"],
    ensures=[
        "target is not None or result is None",
        "target is None or target is not default_marker or result is default",
        "target is default_marker or not is_exact(target, int) or result == str(target)",
        "target is default_marker or not is_exact(target, float) or result == str(target)",
        # documented opt-out
        "target is None or target is default_marker or (%s) or is_exact(target, int) "
        "or is_exact(target, float) or not has_html(target) or result is html_result(target)" % TEXTY,
        # message objects are offered to translate exactly once; nothing else is
        "translate_count() <= 1",
        "(translate_count() == 1) == (not (%s) and not (%s))" % (BYPASS, TEXTY),
    ],
    ghost={'env': env(), 'spec_modules': ['spec.core', 'spec.esc'],
           'harness': ('bounded.k2_harness', 'quote_dispatch'),
           'search': {'generator': ('bounded.k2_harness', 'gen_dispatch_cases')}},
    serves=["C02", "C07", "C10"],
    assumes=[],
    notes="A-DECODE: decode returns str. A-TRANSLATE: translate returns its argument, a str or None."))


def char_entry(I, env_):
    c = z3.String('c!char')
    I.ghost['char_instance'] = True
    I.ghost['c'] = c
    t = env_['target'].t
    I.ghost['chars'] = [c, Val.s(t), TokenSort.s(Val.t(t)), f_str_of(t)]
    I.assume(z3.Length(c) == 1)
    I.assume(z3.Implies(Val.is_str(t), Val.s(t) == c))
    I.assume(z3.Implies(Val.is_tok(t), TokenSort.s(Val.t(t)) == c))
    I.assume(z3.Implies(Val.is_obj(t), f_str_of(t) == c))
    q = env_['quote']
    I.ghost['chars'].append(q.val.t)
    env_['c'] = VStr(c)


CONTRACTS.append(Contract(
    "compiler.py::K2.__quote@char", params=PARAMS, source=SRC, kind="K2",
    # bool is excluded from the single-character instance: its string form is 'True'/'False'
    requires=QUOTE_DOMAIN + ["default_marker is not None", "not is_exact(target, bool)"],
    ensures=[
        # whenever escaping applies the result is None (translate said None) or an escaped str
        "(%s) or result is None or g1_no_raw_markup(text(result), quote)" % BYPASS,
        "(%s) or result is None or g2_amp_discipline(text(result), c, quote, quote_entity)" % BYPASS,
        "(%s) or result is None or g3_roundtrip(text(result), c, quote, quote_entity)" % BYPASS,
    ],
    ghost={'env': env(), 'entry': char_entry, 'spec_modules': ['spec.core', 'spec.esc'],
           'harness': ('bounded.k2_harness', 'quote_char'),
           'search': {'generator': ('bounded.k2_harness', 'gen_char_cases')}},
    serves=["C02", "C07"],
    notes="single-character instance; lifted to all strings by lemma HOM-2 (every replace "
          "pattern is one character, so each replace distributes over concatenation) whose "
          "side condition is the obligation K2.__quote.hom.shape"))


# ---------------------------------------------------------------------------------------
# K2.__convert: the conversion routine without escaping (structure: values, text templates,
# interpolation parts).  Same dispatch as __quote, no replace steps at all.
# ---------------------------------------------------------------------------------------
_TC = k2.template_sources()['emit_func_convert']
BYPASS_C = "target is None or is_exact(target, int) or is_exact(target, float) or has_html(target)"
CONTRACTS.append(Contract(
    "compiler.py::K2.__convert", params={"target": "any"}, source=(_TC['source'], 'func'), kind="K2",
    ensures=[
        "target is not None or result is None",
        "not is_exact(target, str) or result is target",
        "not is_exact(target, int) or result == str(target)",
        "not is_exact(target, float) or result == str(target)",
        "target is None or (%s) or is_exact(target, int) or is_exact(target, float) "
        "or not has_html(target) or result is html_result(target)" % TEXTY,
        "translate_count() <= 1",
        "(translate_count() == 1) == (not (%s) and not (%s))" % (BYPASS_C, TEXTY),
    ],
    ghost={'env': env(), 'spec_modules': ['spec.core', 'spec.esc']},
    serves=["C02", "C06", "C20", "C10"],
    notes="A-DECODE, A-TRANSLATE as for __quote; a str is returned as it is (no escaping: the documented "
          "opt-out of structure: / text mode)"))
