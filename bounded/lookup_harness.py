"""Concrete harness for utils.lookup_attr (C04): the REAL function on a small zoo of objects; the
trace primitives are recomputed from the object itself (attribute fetch and item lookup are
repeatable for these objects)."""
_obs = {}


class WithAttr:
    x = 1

    def __getitem__(self, key):
        return 'item:' + key


class NoItem:
    y = 2


class RaisingAttr:
    @property
    def x(self):
        raise ValueError('from the attribute')

    def __getitem__(self, key):
        return 'item'


class RaisingItem:
    def __getitem__(self, key):
        if key == 'k':
            raise KeyError(key)
        raise ZeroDivisionError(key)


class Probe:
    """an object whose attribute fetch / __getitem__ fetch / item call are programmed and logged"""

    def __init__(self, attr, has_getitem, item):
        object.__setattr__(self, '_p', (attr, has_getitem, item, []))

    def __getattribute__(self, name):
        attr, has, item, log = object.__getattribute__(self, '_p')
        if name == '__deepcopy__':
            return lambda memo: self
        if name.startswith('__') and name != '__getitem__':
            return object.__getattribute__(self, name)
        if name == '__getitem__':
            log.append(('attr:__getitem__', None))
            if not has:
                raise AttributeError(name)

            def get(key):
                log.append(('item', key))
                if item[0] == 'raise':
                    raise item[1]
                return item[1]
            return get
        log.append(('getattr', name))
        if attr[0] == 'raise':
            raise attr[1]
        return attr[1]

    def __repr__(self):
        attr, has, item, log = object.__getattribute__(self, '_p')
        return 'Probe(attr=%r, has_getitem=%r, item=%r)' % (attr, has, item)


def _log():
    o = _obs['obj']
    return object.__getattribute__(o, '_p')[3] if type(o) is Probe else None


def lookup(obj, key):
    from chameleon.utils import lookup_attr
    _obs.clear()
    _obs.update(obj=obj, key=key)
    if _log() is not None:
        del _log()[:]       # copying the environment fetched attributes as well
    return lookup_attr(obj, key)


def gen_objects():
    objs = [{'items': 1, 'x': 2}, {}, WithAttr(), NoItem(), RaisingAttr(), RaisingItem(), [1, 2], None, 'str']
    for o in objs:
        for k in ('items', 'x', 'y', 'k', 'missing', 'upper'):
            yield ({'obj': o, 'key': k}, {})
    attrs = [('ok', 'A'), ('raise', AttributeError('a')), ('raise', ValueError('v')), ('raise', KeyboardInterrupt())]
    items = [('ok', 'I'), ('raise', KeyError('k')), ('raise', IndexError(1)), ('raise', ZeroDivisionError()),
             ('raise', OSError('io')), ('raise', AttributeError('inner'))]
    for a in attrs:
        for has in (True, False):
            for it in items:
                yield ({'obj': Probe(a, has, it), 'key': 'k'}, {})


def _attr():
    try:
        return ('ok', getattr(_obs['obj'], _obs['key']))
    except BaseException as e:  # noqa
        return ('raised', e)


def _item():
    return _obs['obj'].__getitem__(_obs['key'])


def ext_raised_in(name):
    if _log() is not None:
        a, has, it, log = object.__getattribute__(_obs['obj'], '_p')
        if name == 'getattr':
            return a[0] == 'raise'
        if name == 'item':
            return any(e[0] == 'item' for e in log) and it[0] == 'raise'
    if name == 'getattr':
        return _attr()[0] == 'raised'
    raise NotImplementedError


def raised_is(name, clsname):
    import builtins
    if _log() is not None:
        a, has, it, log = object.__getattribute__(_obs['obj'], '_p')
        o = a if name == 'getattr' else it
        return ext_raised_in(name) and isinstance(o[1], getattr(builtins, clsname))
    if name == 'getattr':
        a = _attr()
        return a[0] == 'raised' and isinstance(a[1], getattr(builtins, clsname))
    raise NotImplementedError


def ext_call_result(name, k):
    if _log() is not None and k == 0:
        a, has, it, log = object.__getattribute__(_obs['obj'], '_p')
        o = a if name == 'getattr' else it
        if o[0] == 'ok':
            return o[1]
        raise NotImplementedError
    if name == 'getattr' and k == 0:
        a = _attr()
        if a[0] == 'ok':
            return a[1]
    if name == 'item' and k == 0:
        return _item()
    raise NotImplementedError


def ext_call_arg(name, k, j):
    if k == 0 and name in ('getattr', 'item'):
        return ((_obs['obj'], _obs['key']) if name == 'getattr' else (_obs['key'],))[j]
    raise NotImplementedError


def ext_index(name, k=0):
    log = _log()
    if log is None:
        raise NotImplementedError      # the order of the two lookups is not observable from outside
    idx = [i for i, e in enumerate(log) if e[0] == name]
    return idx[k] if k < len(idx) else -1


def raised_by(name):
    if _log() is None:
        raise NotImplementedError      # plain objects raise a new exception object on every attempt
    a, has, it, log = object.__getattribute__(_obs['obj'], '_p')
    o = a if name == 'getattr' else it
    if o[0] == 'raise':
        return o[1]
    raise NotImplementedError
