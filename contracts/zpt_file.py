"""zpt/template.PageTemplateFile.__init__ -> post_init (C16): "a load: expression inside a file
template looks next to that template first" -- the template's own directory is put in FRONT of
the search path its relative loader is built with, whatever the path already contains."""
from pyvc.vc import Contract
from pyvc.values import REC_FIELDS

CONTRACTS = []
PF = "zpt/template.py::PageTemplateFile"
REC_FIELDS[PF] = {"prepend_relative_search_path": "bool", "filename": "str", "_loader": "any"}
EXT = {
    'dirname': {'result': 'str', 'function': True},
    'loader_class': {'result': 'any', 'as': 'mkloader'},
    'loader.bind': {'result': 'any', 'as': 'bind'},
    'type': {'result': 'any', 'as': 'typeof'},
}
OWN = ("(env('dirname', 'str', self.filename) if package_name is None else "
       "package_name + ':' + env('dirname', 'str', self.filename))")
SP = "ext_call_kwarg('mkloader', 0, 'search_path')"

CONTRACTS.append(Contract(
    PF + ".__init__.post_init",
    params={"self": "rec[%s]" % PF, "search_path": "seq[str]", "package_name": "opt[str]",
            "loader_class": "any", "config": "any"},
    ensures=[
        "ext_index('mkloader') != -1 and ext_index('mkloader', 1) == -1",
        # own directory first, then the given path, unchanged and complete
        "not self.prepend_relative_search_path or (len(%s) == len(old(search_path)) + 1 and "
        "%s[0] == %s and %s[1:] == old(search_path))" % (SP, SP, OWN, SP),
        "self.prepend_relative_search_path or %s == old(search_path)" % SP,
        # every option of the template goes to the loader as given (one mapping, spread as it is)
        "ext_call_kwarg('mkloader', 0, '**') is config and ext_call_nkwargs('mkloader', 0) == 2",
        # the relative loader is that loader bound to the template's own class
        "self._loader is ext_call_result('bind', 0) and ext_call_arg('bind', 0, 0) is ext_call_result('typeof', 0)",
    ],
    result="none",
    ghost={'externals': EXT,
           'harness': ('bounded.fileopts_harness', 'post_init'),
           'search': {'generator': ('bounded.fileopts_harness', 'gen_configs')},
           # stated against the real code only: templates loaded through `load:` are compiled with the
           # options of the template that loads them (strict=False included: C19)
           'concrete_ensures': ["loader_gets_every_option()"]},
    serves=["C16", "C19"],
    notes="closure of __init__: its free variables (search_path, package_name, loader_class, config) "
          "are parameters of the contract; dirname is an uninterpreted function"))
