"""C18: independence of prefix spelling and non-leakage, decided by complete enumeration over the
statement catalogue x spellings (a finite domain): each statement is compiled by the real
compiler in every spelling and the emitted render code must be identical up to generated ids and
source positions; no emitted literal may contain template-language markup."""
from __future__ import annotations

import ast
import re
import time

from . import k3

TAL = 'http://xml.zope.org/namespaces/tal'
METAL = 'http://xml.zope.org/namespaces/metal'
I18N = 'http://xml.zope.org/namespaces/i18n'
META = 'http://xml.zope.org/namespaces/meta'

# (id, namespace key, attribute name, value, element content)
STATEMENTS = [
    ('define', 'tal', 'define', 'a e1', 'x'),
    ('condition', 'tal', 'condition', 'e1', 'x'),
    ('repeat', 'tal', 'repeat', 'i e1', 'x'),
    ('content', 'tal', 'content', 'e1', 'x'),
    ('replace', 'tal', 'replace', 'e1', 'x'),
    ('omit-tag', 'tal', 'omit-tag', 'e1', 'x'),
    ('attributes', 'tal', 'attributes', 'k e1', 'x'),
    ('on-error', 'tal', 'on-error', 'e1', 'x'),
    ('switch', 'tal', 'switch', 'e1', '<i %(p)scase="e2">y</i>'),
    ('translate', 'i18n', 'translate', '', 'some text'),
    ('domain', 'i18n', 'domain', 'd', 'x'),
    ('i18n-attributes', 'i18n', 'attributes', 'title', 'x'),
    ('define-macro', 'metal', 'define-macro', 'm', 'x'),
    ('use-macro', 'metal', 'use-macro', 'e1', 'x'),
    ('define-slot', 'metal', 'define-slot', 's', 'x'),
    # the meta namespace has one statement; it is part of the language like the others
    ('interpolation', 'meta', 'interpolation', 'false', '${e1}'),
    # statement values are attribute values: character references in them are decoded the same way
    # in every spelling
    ('condition+entity', 'tal', 'condition', 'e1 &lt; 3', 'x'),
    ('content+entity', 'tal', 'content', 'structure string:&lt;b&gt;&amp;', 'x'),
    ('define+entity', 'tal', 'define', "a 'x&#59;y'", 'x'),
]
URI = {'tal': TAL, 'metal': METAL, 'i18n': I18N, 'meta': META}
LEAK = re.compile(r'(\btal:|\bmetal:|\bi18n:|\bmeta:|xml\.zope\.org/namespaces|data-tal-|data-metal-|data-i18n-|data-meta-'
                  r'|\bqq:|xmlns:qq|\bTq:|xmlns:Tq)')


def spellings(ns, name, value, content):
    """{spelling id: (template text, options)}; every spelling wraps the element identically"""
    title = ' title="t"' if name == 'attributes' and ns == 'i18n' else ''
    out = {}
    inner = content % {'p': ns + ':'} if '%(p)s' in content else content
    out['default'] = ('<z><e%s %s:%s="%s">%s</e></z>' % (title, ns, name, value, inner), {})
    innerq = content % {'p': 'qq:'} if '%(p)s' in content else content
    out['renamed-on-self'] = ('<z><e%s xmlns:qq="%s" qq:%s="%s">%s</e></z>'
                              % (title, URI[ns], name, value, innerq), {})
    inneru = content % {'p': 'Tq:'} if '%(p)s' in content else content
    out['renamed-upper'] = ('<z><e%s xmlns:Tq="%s" Tq:%s="%s">%s</e></z>'
                            % (title, URI[ns], name, value, inneru), {})
    out['renamed-on-ancestor'] = ('<z xmlns:qq="%s"><e%s qq:%s="%s">%s</e></z>'
                                  % (URI[ns], title, name, value, innerq), {})
    innerd = content % {'p': 'data-%s-' % ns} if '%(p)s' in content else content
    out['data-attribute'] = ('<z><e%s data-%s-%s="%s">%s</e></z>' % (title, ns, name, value, innerd),
                             {'enable_data_attributes': True})
    # foreign material mixed in (checked for compilation and leakage only)
    out['data+foreign-data'] = ('<z><e%s data-x-y="1" data-%s-%s="%s">%s</e></z>'
                                % (title, ns, name, value, innerd), {'enable_data_attributes': True})
    out['dup-static'] = ('<z><e%s k="1" k="2" %s:%s="%s">%s</e></z>' % (title, ns, name, value, inner), {})
    # the element itself belongs to a template-language namespace (never rendered), alone and
    # together with a non-constant omit-tag / an on-error fallback (which build their own tags)
    own = '%s="%s"' % (name, value) if ns == 'tal' else '%s:%s="%s"' % (ns, name, value)
    out['ns-element'] = ('<z><tal:e %s>%s</tal:e></z>' % (own, inner), {})
    if name != 'omit-tag':
        out['ns-element+omit'] = ('<z><tal:e %s omit-tag="e8">%s</tal:e></z>' % (own, inner), {})
    if name != 'on-error':
        out['ns-element+on-error'] = ('<z><metal:e tal:on-error="e9" %s>%s</metal:e></z>'
                                      % ('%s:%s="%s"' % (ns, name, value), inner), {})
    other = 'tal:define="zz 1"' if name != 'define' else 'tal:condition="1"'
    out['data+prefixed'] = ('<z><e%s data-%s-%s="%s" %s>%s</e></z>' % (title, ns, name, value, other, innerd),
                            {'enable_data_attributes': True})
    return out


def scoped(ns, name, value, content):
    """a prefix means what the NEAREST declaration says: the same prefix bound to a foreign URI in a
    sibling subtree (before / after the statement) -- {id: (text, reference text)}"""
    title = ' title="t"' if name == 'attributes' and ns == 'i18n' else ''
    inner = content % {'p': ns + ':'} if '%(p)s' in content else content
    innerr = content % {'p': 'rb:'} if '%(p)s' in content else content
    foreign = '<f xmlns:rb="urn:x-foreign" rb:note="kept">w</f>'
    stmt = '<e%s xmlns:rb="%s" rb:%s="%s">%s</e>' % (title, URI[ns], name, value, innerr)
    ref = '<e%s %s:%s="%s">%s</e>' % (title, ns, name, value, inner)
    own = '%s="%s"' % (name, value) if ns == 'tal' else '%s:%s="%s"' % (ns, name, value)
    nsel = '<z><tal:e %s>%s</tal:e></z>' % (own, inner)
    extra = {
        # an element OF a template namespace whose prefix is declared on the element itself: the
        # declaration is in force for the element's own name
        'ns-element-self-declared': ('<z><rb:e xmlns:rb="%s" %s>%s</rb:e></z>' % (URI['tal'], own, innerr.replace('rb:', 'tal:') if ns != 'tal' else inner), nsel),
    }
    if '%(p)s' not in content:
        # ... or made the default namespace on the element itself
        extra['ns-element-default-declared'] = ('<z><e xmlns="%s" %s>%s</e></z>' % (URI['tal'], own, inner), nsel)
    extra['foreign-element-self-declared'] = (
        '<z><tal:x xmlns:tal="urn:x-foreign" k="v">w</tal:x></z>', None, '<tal:x xmlns:tal="urn:x-foreign" k="v">')
    if name not in ('replace', 'use-macro'):      # (these do not render the element's own tag)
      extra['uri-valued-attribute'] = (
        '<z><e href="%s" %s:%s="%s">%s</e></z>' % (URI[ns], ns, name, value, inner), None, ' href="%s"' % URI[ns])
    return dict(extra, **{
        'rebound-after-foreign': ('<z>%s%s</z>' % (foreign, stmt), '<z>%s%s</z>' % (foreign, ref)),
        'foreign-after-rebound': ('<z>%s%s</z>' % (stmt, foreign), '<z>%s%s</z>' % (ref, foreign)),
        # the default prefix itself re-bound to a foreign URI further down: that attribute is ordinary
        'default-prefix-rebound': ('<z>%s<f xmlns:%s="urn:x-foreign" %s:note="kept">w</f></z>' % (ref, ns, ns), None,
                                   ' %s:note="kept"' % ns),
    })


EXTRA = ('data+foreign-data', 'dup-static', 'data+prefixed', 'ns-element', 'ns-element+omit',
         'ns-element+on-error')


def normalise(source):
    """render functions only; ids -> ordinals; positions -> ordinals; comments dropped"""
    tree = ast.parse(source)
    init = [n for n in tree.body if isinstance(n, ast.FunctionDef) and n.name == 'initialize'][0]
    text = ast.unparse(init)
    ids, poss = {}, {}
    text = re.sub(r'\d{9,}', lambda m: 'N%d' % ids.setdefault(m.group(0), len(ids)), text)
    text = re.sub(r'__token = (\d+)', lambda m: '__token = P%d' % poss.setdefault(m.group(1), len(poss)), text)
    # interpolation temporaries carry the source position in their name
    text = re.sub(r'(__content_N\d+)_(\d+)', lambda m: '%s_Q' % m.group(1), text)
    return text


def literals(source):
    out = []
    for n in ast.walk(ast.parse(source)):
        if isinstance(n, ast.Call) and isinstance(n.func, ast.Name) and n.func.id.startswith('__append') \
                and n.args and isinstance(n.args[0], ast.Constant) and isinstance(n.args[0].value, str):
            out.append(n.args[0].value)
        if isinstance(n, ast.BinOp) and isinstance(n.op, ast.Mod) and isinstance(n.left, ast.Constant) \
                and isinstance(n.left.value, str):
            out.append(n.left.value)
    return out


def unit(spec):
    t0 = time.time()
    schemas, index = [], {}
    for sid, ns, name, value, content in STATEMENTS:
        for sp, (text, opts) in spellings(ns, name, value, content).items():
            key = '%s|%s' % (sid, sp)
            schemas.append({'id': key, 'text': text, 'options': opts})
            index[key] = (sid, sp, text, opts)
        # the reference for the data-attribute spelling is compiled with the same option
        text, _ = spellings(ns, name, value, content)['default']
        schemas.append({'id': '%s|default+data-option' % sid, 'text': text,
                        'options': {'enable_data_attributes': True}})
    for sid, ns, name, value, content in STATEMENTS:
        for sp, tup in scoped(ns, name, value, content).items():
            text, reftext = tup[0], tup[1]
            schemas.append({'id': '%s|%s' % (sid, sp), 'text': text, 'options': {}})
            if reftext is not None:
                schemas.append({'id': '%s|%s|ref' % (sid, sp), 'text': reftext, 'options': {}})
    compiled = k3.compile_schemas(schemas)
    obls = []
    for sid, ns, name, value, content in STATEMENTS:
        for sp, tup in scoped(ns, name, value, content).items():
            text, reftext = tup[0], tup[1]
            got = compiled['%s|%s' % (sid, sp)]
            if reftext is None:
                if 'source' not in compiled['%s|default' % sid]:
                    continue        # the statement itself is rejected in every spelling
                # ordinary markup (a prefix re-bound to a foreign namespace, an attribute whose VALUE
                # happens to be a template namespace URI) is preserved as written
                want = tup[2]
                ok = 'source' in got and any(want in l for l in literals(got['source']))
                detail = {'template': text, 'expected_in_output': want,
                          'compile_error': got.get('error'), 'message': got.get('message')}
                what = 'markup that only looks like template-language markup is preserved as written (%s)' % sp
            else:
                base = compiled['%s|%s|ref' % (sid, sp)]
                if 'source' not in base:
                    continue
                ok = 'source' in got and normalise(base['source']) == normalise(got['source'])
                detail = {'template': text, 'reference': reftext, 'compile_error': got.get('error'),
                          'message': got.get('message')}
                what = ('statement %s compiles to the same code when its prefix is bound to a foreign '
                        'namespace in a sibling subtree (%s)' % (sid, sp))
            o = {'name': 'scoped[%s,%s]' % (sid, sp), 'expect': 'valid', 'status': 'discharged' if ok else 'failed',
                 'backend': 'enumeration-complete', 'time': 0.0, 'okind': 'schema', 'tried': 'compile',
                 'text': what}
            if not ok:
                o['confirmed'] = True
                o['witness'] = {'inputs': detail, 'detail': 'emitted code differs from the reference'}
            obls.append(o)
    for sid, ns, name, value, content in STATEMENTS:
        ref = compiled['%s|default' % sid]
        refd = compiled['%s|default+data-option' % sid]
        for sp in ('renamed-on-self', 'renamed-upper', 'renamed-on-ancestor', 'data-attribute'):
            got = compiled['%s|%s' % (sid, sp)]
            base = refd if sp == 'data-attribute' else ref
            nm = 'spelling[%s,%s]' % (sid, sp)
            text = index['%s|%s' % (sid, sp)][2]
            if 'source' not in base:
                continue
            if 'source' not in got:
                ok, detail = False, {'template': text, 'compile_error': got.get('error'),
                                     'message': got.get('message')}
            else:
                ok = normalise(base['source']) == normalise(got['source'])
                detail = {'template': text, 'reference': index['%s|default' % sid][2]}
            o = {'name': nm, 'expect': 'valid', 'status': 'discharged' if ok else 'failed',
                 'backend': 'enumeration-complete', 'time': 0.0, 'okind': 'schema', 'tried': 'compile',
                 'text': 'statement %s compiles to the same code when written as %s' % (sid, sp)}
            if not ok:
                o['confirmed'] = True
                o['witness'] = {'inputs': detail, 'detail': 'emitted code differs from the default spelling'}
            obls.append(o)
        for sp in EXTRA:
            if '%s|%s' % (sid, sp) not in compiled:
                continue
            got = compiled['%s|%s' % (sid, sp)]
            text = index['%s|%s' % (sid, sp)][2]
            ok = 'source' in got or 'TemplateError' in got.get('mro', [])
            o = {'name': 'compiles[%s,%s]' % (sid, sp), 'expect': 'valid',
                 'status': 'discharged' if ok else 'failed', 'backend': 'enumeration-complete',
                 'time': 0.0, 'okind': 'schema', 'tried': 'compile',
                 'text': 'statement %s with foreign material (%s) compiles (or is rejected with a '
                         'TemplateError), never crashes' % (sid, sp)}
            if not ok:
                o['confirmed'] = True
                o['witness'] = {'inputs': {'template': text, 'options': index['%s|%s' % (sid, sp)][3]},
                                'detail': {'error': got.get('error'), 'message': got.get('message')}}
            obls.append(o)
        for sp in ('default', 'renamed-on-self', 'renamed-upper', 'renamed-on-ancestor', 'data-attribute') + EXTRA:
            if '%s|%s' % (sid, sp) not in compiled:
                continue
            got = compiled['%s|%s' % (sid, sp)]
            if 'source' not in got:
                continue
            leaks = [l for l in literals(got['source']) if LEAK.search(l)]
            o = {'name': 'no_leak[%s,%s]' % (sid, sp), 'expect': 'valid',
                 'status': 'discharged' if not leaks else 'failed', 'backend': 'enumeration-complete',
                 'time': 0.0, 'okind': 'schema', 'tried': 'compile',
                 'text': 'no literal emitted for %s (%s) contains template-language markup' % (sid, sp)}
            if leaks:
                o['confirmed'] = True
                o['witness'] = {'inputs': {'template': index['%s|%s' % (sid, sp)][2]},
                                'detail': {'leaking_literals': leaks}}
            obls.append(o)
    return {'unit': 'spelling', 'obligations': obls, 'wall': time.time() - t0,
            'function': 'zpt/program.py::MacroProgram.visit_element + parser.py::parse_tag '
                        '(through %d compilations)' % len(schemas),
            'assumptions': ['finite enumeration: %d statements x 4 spellings; complete for that domain'
                            % len(STATEMENTS)]}
