"""Concrete demonstration harness for ModuleLoader.build (C15): runs the REAL build() with
os.rename wrapped so that the state of the temporary file at the moment of the rename is
observed (a crash right after the rename leaves exactly that on disk under the final name)."""
import os
import shutil
import tempfile

_state = {}


def build_crashpoints(self, source, filename):
    from chameleon import loader
    d = tempfile.mkdtemp(prefix='pyvc-cache-')
    ml = loader.ModuleLoader(d)
    real_rename = os.rename
    obs = {}

    def rename(a, b):
        obs['size_at_rename'] = os.path.getsize(a)
        real_rename(a, b)
        obs['final_size_right_after'] = os.path.getsize(b)
    os.rename = rename
    try:
        try:
            ml.build(source, filename)
        except BaseException as e:  # noqa
            obs['raised'] = repr(e)
        name = os.path.join(d, os.path.splitext(filename)[0] + '.py')
        obs['final_size'] = os.path.getsize(name) if os.path.exists(name) else None
    finally:
        os.rename = real_rename
        shutil.rmtree(d, ignore_errors=True)
    _state.clear()
    _state.update(obs)
    return obs


def gen_build_cases():
    for src in ('x = 1\n', 'def initialize():\n    return {}\n' * 3):
        yield ({'self': None, 'source': src, 'filename': 'm%d.py' % len(src)}, {})


# concrete versions of the trace primitives: only the crash-point observation is available
def ext_names():
    raise NotImplementedError


def complete_at_rename():
    return _state.get('size_at_rename') == _state.get('final_size')


# ---------------------------------------------------------------------------------------
# TemplateLoader.load (C16): the REAL method on a scratch directory tree; the observation
# primitives of the contract (exists / join / isabs, the constructor call) are concrete
# ---------------------------------------------------------------------------------------
_load = {}


def load_first(self, spec, cls, j0):
    from chameleon.loader import TemplateLoader
    made = []

    def template_class(filename, **kw):
        made.append(filename)
        return ('template', filename)
    tl = TemplateLoader(search_path=list(self.search_path), default_extension=self.default_extension)
    _load.clear()
    _load.update(made=made, search_path=list(self.search_path), ext=self.default_extension, spec=spec)
    return tl.load(spec, template_class)


def gen_load_cases():
    import itertools
    import types
    base = tempfile.mkdtemp(prefix='pyvc-load-')
    _load['_base'] = base
    dirs = [os.path.join(base, 'd%d' % i) for i in range(3)]
    for d in dirs:
        os.makedirs(d)
    # which directories contain which file
    layout = {'a.pt': [0, 1, 2], 'b.pt': [1, 2], 'c.pt': [2], 'd': [0, 2], 'e.txt': [1]}
    for name, where in layout.items():
        for i in where:
            open(os.path.join(dirs[i], name), 'w').close()
    try:
        for spec in ('a.pt', ' b.pt ', 'c.pt', 'a', 'b', 'd', 'e.txt', 'missing.pt', os.path.join(dirs[1], 'a.pt')):
            for ext in (None, '.pt'):
                for order in itertools.permutations(range(3)):
                    for j0 in range(4):
                        yield ({'self': types.SimpleNamespace(search_path=[dirs[i] for i in order],
                                                              default_extension=ext),
                                'spec': spec, 'cls': object, 'j0': j0}, {})
    finally:
        shutil.rmtree(base, ignore_errors=True)


def _name():
    s = _load['spec'].strip()
    return s if (_load['ext'] is None or '.' in s) else s + _load['ext']


def env(fn, ty, *args):
    return {'isabs': os.path.isabs, 'exists': os.path.exists, 'pjoin': os.path.join}[fn](*args)


def ext_index(name, k=0):
    if name == 'cls':
        return k if k < len(_load['made']) else -1
    raise NotImplementedError


def ext_call_arg(name, k, j):
    if name == 'cls' and j == 0:
        return _load['made'][k]
    raise NotImplementedError


def at_loop(n, var):
    if var == 'spec':
        return _name()
    raise NotImplementedError


def loop_index(n):
    # the search-path entry the loop stopped at: the one the chosen file name was built from
    made = _load['made']
    for i, d in enumerate(_load['search_path']):
        if made and made[0] == os.path.join(d, _name()):
            return i
    raise NotImplementedError


def ext_raised_in(name):
    raise NotImplementedError     # not observable from outside


def ext_call_result(name, k):
    raise NotImplementedError


def ext_call_kwarg(name, k, kw):
    raise NotImplementedError
