"""Contracts for loader.py (C15, C16).  The file system and the lock are external: calls are
recorded in a ghost trace and the contract constrains the trace (every crash point is a prefix
of it; POSIX axioms -- rename is atomic, mkstemp names are unique -- are assumptions)."""
from pyvc.vc import Contract
from pyvc.values import REC_FIELDS

CONTRACTS = []
ML = "loader.py::ModuleLoader"
REC_FIELDS[ML] = {"path": "str"}

EXT = {
    'acquire_lock': {}, 'release_lock': {},
    'os.path.splitext': {'result': 'tuple[str,str]', 'as': 'splitext'},
    'os.path.join': {'result': 'str', 'as': 'join'},
    'tempfile.mkstemp': {'result': 'tuple[int,str]', 'raises': ['OSError'], 'as': 'mkstemp'},
    'os.fdopen': {'result': 'rec:file', 'raises': ['OSError'], 'as': 'fdopen'},
    'temp.write': {'raises': ['OSError', 'KeyboardInterrupt'], 'as': 'write'},
    'temp.close': {'raises': ['OSError'], 'as': 'close'},
    'os.remove': {'as': 'remove'},
    'os.rename': {'raises': ['OSError'], 'as': 'rename'},
    'py_compile.compile': {'raises': ['OSError'], 'as': 'compile'},
    'self._load': {'result': 'any', 'raises': ['OSError'], 'as': '_load'},
}
PURE = ('splitext', 'join')
ORDER = ("('acquire_lock', 'splitext', 'join', 'mkstemp', 'fdopen', 'write', 'write', 'close', "
         "'rename', 'compile', '_load', 'release_lock')")
ALWAYS = [
    "complete_at_rename()",
    # the temporary file is created in the cache directory itself: same file system as the final
    # name, so the rename is atomic
    "ext_index('mkstemp') == -1 or ext_call_kwarg('mkstemp', 0, 'dir') == self.path",
    # the only call that produces the final name is os.rename
    "all(n in %s for n in ext_names())" % repr(tuple(sorted({'acquire_lock', 'release_lock', 'splitext', 'join',
        'mkstemp', 'fdopen', 'write', 'close', 'remove', 'rename', 'compile', '_load'}))),
    # the lock is released last, whatever happens
    "ext_names()[-1] == 'release_lock'",
    # the final name is only ever produced by renaming the temporary file, after it was closed
    "ext_index('rename') == -1 or (ext_index('close') != -1 and ext_index('close') < ext_index('rename') "
    "and ext_index('write', 1) < ext_index('close'))",
    "ext_index('rename') == -1 or ext_call_arg('rename', 0, 0) == ext_call_result('mkstemp', 0)[1]",
    # a failed write removes the temporary file and nothing is renamed
    "not ext_raised_in('write') or (ext_index('remove') != -1 and ext_index('rename') == -1 "
    "and ext_call_arg('remove', 0, 0) == ext_call_result('mkstemp', 0)[1])",
    # nothing is compiled or loaded before the rename
    "ext_index('compile') == -1 or (ext_index('rename') != -1 and ext_index('rename') < ext_index('compile'))",
]

CONTRACTS.append(Contract(
    ML + ".build", params={"self": "rec[%s]" % ML, "source": "str", "filename": "str"},
    inline=["encode_string"],
    ensures=["ext_names() == " + ORDER,
             "ext_call_arg('rename', 0, 1) == ext_call_result('join', 0)",
             # the entry is named after the WHOLE name it was asked to store (extension replaced by
             # .py): the name carries the digest, so nothing of it may be cut or padded
             "ext_call_arg('splitext', 0, 0) == filename",
             "ext_call_arg('join', 0, 0) == self.path and "
             "ext_call_arg('join', 0, 1) == ext_call_result('splitext', 0)[0] + '.py'"] + ALWAYS,
    raises={'OSError': {'ensures': ALWAYS}, 'KeyboardInterrupt': {'ensures': ALWAYS},
            # an exception from a library call the contract does not know is not expected at all
            },
    ghost={'externals': EXT, 'open_world': True, 'harness': ('bounded.loader_harness', 'build_crashpoints'),
           'search': {'generator': ('bounded.loader_harness', 'gen_build_cases')}},
    serves=["C15"],
    notes="trace contract; crash-safety follows for every prefix of the trace under the POSIX axioms"))

# ---------------------------------------------------------------------------------------
# TemplateLoader.load (C16): first match along the search path
# ---------------------------------------------------------------------------------------
TL = "loader.py::TemplateLoader"
REC_FIELDS[TL] = {"default_extension": "opt[str]", "search_path": "seq[str]", "kwargs": "any"}
LEXT = {
    'os.path.isabs': {'result': 'bool', 'function': True, 'as': 'isabs'},
    'os.path.exists': {'result': 'bool', 'function': True, 'as': 'exists'},
    'os.path.join': {'result': 'str', 'function': True, 'as': 'pjoin'},
    'cls': {'result': 'any', 'as': 'cls'},
}
NAME = "(spec.strip() if (self.default_extension is None or '.' in spec.strip()) " \
       "else spec.strip() + self.default_extension)"
CONTRACTS.append(Contract(
    # j0 is a GHOST parameter: an arbitrary but fixed index.  Everything said about j0 holds for
    # every index (forall-introduction), which keeps the queries quantifier-free.
    TL + ".load", params={"self": "rec[%s]" % TL, "spec": "str", "cls": "any", "j0": "int"},
    requires=["cls is not None", "0 <= j0",
              # package-relative search paths and 'pkg:path' specs are outside this contract
              "':' not in spec", "':' not in spec.strip()",   # (the second follows from the first)
              "self.default_extension is None or ':' not in self.default_extension",
              ],
    ensures=[
        # the template class is instantiated exactly once ...
        "ext_index('cls', 1) == -1",
        "ext_index('cls') != -1",
        # ... with the name itself if absolute, otherwise with the FIRST search-path entry under
        # which the (extension-completed) name exists
        "not env('isabs', 'bool', %s) or ext_call_arg('cls', 0, 0) == %s" % (NAME, NAME),
        # the name looked up along the search path is the stripped, extension-completed spec
        "env('isabs', 'bool', %s) or at_loop(1, 'spec') == %s" % (NAME, NAME),
        "env('isabs', 'bool', %s) or (0 <= loop_index(1) and loop_index(1) < len(self.search_path) and "
        "ext_call_arg('cls', 0, 0) == env('pjoin', 'str', self.search_path[loop_index(1)], at_loop(1, 'spec')) and "
        "env('exists', 'bool', env('pjoin', 'str', self.search_path[loop_index(1)], at_loop(1, 'spec'))))" % NAME,
        "env('isabs', 'bool', %s) or j0 >= loop_index(1) or not env('exists', 'bool', env('pjoin', 'str', "
        "self.search_path[j0], at_loop(1, 'spec')))" % NAME,
    ],
    raises={'ValueError': {
        'when': "not env('isabs', 'bool', %s)" % NAME,
        'ensures': ["at_loop(1, 'spec') == %s" % NAME,
                    "j0 >= len(self.search_path) or not env('exists', 'bool', "
                    "env('pjoin', 'str', self.search_path[j0], at_loop(1, 'spec')))"]}},
    loops={1: {
        'inv': ["j0 >= _i or j0 >= len(self.search_path) or "
                "not env('exists', 'bool', env('pjoin', 'str', self.search_path[j0], spec))",
                "spec == entry_spec", "package_name is None"],
        # PRECONDITION (stated per index to keep the queries quantifier-light): no search-path
        # entry is package-relative ('pkg:path')
        'lemmas': ["_i >= len(self.search_path) or ':' not in self.search_path[_i]"],
    }},
    ghost={'externals': LEXT, 'harness': ('bounded.loader_harness', 'load_first'),
           'search': {'generator': ('bounded.loader_harness', 'gen_load_cases')}},
    serves=["C16"],
    notes="os.path.exists/isabs/join are uninterpreted observations of an unchanging file system; "
          "package-relative paths are excluded by the precondition"))


# ---------------------------------------------------------------------------------------
# the @cache decorator of TemplateLoader.load (C16: "returns the same instance for the same name")
# ---------------------------------------------------------------------------------------
CL = "loader.py::CachedLoader"
REC_FIELDS[CL] = {"registry": "map[any,any]"}
CONTRACTS.append(Contract(
    "loader.py::cache.load", params={"self": "rec[%s]" % CL, "args": "any", "kwargs": "any"},
    requires=[
        # no entry of the registry is None (load never returns None: it returns cls(...) or raises)
        "args not in self.registry or self.registry[args] is not None",
    ],
    ensures=[
        # a name that was loaded before gives the instance created then, without loading again
        "args not in old(self.registry) or (result is old(self.registry)[args] and ext_index('func') == -1)",
        # otherwise it is loaded exactly once and remembered under exactly these arguments
        "args in old(self.registry) or (ext_index('func') == 0 and ext_index('func', 1) == -1 and "
        "result is ext_call_result('func', 0) and ext_call_arg('func', 0, 1) is args)",
        "args in self.registry and self.registry[args] is result",
    ],
    raises={'*': {'ensures': ["ext_raised_in('func')", "same_map(self.registry, old(self.registry))"]}},
    result="any",
    ghost={'externals': {'func': {'result': 'any', 'raises_any': True}}},
    serves=["C16"],
    notes="the wrapped function is an external event; `*args` is one opaque value (the registry key)"))


# ---------------------------------------------------------------------------------------
# zpt/loader.TemplateLoader.load (C16, C02): the format selects the template class, and the class
# is part of what is remembered -- the same file asked for as text and as xml are two templates.
# The base loader's cache is keyed by the POSITIONAL arguments only (contract cache.load), so the
# class has to be passed positionally.
# ---------------------------------------------------------------------------------------
ZL = "zpt/loader.py::TemplateLoader"
REC_FIELDS[ZL] = {"formats": "map[str,any]", "default_format": "str"}
FMT = "(format if (format is not None and format != '') else self.default_format)"
CONTRACTS.append(Contract(
    ZL + ".load", params={"self": "rec[%s]" % ZL, "filename": "str", "format": "opt[str]"},
    defaults={"format": None},
    ensures=[
        "ext_index('base_load') == 0 and ext_index('base_load', 1) == -1",
        "ext_call_arg('base_load', 0, 0) == filename",
        "%s in self.formats and ext_call_arg('base_load', 0, 1) is self.formats[%s]" % (FMT, FMT),
        # both the name and the class take part in the cache key of the base loader
        "ext_call_nkwargs('base_load', 0) == 0",
        "result is ext_call_result('base_load', 0)",
    ],
    raises={'KeyError': {'when': "%s not in self.formats" % FMT, 'ensures': ["ext_index('base_load') == -1"]},
            '*': {'ensures': ["ext_raised_in('base_load')"]}},
    result="any",
    ghost={'externals': {'super().load': {'result': 'any', 'raises_any': True, 'as': 'base_load'}}},
    serves=["C16", "C02"],
    notes="the base class's (cached) load is an event of the ghost trace"))


# ---------------------------------------------------------------------------------------
# ModuleLoader._load (C15): a cached module becomes visible to later loads (sys.modules) only after
# its code has run to completion -- an interrupted load leaves nothing registered, so a retry starts
# over instead of handing out a truncated module.
# ---------------------------------------------------------------------------------------
LEXT2 = {
    'acquire_lock': {}, 'release_lock': {},
    'sys.modules.get': {'result': 'any', 'as': 'registered'},
    'SourceFileLoader': {'result': 'any', 'as': 'mkloader'},
    'spec_from_loader': {'result': 'any', 'as': 'mkspec'},
    'module_from_spec': {'result': 'any', 'as': 'mkmodule'},
    'loader.exec_module': {'raises_any': True, 'as': 'exec'},
}
LOCKED = ("ext_names()[0] == 'acquire_lock' and ext_names()[-1] == 'release_lock' and "
          "ext_index('acquire_lock', 1) == -1 and ext_index('release_lock', 1) == -1")
CONTRACTS.append(Contract(
    ML + "._load", params={"self": "rec[%s]" % ML, "base": "str", "filename": "str"},
    ensures=[
        LOCKED,
        # already loaded in this process: that module, nothing is executed again
        "ext_call_result('registered', 0) is None or (ext_index('exec') == -1 and ext_index('setitem') == -1)",
        # otherwise the file is executed exactly once and registered afterwards, under this name
        "ext_call_result('registered', 0) is not None or (ext_index('exec') != -1 and ext_index('exec', 1) == -1 "
        "and ext_index('setitem') > ext_index('exec') and ext_index('setitem', 1) == -1 "
        "and ext_call_arg('setitem', 0, 1) == base and ext_call_arg('setitem', 0, 2) is ext_call_result('mkmodule', 0) "
        "and ext_call_arg('exec', 0, 0) is ext_call_result('mkmodule', 0))",
    ],
    raises={'ModuleNotFoundError': {'ensures': [LOCKED, "ext_index('setitem') == -1"]},
            # interrupted while the module's code runs: nothing was registered
            '*': {'ensures': [LOCKED, "ext_raised_in('exec')", "ext_index('setitem') == -1"]}},
    result="any",
    ghost={'externals': LEXT2, 'open_world': True, 'opaque_subscript': True},
    serves=["C15", "C14"],
    notes="sys.modules is an opaque mapping: reads and the store are events of the ghost trace"))
