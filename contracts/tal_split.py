"""Contract for src/chameleon/tal.py::split_parts (K1) -- the deductive counterpart of B-SPLIT's
position comparison (C11: "offset ... identify exactly the offending substring").

The function scans its argument once and cuts every piece out of the argument itself
(`arg[start:i]`), so a piece keeps its own position.  What is proved, for every argument of
every length (loop invariant, variant `len(arg) - i`):

  * every piece is a Token of the argument's origin whose offset lies inside the argument and
    is either the argument's own offset or the offset just behind a semicolon of the argument
    (a clause is reported where it starts, never shifted by `;;` or `&...;` before it);
  * the first piece starts where the argument starts;
  * before the un-doubling of `;;` every piece is anchored whenever the argument is.

`j0` is a GHOST parameter (an arbitrary but fixed index, forall-introduction): everything said
about piece j0 holds for every piece; this keeps invariant and posts quantifier-free.

Not claimed here (stays with the bounded stand-in B-SPLIT): the TEXT of a piece (the source slice
with doubled semicolons undoubled is a string-rewriting function neither solver decides).
"""
from pyvc.vc import Contract

CONTRACTS = []

P_J0 = ("(is_token({p}) and same_origin({p}, arg) and arg.pos <= {p}.pos and "
        "{p}.pos <= arg.pos + len(arg) and "
        "({p}.pos == arg.pos or text(arg)[{p}.pos - arg.pos - 1] == ';'))")

CONTRACTS.append(Contract(
    "tal.py::split_parts",
    params={"arg": "Token", "j0": "int"},
    requires=["0 <= j0"],
    ensures=[
        "len(result) >= 1",
        "j0 != 0 or result[j0].pos == arg.pos",   # (j0 is arbitrary: this is the statement about piece 0)
        "j0 >= len(result) or " + P_J0.format(p="result[j0]"),
    ],
    loops={1: {
        "types": {"parts": "seq[Token]", "m": "any"},
        "inv": [
            "0 <= start and start <= i and i <= len(arg)",
            "start == 0 or text(arg)[start - 1] == ';'",
            "len(parts) > 0 or start == 0",
            "len(parts) == 0 or parts[0].pos == arg.pos",
            "j0 >= len(parts) or (" + P_J0.format(p="parts[j0]") +
            " and (not anchored(arg) or anchored(parts[j0])))",
        ],
        "decreases": "len(arg) - i",
    }},
    result="seq[Token]", serves=["C11", "C12"],
    ghost={"comprehension_index": "j0", "ghost_params": ["j0"],
           "search": {"alphabet": "a; &", "maxlen": 4, "src_maxlen": 5, "unanchored": False,
                      "values": {"j0": ["0", "1", "2"]}}},
    notes="ghost index j0; Pattern.match(s, pos) modelled as a match on s[pos:] (pattern without "
          "anchors / look-behind, checked on the parse tree); minimum match width from sre"))


# ---------------------------------------------------------------------------------------
# tal.parse_substitution (C11 / C12): the expression of tal:content / tal:replace / tal:on-error is cut
# out of the statement value itself (parser.groups is executed in place: `token[j:k]` for the spans of
# the match), so the position an error in it is reported at is the position of its text in the source
# ---------------------------------------------------------------------------------------
CONTRACTS.append(Contract(
    "tal.py::parse_substitution",
    params={"clause": "Token"},
    ensures=[
        "is_token(result[1])", "same_origin(result[1], clause)",
        "clause.pos <= result[1].pos and result[1].pos + len(result[1]) <= clause.pos + len(clause)",
        "text(result[1]) == text(clause)[result[1].pos - clause.pos:result[1].pos - clause.pos + len(result[1])]",
        "not anchored(clause) or anchored(result[1])",
    ],
    raises={'LanguageError': {'ensures': ["exc.args[1].pos == clause.pos", "text(exc.args[1]) == text(clause)",
                                           "same_origin(exc.args[1], clause)"]}},
    result="tuple[any,Token]", serves=["C11", "C12"],
    ghost={"search": {"alphabet": "a s:", "maxlen": 4, "src_maxlen": 5, "unanchored": False}},
    notes="SUBST_RE is an abstract match (spans inside the string); parser.groups inlined"))
