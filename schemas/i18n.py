"""K3 schemas for i18n (C10)."""
from pyvc.k3 import hole, schema_contracts

H1 = hole(1)
ANYRAISE = {'*': {'ensures': ["raised('h1')"]}}
CTX = ["translate_arg(0, 'domain') is i18n0('domain')",
       "translate_arg(0, 'context') is i18n0('context')",
       "translate_arg(0, 'target_language') is i18n0('target_language')"]

SPECS = [
    dict(id='S-Translate-name',
         text='A<p i18n:translate="">t  <b i18n:name="n1">%s</b>\n u</p>B' % H1,
         ensures=[
             "translate_calls() == 1",
             # id computed from the content: whitespace collapsed and trimmed, named child -> ${n1}
             "translate_arg(0, 'msgid') == 't ${n1} u'",
             "translate_arg(0, 'default') == 't ${n1} u'",
             "translate_arg(0, 'mapping')['n1'] == '<b>' + out(1) + '</b>'",
         ] + CTX + [
             # what the translation function returns is what appears in the output
             "S() == S0() + 'A<p>' + piece(translate_result(0)) + '</p>B'",
         ], raises=ANYRAISE, serves=['C10']),
    dict(id='S-Translate-name-condition',
         # the named block is the element TOGETHER with its own guard: the ${name} placeholder belongs
         # to the message whether or not the element renders; the mapping holds what it rendered
         text='A<p i18n:translate="">t  <b i18n:name="n1" tal:condition="e3">%s</b>\n u</p>B' % H1,
         ensures=[
             "translate_calls() == 1", "evals(3) == 1",
             "translate_arg(0, 'msgid') == 't ${n1} u'",
             "translate_arg(0, 'default') == 't ${n1} u'",
             "not bool(val(3)) or translate_arg(0, 'mapping')['n1'] == '<b>' + out(1) + '</b>'",
             "bool(val(3)) or (holes(1) == 0 and translate_arg(0, 'mapping')['n1'] == '')",
         ], raises={'*': {'ensures': ["raised('h1') or raised('e3')"]}}, serves=['C10']),
    dict(id='S-Translate-id',
         text='A<p i18n:translate="mid">t%s</p>B' % H1,
         ensures=[
             "translate_calls() == 1",
             "translate_arg(0, 'msgid') == 'mid'",
             "translate_arg(0, 'default') == normalize('t' + out(1))",
             "translate_arg(0, 'mapping') is None",
         ] + CTX + [
             "S() == S0() + 'A<p>' + piece(translate_result(0)) + '</p>B'",
         ], raises=ANYRAISE, serves=['C10']),
    dict(id='S-Translate-empty',
         text='A<p i18n:translate="">  \n </p>B',
         ensures=["translate_calls() == 0", "S() == S0() + 'A<p></p>B'"],
         serves=['C10']),
    dict(id='S-I18nDomain',
         text='A<p i18n:domain="d">%s</p>B' % H1,
         ensures=[
             "i18n_at('h1', 'domain') == 'd'",
             "i18n_at('h1', 'context') is i18n0('context')",
             "i18n_now('domain') is i18n0('domain')",
             "S() == S0() + 'A<p>' + out(1) + '</p>B'",
         ], raises=ANYRAISE, serves=['C10']),
    dict(id='S-I18nContext',
         text='A<p i18n:context="c">%s</p>B' % H1,
         ensures=[
             "i18n_at('h1', 'context') == 'c'",
             "i18n_at('h1', 'domain') is i18n0('domain')",
             "i18n_now('context') is i18n0('context')",
         ], raises=ANYRAISE, serves=['C10']),
    dict(id='S-I18nTarget',
         text='A<p i18n:target="e1">%s</p>B' % H1,
         ensures=[
             "evals(1) == 1",
             "i18n_at('h1', 'target_language') is val(1)",
             "i18n_now('target_language') is i18n0('target_language')",
         ], raises={'*': {'ensures': ["raised('h1') or raised('e1')"]}}, serves=['C10']),
    # the i18n settings of ONE element: each statement keeps its own value whatever other i18n
    # statements the element carries (context / target / name are read off the same attribute table)
    dict(id='S-I18nTarget-name',
         text='A<p i18n:translate="">t <b i18n:target="e1" i18n:name="n1">%s</b> u</p>B' % H1,
         ensures=[
             "evals(1) == 1",
             "i18n_at('h1', 'target_language') is val(1)",
             "i18n_at('h1', 'context') is i18n0('context')",
             "translate_calls() == 1",
             "translate_arg(0, 'msgid') == 't ${n1} u'",
             "translate_arg(0, 'target_language') is i18n0('target_language')",
         ], raises={'*': {'ensures': ["raised('h1') or raised('e1')"]}}, serves=['C10']),
    dict(id='S-I18nContext-name',
         text='A<p i18n:translate="">t <b i18n:context="c" i18n:name="n1">%s</b> u</p>B' % H1,
         ensures=[
             "i18n_at('h1', 'context') == 'c'",
             "i18n_at('h1', 'target_language') is i18n0('target_language')",
             "translate_calls() == 1",
             "translate_arg(0, 'msgid') == 't ${n1} u'",
             "translate_arg(0, 'context') is i18n0('context')",
         ], raises=ANYRAISE, serves=['C10']),
    dict(id='S-I18nContext-target-domain',
         text='A<p i18n:context="c" i18n:target="e1" i18n:domain="d">%s</p>B' % H1,
         ensures=[
             "evals(1) == 1",
             "i18n_at('h1', 'context') == 'c'",
             "i18n_at('h1', 'domain') == 'd'",
             "i18n_at('h1', 'target_language') is val(1)",
             "i18n_now('context') is i18n0('context')",
             "i18n_now('domain') is i18n0('domain')",
             "i18n_now('target_language') is i18n0('target_language')",
         ], raises={'*': {'ensures': ["raised('h1') or raised('e1')"]}}, serves=['C10']),
    dict(id='S-Content-translate',
         # an inserted value that is translated first is still escaped like every inserted value
         text='A<p tal:content="e7" i18n:translate="">x</p>B',
         ensures=[
             "evals(7) == 1",
             "val(7) is not DEFAULT() or (S() == S0() + 'A<p>x</p>B' and translate_calls() == 0)",
             "val(7) is DEFAULT() or (translate_calls() == 1 and translate_arg(0, 'msgid') is val(7))",
             "val(7) is DEFAULT() or S() == S0() + 'A<p>' + ('' if quoted(translate_result(0), None, '\\xad', None, None) is None else piece(quoted(translate_result(0), None, '\\xad', None, None))) + '</p>B'",
         ], raises={'*': {'ensures': ["raised('e7')"]}}, serves=['C10', 'C02']),
    dict(id='S-I18nAttributes',
         # "The same contract holds for attributes named in i18n:attributes": translated once, with the
         # explicit id, the static text as default, and the domain / context / TARGET LANGUAGE of the
         # nearest enclosing element
         text='A<div i18n:target="e1" i18n:domain="d"><p title="t  x" i18n:attributes="title mid">y</p></div>B',
         ensures=[
             "evals(1) == 1", "translate_calls() == 1",
             "translate_arg(0, 'msgid') == 'mid'",
             "translate_arg(0, 'default') == 't  x'",
             "translate_arg(0, 'domain') == 'd'",
             "translate_arg(0, 'context') is i18n0('context')",
             "translate_arg(0, 'target_language') is val(1)",
             # (A-TRANSLATE: the translation function returns a str or None)
             "not is_exact(translate_result(0), str) or "
             "S() == S0() + 'A<div><p title=\"' + piece(translate_result(0)) + '\">y</p></div>B'",
             "translate_result(0) is not None or S() == S0() + 'A<div><p>y</p></div>B'",
         ], raises={'*': {'ensures': ["raised('e1')"]}}, serves=['C10']),
    dict(id='S-I18nAttributes-two',
         # every entry of an i18n:attributes list has its OWN message id: the explicit one, or the
         # attribute's text
         text='A<p alt="x" title="y" i18n:attributes="alt mid; title">z</p>B',
         ensures=[
             "translate_calls() == 2",
             "translate_arg(0, 'msgid') == 'mid' and translate_arg(0, 'default') == 'x'",
             "translate_arg(1, 'msgid') == 'y' and translate_arg(1, 'default') == 'y'",
         ], raises={'*': {'ensures': ["False"]}}, serves=['C10']),
    dict(id='S-I18nAttributes-implicit-interp',
         # an attribute that is configured as implicitly translatable AND named in i18n:attributes, with
         # an interpolated value: still translated exactly once (with the explicit id)
         text='A<a title="Hello ${e1}" i18n:attributes="title mid">x</a>B',
         options={'implicit_i18n_attributes': ['title']},
         ensures=["evals(1) == 1", "translate_calls() == 1", "translate_arg(0, 'msgid') == 'mid'"],
         raises={'*': {'ensures': ["raised('e1') or translate_calls() >= 0"]}}, serves=['C10']),
]

CONTRACTS = schema_contracts(SPECS)
