"""REGEX-STRUCT (DESIGN.md 2.7): facts about a *pattern*, proved on its parse tree
(re._parser.parse of the pattern text taken from the live module of the tree under
verification).  SMT regex theories cannot host look-arounds, back-references or capture
positions; these structural decision procedures can, and they fail when the pattern is edited so
that the fact no longer holds.

TOTAL(re_xml_spe):  the pattern is  A | B  where A = one-or-more of a character class and B
  starts with one literal character and the rest of B is nullable; first(A) and first(B) are
  disjoint and their union is every character.  Hence at EVERY offset of EVERY string a
  non-empty match exists, and (finditer resumes at the previous match end) the token stream
  tiles the input: contiguous, complete, non-empty tokens.
TILING(pattern, groups): every character-consuming atom lies inside exactly one of the named
  groups (or is a back-reference to one of them), in order; hence the concatenation of those
  groups (None as '') equals m.group() for every match.
"""
from __future__ import annotations

import re
import re._constants as C
import re._parser as P
import time

from .vc import real_module

CONSUMING = {C.LITERAL, C.NOT_LITERAL, C.IN, C.ANY, C.RANGE, C.CATEGORY}


def nullable(sp):
    """can the sub-pattern match the empty string?"""
    for op, av in sp.data if hasattr(sp, 'data') else sp:
        if op in CONSUMING:
            return False
        if op in (C.MAX_REPEAT, C.MIN_REPEAT, C.POSSESSIVE_REPEAT):
            lo, hi, sub = av
            if lo > 0 and not nullable(sub):
                return False
        elif op is C.SUBPATTERN:
            if not nullable(av[3]):
                return False
        elif op is C.BRANCH:
            if not any(nullable(a) for a in av[1]):
                return False
        elif op is C.ATOMIC_GROUP:
            if not nullable(av):
                return False
        elif op is C.GROUPREF:
            return False            # conservatively: consumes
        elif op in (C.ASSERT, C.ASSERT_NOT, C.AT):
            continue
        elif op is C.GROUPREF_EXISTS:
            return False
        else:
            return False
    return True


def first_set(item):
    """('chars', frozenset) | ('not', frozenset) for a single consuming atom"""
    op, av = item
    if op is C.LITERAL:
        return ('chars', frozenset([av]))
    if op is C.NOT_LITERAL:
        return ('not', frozenset([av]))
    if op is C.IN:
        neg = bool(av and av[0][0] is C.NEGATE)
        chars = set()
        for o, a in av:
            if o is C.LITERAL:
                chars.add(a)
            elif o is C.NEGATE:
                continue
            else:
                return None
        return ('not' if neg else 'chars', frozenset(chars))
    return None


def total(spec):
    t0 = time.time()
    mod = real_module('tokenize.py')
    pat = mod.re_xml_spe
    tree = P.parse(pat.pattern, pat.flags)
    detail = {'pattern_length': len(pat.pattern)}
    ok = False
    why = ''
    try:
        assert len(tree.data) == 1 and tree.data[0][0] is C.BRANCH, 'top level is not A|B'
        alts = tree.data[0][1][1]
        assert len(alts) == 2, 'not exactly two alternatives'
        a, b = alts
        # A: one or more of a class, nothing else
        assert len(a.data) == 1 and a.data[0][0] in (C.MAX_REPEAT,) and a.data[0][1][0] >= 1 and \
            a.data[0][1][1] == C.MAXREPEAT and len(a.data[0][1][2].data) == 1, 'A is not CLASS+'
        fa = first_set(a.data[0][1][2].data[0])
        fb = first_set(b.data[0])
        assert fa is not None and fb is not None, 'first sets not simple'
        assert fb[0] == 'chars' and len(fb[1]) == 1, 'B does not start with one literal'
        assert fa == ('not', fb[1]), 'first(A) is not the complement of first(B)'
        rest = P.SubPattern(tree.state, b.data[1:])
        assert nullable(rest), 'the rest of B is not nullable'
        ok = True
        detail.update(first_A='not %r' % chr(list(fb[1])[0]), first_B=repr(chr(list(fb[1])[0])))
    except AssertionError as e:
        why = str(e)
    o = {'name': 'tokenize.re_xml_spe.total', 'expect': 'valid',
         'status': 'discharged' if ok else 'failed', 'backend': 'regexstruct', 'time': 0.0,
         'okind': 'struct', 'tried': 'parse-tree',
         'text': 'XML_SPE = A | B with first(A) u first(B) = every character, disjoint, each '
                 'alternative consuming at least one character: the lexer matches at every offset '
                 'of every string (the token stream tiles the input)'}
    if not ok:
        o['verifier_output'] = dict(detail, reason=why)
        w = total_witness(pat)
        if w:
            o['confirmed'] = True
            o['witness'] = w
    return {'unit': 'regexstruct.total', 'function': 'tokenize.py::re_xml_spe / iter_xml',
            'obligations': [o], 'wall': time.time() - t0,
            'trusted': ['re: finds a match whenever one exists; finditer resumes at the previous match end']}


def total_witness(pat):
    """directed search for a string whose tokens do not tile it"""
    import itertools
    alphabet = '<>&/!-?a ="\'[]'
    for n in range(1, 5):
        for t in itertools.product(alphabet, repeat=n):
            s = ''.join(t)
            toks = [m.group() for m in pat.finditer(s)]
            if ''.join(toks) != s or any(x == '' for x in toks):
                return {'inputs': {'body': s}, 'detail': 'tokens %r do not concatenate to the input' % (toks,)}
    return None


def consuming_atoms(sp, path, out, groups_by_index):
    """collect (group path, atom) for every consuming atom; look-arounds are skipped"""
    for op, av in sp.data:
        if op in CONSUMING:
            out.append((tuple(path), op))
        elif op in (C.MAX_REPEAT, C.MIN_REPEAT, C.POSSESSIVE_REPEAT):
            consuming_atoms(av[2], path, out, groups_by_index)
        elif op is C.SUBPATTERN:
            g = av[0]
            consuming_atoms(av[3], path + ([g] if g is not None else []), out, groups_by_index)
        elif op is C.BRANCH:
            for a in av[1]:
                consuming_atoms(a, path, out, groups_by_index)
        elif op is C.GROUPREF:
            out.append((tuple(path) + (('ref', av),), op))
        elif op in (C.ASSERT, C.ASSERT_NOT, C.AT):
            continue
        elif op is C.ATOMIC_GROUP:
            consuming_atoms(av, path, out, groups_by_index)
        else:
            out.append((tuple(path) + (('unknown', str(op)),), op))


def tiling_of(pat, names, refs=()):
    tree = P.parse(pat.pattern, pat.flags)
    gi = tree.state.groupdict
    want = {gi[n] for n in names if n in gi}
    missing = [n for n in names if n not in gi]
    atoms = []
    consuming_atoms(tree, [], atoms, gi)
    bad = []
    for path, op in atoms:
        inside = [g for g in path if isinstance(g, int) and g in want]
        isref = [g for g in path if isinstance(g, tuple) and g[0] == 'ref']
        if isref:
            if isref[0][1] not in {gi[r] for r in refs if r in gi}:
                bad.append('back-reference to group %r' % (isref[0][1],))
            continue
        if len(inside) != 1:
            bad.append('atom %s under groups %r' % (op, path))
    return missing, bad


def tiling(spec):
    t0 = time.time()
    mod = real_module('parser.py')
    obls = []
    for nm, pat, names, refs, text in (
        ('parser.attr.tiling', mod.match_single_attribute,
         ('space', 'name', 'eq', 'quote', 'value', 'alt_value'), ('quote',),
         'every character of an attribute match lies in exactly one of space/name/eq/quote/value/'
         'alt_value (closing quote = back-reference): the dissected fields reassemble the attribute'),
        ('parser.tag.tiling', mod.match_tag_prefix_and_name, ('prefix', 'name', 'suffix'), (),
         'prefix + name + suffix is the whole match of a tag head'),
    ):
        missing, bad = tiling_of(pat, names, refs)
        ok = not missing and not bad
        o = {'name': nm, 'expect': 'valid', 'status': 'discharged' if ok else 'failed',
             'backend': 'regexstruct', 'time': 0.0, 'okind': 'struct', 'tried': 'parse-tree', 'text': text}
        if not ok:
            o['verifier_output'] = {'missing_groups': missing, 'atoms_outside_groups': bad[:10],
                                    'pattern': pat.pattern}
            o['confirmed'] = False
        obls.append(o)
    return {'unit': 'regexstruct.tiling', 'function': 'parser.py::match_single_attribute / match_tag_prefix_and_name',
            'obligations': obls, 'wall': time.time() - t0,
            'trusted': ['re group/span semantics']}
