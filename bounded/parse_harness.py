"""Concrete demonstration harness for PageTemplate.parse (C03/C20/C17): the real method runs with the
program builder replaced by a recorder; the body it is handed is compared with an independent
character-by-character normalisation (CR LF and lone CR become LF in non-XML mode, nothing else
changes)."""
import itertools

_obs = {}


def expected(body, xml):
    if xml:
        return body
    out, i = [], 0
    while i < len(body):
        ch = body[i]
        if ch == '\r':
            out.append('\n')
            i += 2 if body[i + 1:i + 2] == '\n' else 1
        else:
            out.append(ch)
            i += 1
    return ''.join(out)


def parse_body(self, body):
    from chameleon.zpt import template as zt
    real = zt.MacroProgram
    _obs.clear()

    def spy(b, *a, **kw):
        _obs['body'] = b
        _obs['kw'] = kw
        return ('program',)
    zt.MacroProgram = spy
    try:
        t = zt.PageTemplate.__new__(zt.PageTemplate)
        t.content_type = self['content_type']
        _obs['xml'] = self['content_type'] == 'text/xml'
        _obs['given'] = body
        return zt.PageTemplate.parse(t, body)
    finally:
        zt.MacroProgram = real


def gen_bodies():
    pieces = ['a', '\r', '\n', '\x0c', '\x0b', '\x85', ' ', ' ', '\x1c', ' ']
    for n in range(0, 4):
        for t in itertools.product(pieces, repeat=n):
            for ct in ('text/html', 'text/xml', 'text/plain'):
                yield ({'self': {'content_type': ct}, 'body': ''.join(t)}, {})


def builder_body_is_normalised():
    return _obs.get('body') == expected(_obs['given'], _obs['xml'])
