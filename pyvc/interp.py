"""Forward symbolic executor for a subset of Python (DESIGN.md 2.3).

One Interp instance executes one path of one function under a contract.  Program
expressions fork on symbolic conditions through Path.decide(); contract ("spec")
expressions are evaluated to terms without forking.
"""
from __future__ import annotations

import ast
import builtins as _builtins
import copy

import z3

from . import models
from .paths import Obligation, PathEnd
from .values import (NONE, Ty, Unsupported, V, VAny, VBool, VBytes, VConc, VDict, VExc, VFunc,
                     VInt, VList, VMap, VMatch, VNone, VOpt, VRec, VSeq, VSlice, VStr, VToken,
                     VTuple, Val, eq, fresh, fresh_name, ident, is_none, ite, lit, parse_ty,
                     sort_of, strterm, to_any, truth, ty_of, unwrap, wrap)


class Raised(Exception):
    def __init__(self, exc):
        self.exc = exc


class Returned(Exception):
    def __init__(self, value):
        self.value = value


class BreakLoop(Exception):
    pass


class ContinueLoop(Exception):
    pass


class Closure:
    """A python function object whose body the executor runs by inlining."""

    def __init__(self, node, env, interp_globals, name=None):
        self.node, self.env, self.globals = node, env, interp_globals
        self.name = name or getattr(node, 'name', '<lambda>')


def loop_ordinals(fn_node):
    """Map loop AST node -> ordinal (source order) within a function."""
    out = {}
    k = 0
    for n in ast.walk(fn_node):
        pass
    # ast.walk is breadth-first; use an explicit in-order traversal instead
    def visit(node):
        nonlocal k
        for child in ast.iter_child_nodes(node):
            if isinstance(child, (ast.For, ast.While)):
                k += 1
                out[child] = k
            if isinstance(child, (ast.FunctionDef, ast.Lambda, ast.ClassDef)) and child is not fn_node:
                continue
            visit(child)
    visit(fn_node)
    return out


def call_ordinals(fn_node):
    """Map ast.Call node -> ordinal per callee name, in source order."""
    out = {}
    counts = {}

    def callee_name(c):
        f = c.func
        if isinstance(f, ast.Name):
            return f.id
        if isinstance(f, ast.Attribute):
            return f.attr
        return '?'

    def visit(node):
        for child in ast.iter_child_nodes(node):
            if isinstance(child, ast.Call):
                n = callee_name(child)
                counts[n] = counts.get(n, 0) + 1
                out[child] = counts[n]
            visit(child)
    visit(fn_node)
    return out


def assigned_names(stmts):
    """Names (and mutated container names) assigned anywhere in a statement list."""
    names, mutated = set(), set()

    class Vis(ast.NodeVisitor):
        def visit_Name(self, n):
            if isinstance(n.ctx, (ast.Store, ast.Del)):
                names.add(n.id)

        def visit_Subscript(self, n):
            if isinstance(n.ctx, (ast.Store, ast.Del)) and isinstance(n.value, ast.Name):
                mutated.add(n.value.id)
            self.generic_visit(n)

        def visit_Attribute(self, n):
            if isinstance(n.ctx, (ast.Store, ast.Del)) and isinstance(n.value, ast.Name):
                mutated.add(n.value.id)
            self.generic_visit(n)

        def visit_Call(self, n):
            f = n.func
            if isinstance(f, ast.Attribute) and isinstance(f.value, ast.Name) and f.attr in (
                    'append', 'insert', 'pop', 'extend', 'add', 'update', 'setdefault',
                    'remove', 'clear', 'appendleft', 'discard', 'sort', 'reverse'):
                mutated.add(f.value.id)
            self.generic_visit(n)

        def visit_FunctionDef(self, n):
            names.add(n.name)

        def visit_Lambda(self, n):
            pass
    for s in stmts:
        Vis().visit(s)
    return names, mutated


class Interp:
    def __init__(self, vc, path, fn, contract, spec_env=None):
        self.vc = vc                  # FunctionVC (registry, obligations sink)
        self.path = path
        self.fn = fn                  # FunctionSource
        self.contract = contract
        self.env = {}
        self.spec_mode = 0
        self.old_env = None
        self.loop_ord = loop_ordinals(fn.node) if fn is not None else {}
        self.call_ord = call_ordinals(fn.node) if fn is not None else {}
        self.ghost = {}               # ghost state (event traces etc.)
        self.cur_line = 0
        self.spec_env = spec_env or {}
        self.inline_depth = 0

    # ------------------------------------------------------------------
    # obligations
    # ------------------------------------------------------------------
    def oblige(self, name, goal, kind='post', info=None):
        if isinstance(goal, V):
            goal = truth(goal)
        info = dict(info or {})
        info.setdefault('kind', kind)
        info.setdefault('line', self.cur_line)
        info.setdefault('labels', list(self.path.labels))
        ws = getattr(self.vc, 'exclusions', {}).get(name)
        if ws:
            # known findings (DESIGN.md 3.3): the obligation is claimed outside the listed
            # witness regions; a second obligation records whether the finding still reproduces
            saved = self.env
            self.env = dict(getattr(self, 'inputs', {}))
            try:
                excl = z3.Or([self.spec_bool(w) for w in ws])
            finally:
                self.env = saved
            kinfo = dict(info, known=True)
            self.vc.add(Obligation(name + '#known', self.path.pc + [excl], goal, 'valid', kinfo,
                                   inputs=getattr(self, 'inputs', {})))
            goal = z3.Or(excl, goal)
        goal = z3.simplify(goal)
        if z3.is_true(goal):
            self.vc.trivial += 1
            self.vc.note_trivial(name, info)
            return
        self.vc.add(Obligation(name, self.path.pc, goal, 'valid', info,
                               inputs=getattr(self, 'inputs', {})))

    def cover(self, name):
        self.vc.add(Obligation(name, self.path.pc, z3.BoolVal(True), 'sat',
                               {'kind': 'cover', 'line': self.cur_line}))

    def assume(self, term):
        if isinstance(term, V):
            term = truth(term)
        self.path.assume(term)

    def decide(self, v, label=None):
        if isinstance(v, V):
            v = truth(v)
        return self.path.decide(v, label)

    # ------------------------------------------------------------------
    # spec evaluation
    # ------------------------------------------------------------------
    def spec(self, text, extra=None):
        """Evaluate a contract expression (string) to a V without forking."""
        node = self.vc.parse_spec(text)
        saved = self.env
        self.env = dict(self.env)
        if extra:
            self.env.update(extra)
        self.spec_mode += 1
        try:
            return self.eval(node)
        finally:
            self.spec_mode -= 1
            self.env = saved

    def spec_bool(self, text, extra=None):
        return truth(self.spec(text, extra))

    # ------------------------------------------------------------------
    # statements
    # ------------------------------------------------------------------
    def exec_block(self, stmts):
        for s in stmts:
            self.exec_stmt(s)

    def exec_stmt(self, s):
        self.cur_line = getattr(s, 'lineno', self.cur_line)
        m = getattr(self, 'st_' + type(s).__name__, None)
        if m is None:
            raise Unsupported('statement %s at line %s' % (type(s).__name__, self.cur_line))
        m(s)

    def st_Expr(self, s):
        if isinstance(s.value, ast.Constant):
            return
        if isinstance(s.value, ast.Yield):
            # generator: the yielded values form a ghost output sequence
            v = self.eval(s.value.value) if s.value.value is not None else NONE
            self.ghost.setdefault('yielded', []).append(v)
            return
        if isinstance(s.value, ast.YieldFrom):
            v = self.eval(s.value.value)
            items = models.concrete_iter(self, v)
            if items is None:
                raise Unsupported('yield from a symbolic iterable')
            self.ghost.setdefault('yielded', []).extend(items)
            return
        self.eval(s.value)

    def st_Pass(self, s):
        pass

    def st_Global(self, s):
        pass

    def st_Nonlocal(self, s):
        pass

    def st_Import(self, s):
        pass

    def st_ImportFrom(self, s):
        pass

    def st_Assign(self, s):
        v = self.eval(s.value)
        for t in s.targets:
            self.assign(t, v)

    def st_AnnAssign(self, s):
        if s.value is not None:
            self.assign(s.target, self.eval(s.value))

    def st_AugAssign(self, s):
        load = copy.copy(s.target)
        load.ctx = ast.Load()
        cur = self.eval(load)
        rhs = self.eval(s.value)
        if isinstance(cur, VList) and isinstance(s.op, ast.Add):
            if isinstance(rhs, (VList, VTuple)):
                cur.items.extend(rhs.items)
                return
        self.assign(s.target, self.binop(s.op, cur, rhs))

    def st_Return(self, s):
        raise Returned(self.eval(s.value) if s.value is not None else NONE)

    def st_Raise(self, s):
        if s.exc is None:
            cur = self.ghost.get('handling')
            if not cur:
                raise Unsupported('bare raise outside handler')
            raise Raised(cur[-1])
        e = self.eval(s.exc)
        if isinstance(e, VConc) and isinstance(e.obj, type) and issubclass(e.obj, BaseException):
            e = VExc(e.obj, [])
        if not isinstance(e, VExc):
            raise Unsupported('raise of %r' % (e,))
        raise Raised(e)

    def st_Assert(self, s):
        c = self.eval(s.test)
        if not self.decide(c, 'assert'):
            raise Raised(VExc(AssertionError, []))

    def st_If(self, s):
        c = self.eval(s.test)
        if self.decide(c, 'if@%d' % s.lineno):
            self.exec_block(s.body)
        else:
            self.exec_block(s.orelse)

    def st_Delete(self, s):
        for t in s.targets:
            if isinstance(t, ast.Name):
                self.env.pop(t.id, None)
            elif isinstance(t, ast.Subscript):
                obj = self.eval(t.value)
                models.del_item(self, obj, self.eval_index(t.slice))
            else:
                raise Unsupported('del target')

    def st_Break(self, s):
        raise BreakLoop()

    def st_Continue(self, s):
        raise ContinueLoop()

    def st_FunctionDef(self, s):
        self.env[s.name] = VConc(Closure(s, self.env, None))

    def st_Try(self, s):
        try:
            try:
                self.exec_block(s.body)
            except Raised as r:
                handled = False
                for h in s.handlers:
                    if self.exc_matches(r.exc, h.type):
                        handled = True
                        if h.name:
                            self.env[h.name] = r.exc
                        self.ghost.setdefault('handling', []).append(r.exc)
                        try:
                            self.exec_block(h.body)
                        finally:
                            self.ghost['handling'].pop()
                            if h.name:
                                self.env.pop(h.name, None)
                        break
                if not handled:
                    raise
            else:
                self.exec_block(s.orelse)
        except (Raised, Returned, BreakLoop, ContinueLoop) as pending:
            if s.finalbody:
                self.exec_block(s.finalbody)
            raise pending
        else:
            if s.finalbody:
                self.exec_block(s.finalbody)

    def st_With(self, s):
        """`with EXPR as NAME:` for objects of external contracts: leaving the block (normally or
        not) performs the object's `close`"""
        vals = []
        for item in s.items:
            v = self.eval(item.context_expr)
            if item.optional_vars is not None:
                self.assign(item.optional_vars, v)
            vals.append(v)

        def leave():
            for v in reversed(vals):
                if isinstance(v, VRec) and v.cls.startswith('ext::'):
                    self.ghost.setdefault('ext_trace', []).append(
                        {'name': 'close', 'args': [], 'kwargs': {}, 'raised': False, 'via': 'with'})
                else:
                    raise Unsupported('with-statement on %r' % (v,))
        try:
            self.exec_block(s.body)
        except (Raised, Returned, BreakLoop, ContinueLoop):
            leave()
            raise
        leave()

    def exc_matches(self, exc, type_node):
        if type_node is None:
            return True
        t = self.eval(type_node)
        classes = []
        items = t.items if isinstance(t, VTuple) else [t]
        const = all(isinstance(c, VConc) and isinstance(c.obj, type) for c in items)
        if self.ghost.get('k3') is not None:
            # emitted code: WHICH exceptions a handler catches is fixed by the language (C04: the
            # pipe / exists: catch AttributeError, NameError, LookupError, TypeError, ValueError), it
            # never depends on a value looked up in the template's variable scope
            self.oblige('%s.except_classes_constant' % self.vc.qual, z3.BoolVal(const), 'post',
                        {'text': 'the classes named by an emitted except clause are constants of the '
                                 'generated module, not values looked up at run time: '
                                 + ast.unparse(type_node)[:160]})
        if not const:
            raise Unsupported('except clause type %r' % (t,))
        classes = [c.obj for c in items]
        if exc.cls is not None:
            return any(issubclass(exc.cls, c) for c in classes)
        # symbolic exception class: decide on an uninterpreted subclass predicate
        return self.decide(models.sym_exc_isinstance(exc, classes), 'except')

    # -- loops ---------------------------------------------------------
    def st_While(self, s):
        spec = self.loop_spec(s)
        if spec is None:
            # no invariant: concrete unrolling only (conditions must simplify)
            n = 0
            while True:
                c = truth(self.eval(s.test))
                c = z3.simplify(c)
                if z3.is_false(c):
                    break
                if not z3.is_true(c):
                    raise Unsupported('while loop at line %d has a symbolic condition and no '
                                      'invariant' % s.lineno)
                n += 1
                if n > 200:
                    raise Unsupported('unrolling limit')
                try:
                    self.exec_block(s.body)
                except BreakLoop:
                    return
                except ContinueLoop:
                    continue
            self.exec_block(s.orelse)
            return
        self.cut_loop(s, spec, None)

    def abstract_loop(self, s, spec):
        """loop spec {'abstract': {'calls': [...]}}: the loop is replaced by its frame -- it runs an
        unknown number of times a body that (checked here, syntactically) calls nothing but the
        listed pure / appending helpers, so it evaluates no template expression and runs no child;
        it appends some text to the output stream, rebinds the names it assigns, and may raise"""
        allowed = set(spec['abstract'].get('calls', ()))
        for n in ast.walk(ast.Module(body=[s], type_ignores=[])):
            if isinstance(n, ast.Call):
                if isinstance(n.func, ast.Name) and n.func.id in allowed:
                    continue
                if isinstance(n.func, ast.Attribute) and n.func.attr in allowed:
                    continue
                raise Unsupported('abstract loop at line %d calls %s' % (s.lineno, ast.unparse(n.func)))
        names, mutated = assigned_names(s.body)
        for t in ast.walk(s.target):
            if isinstance(t, ast.Name):
                names.add(t.id)
        tys = spec['abstract'].get('types', {})
        for n in sorted(names | mutated):
            self.env[n] = fresh(parse_ty(tys[n]) if n in tys else Ty('any'), 'loop_' + n.strip('_'))
        st = self.ghost.get('k3')
        if st is not None:
            nel = z3.Int(fresh_name('loop_elems'))
            self.assume(nel >= 0)
            st.stream.append_text(z3.String(fresh_name('loop_out')), nel)
        step = spec.get('step')
        which = self.path.choose(3 if step else 2, 'abstract-loop-%d' % self.loop_ord.get(s))
        if which == 2:
            # ONE ARBITRARY ITERATION against its per-iteration contract: the state is the havoc'd one
            # (any number of earlier iterations), the loop target holds fresh values of the declared
            # types; `step.ensures` relate the stream before and after this iteration.  The clauses
            # are not lifted to the loop's exit (the frame above stays what the continuation knows).
            k = self.loop_ord.get(s)
            base = '%s.loop#%d' % (self.vc.qual, k)
            elts = s.target.elts if isinstance(s.target, (ast.Tuple, ast.List)) else [s.target]
            tys = step.get('types', ['any'] * len(elts))
            items = [fresh(parse_ty(t), 'iter_item%d' % j) for j, t in enumerate(tys)]
            for t, x in zip(elts, items):
                self.assign(t, x)
            self.ghost['iter_items'] = items
            self.ghost['iter_env0'] = {n_: models.snapshot(v_) for n_, v_ in self.env.items()}
            if st is not None:
                self.ghost['iter_S0'] = st.stream.text
            for r in step.get('requires', []):
                self.assume(self.spec_bool(r))
            try:
                self.exec_block(s.body)
            except (ContinueLoop, BreakLoop):
                pass
            except Raised:
                self.ghost['loop_failed'] = True
                raise
            for j, e in enumerate(step.get('ensures', [])):
                # (a per-iteration POSTCONDITION -- a statement of the property about every iteration,
                # not an auxiliary invariant: a baseline obligation that fails is a violation)
                self.oblige('%s.step[%d]' % (base, j), self.spec_bool(e), 'post', {'text': e})
            self.cover('%s.step.cover' % base)
            raise PathEnd()
        if which == 1:
            from .k3 import new_sym_exc
            exc = new_sym_exc(self, fresh_name('exc!loop'))
            exc.extra['origin'] = ('loop', self.loop_ord.get(s))
            self.ghost['raised_exc'] = exc
            self.ghost['loop_failed'] = True
            raise Raised(exc)

    def st_For(self, s):
        spec0 = self.loop_spec(s)
        if spec0 and spec0.get('abstract') is not None:
            return self.abstract_loop(s, spec0)
        it = self.eval(s.iter)
        items = models.concrete_iter(self, it)
        if items is not None:
            spec = self.loop_spec(s) or {}
            cuts = spec.get('cuts', {})
            kk = self.loop_ord.get(s)
            for pos, x in enumerate(items):
                if pos in cuts:
                    # cut point inside an exactly unrolled loop: prove the stage assertion,
                    # forget the state, continue from the assertion only
                    for j, inv in enumerate(cuts[pos]):
                        self.oblige('%s.loop#%d.cut@%d[%d]' % (self.vc.qual, kk, pos, j),
                                    self.spec_bool(inv), 'inv', {'text': inv})
                    names, mutated = assigned_names(s.body)
                    for n in sorted(names | mutated):
                        if n in self.env:
                            self.env[n] = models.havoc_value(self, self.env[n], n, spec)
                    for inv in cuts[pos]:
                        self.assume(self.spec_bool(inv))
                self.assign(s.target, x)
                try:
                    self.exec_block(s.body)
                except BreakLoop:
                    return
                except ContinueLoop:
                    continue
            self.exec_block(s.orelse)
            return
        spec = self.loop_spec(s)
        if spec is None:
            raise Unsupported('for loop at line %d iterates a symbolic sequence and has no '
                              'invariant' % s.lineno)
        self.cut_loop(s, spec, it)

    def loop_spec(self, s):
        k = self.loop_ord.get(s)
        loops = getattr(self.contract, 'loops', None) or {}
        return loops.get(k)

    def cut_loop(self, s, spec, it):
        """Hoare-style cut: init, (havoc; assume inv; body; keep), exit."""
        k = self.loop_ord.get(s)
        base = '%s.loop#%d' % (self.vc.qual, k)
        ix = spec.get('index', '_i')
        entry_env = dict(self.env)
        self.ghost.setdefault('loop_entry', {})[k] = entry_env

        def inv_env(i_term):
            e = {ix: VInt(i_term)}
            for n, v in entry_env.items():
                e['entry_' + n] = v
            return e

        seqlen = None
        if it is not None:
            seqlen = models.symbolic_len(self, it)
        # init (definitional lemmas are available at index 0 as well)
        for lem in spec.get('lemmas', []):
            self.assume(self.spec_bool(lem, inv_env(z3.IntVal(0))))
        # a list with a known spine that the loop spec types as a sequence is looked at as that
        # sequence from here on (same value; `xs[j0]` with a symbolic index needs the sequence view)
        for n, t in spec.get('types', {}).items():
            if isinstance(self.env.get(n), VList) and parse_ty(t).name == 'seq':
                self.env[n] = models.seq_of(self, self.env[n], parse_ty(t).args[0])
        for j, inv in enumerate(spec.get('inv', [])):
            self.oblige('%s.init[%d]' % (base, j), self.spec_bool(inv, inv_env(z3.IntVal(0))),
                        'inv', {'text': inv})
        # havoc
        names, mutated = assigned_names(s.body + ([ast.Assign([s.target], ast.Constant(0))]
                                                  if isinstance(s, ast.For) else []))
        for n in sorted(mutated | set(spec.get('modifies', []))):
            if n in self.env:
                self.env[n] = models.havoc_value(self, self.env[n], n, spec)
        for n in sorted(names):
            if n in self.env:
                self.env[n] = models.havoc_value(self, self.env[n], n, spec)
            elif n in spec.get('types', {}):
                self.env[n] = fresh(parse_ty(spec['types'][n]), n)
        for n, t in spec.get('types', {}).items():
            if n not in self.env:
                self.env[n] = fresh(parse_ty(t), n)
        models.havoc_ghost(self, spec)
        i = z3.Int(fresh_name(ix))
        self.assume(i >= 0)
        if seqlen is not None:
            self.assume(i <= seqlen)
        for inv in spec.get('inv', []):
            self.assume(self.spec_bool(inv, inv_env(i)))
        for lem in spec.get('lemmas', []):
            # instances of spec-function definitions (always true); assumed, never obligations
            self.assume(self.spec_bool(lem, inv_env(i)))
        which = self.path.choose(2, 'loop#%d' % k)
        self.ghost['loop_index'] = i
        if which == 0:
            # one arbitrary iteration
            if it is not None:
                self.assume(i < seqlen)
                self.assign(s.target, models.symbolic_item(self, it, i))
            else:
                if not self.decide(self.eval(s.test), 'while'):
                    raise PathEnd()
            var0 = None
            if spec.get('decreases'):
                var0 = self.spec(spec['decreases'], inv_env(i))
            try:
                self.exec_block(s.body)
            except ContinueLoop:
                pass
            except BreakLoop:
                # continue after the loop with the state at the break
                self.ghost.setdefault('loop_left_at', {})[k] = i
                self.ghost['loop_index'] = None
                return
            for j, ea in enumerate(spec.get('each', [])):
                # per-element postcondition of this iteration (lifted to all elements at exit)
                self.oblige('%s.each[%d]' % (base, j), self.spec_bool(ea, inv_env(i)),
                            'inv', {'text': ea})
            for j, inv in enumerate(spec.get('inv', [])):
                self.oblige('%s.keep[%d]' % (base, j), self.spec_bool(inv, inv_env(i + 1)),
                            'inv', {'text': inv})
            if var0 is not None:
                var1 = self.spec(spec['decreases'], inv_env(i + 1))
                self.oblige('%s.dec' % base, z3.And(var0.t >= 0, var1.t < var0.t), 'inv')
            raise PathEnd()
        # exit
        self.ghost['loop_index'] = None
        self.ghost.setdefault('loop_left_at', {})[k] = i
        if it is not None:
            self.assume(i == seqlen)
        else:
            if self.decide(self.eval(s.test), 'while-exit'):
                raise PathEnd()
        if spec.get('each'):
            # forall-introduction: sound because iteration k writes the sequence only at index k
            # (checked syntactically) so the element established by iteration k is still there
            self._check_each_frame(s, spec)
            q = z3.Int(fresh_name('each_j'))
            for ea in spec['each']:
                body = self.spec_bool(ea, inv_env(q))
                self.assume(z3.ForAll([q], z3.Implies(z3.And(q >= 0, q < seqlen), body)))
        self.exec_block(s.orelse)

    def _check_each_frame(self, s, spec):
        """`each` needs: the loop is `for IX, X in enumerate(SEQ)` and the body stores into SEQ
        only as SEQ[IX] = ... and never rebinds IX or SEQ"""
        ok = (isinstance(s, ast.For) and isinstance(s.iter, ast.Call)
              and isinstance(s.iter.func, ast.Name) and s.iter.func.id == 'enumerate'
              and isinstance(s.iter.args[0], ast.Name) and isinstance(s.target, ast.Tuple)
              and isinstance(s.target.elts[0], ast.Name))
        if not ok:
            raise Unsupported('loop spec `each` on a loop that is not `for i, x in enumerate(seq)`')
        seq, ix = s.iter.args[0].id, s.target.elts[0].id
        for n in ast.walk(ast.Module(body=s.body, type_ignores=[])):
            if isinstance(n, ast.Name) and isinstance(n.ctx, (ast.Store, ast.Del)) and n.id in (seq, ix):
                raise Unsupported('`each`: %s is rebound inside the loop' % n.id)
            if isinstance(n, ast.Subscript) and isinstance(n.ctx, (ast.Store, ast.Del)) and \
                    isinstance(n.value, ast.Name) and n.value.id == seq:
                if not (isinstance(n.slice, ast.Name) and n.slice.id == ix):
                    raise Unsupported('`each`: store into %s at an index other than %s' % (seq, ix))
            if isinstance(n, ast.Call) and isinstance(n.func, ast.Attribute) and \
                    isinstance(n.func.value, ast.Name) and n.func.value.id == seq:
                raise Unsupported('`each`: method call on %s inside the loop' % seq)

    # ------------------------------------------------------------------
    # assignment
    # ------------------------------------------------------------------
    def assign(self, target, v):
        if isinstance(target, ast.Name):
            self.env[target.id] = v
        elif isinstance(target, (ast.Tuple, ast.List)):
            items = models.unpack(self, v, len(target.elts))
            for t, x in zip(target.elts, items):
                self.assign(t, x)
        elif isinstance(target, ast.Subscript):
            obj = self.eval(target.value)
            models.set_item(self, obj, self.eval_index(target.slice), v)
        elif isinstance(target, ast.Attribute):
            obj = self.eval(target.value)
            models.set_attr(self, obj, target.attr, v)
        else:
            raise Unsupported('assignment target %s' % type(target).__name__)

    # ------------------------------------------------------------------
    # expressions
    # ------------------------------------------------------------------
    def eval(self, e):
        m = getattr(self, 'ex_' + type(e).__name__, None)
        if m is None:
            raise Unsupported('expression %s at line %s' % (type(e).__name__, self.cur_line))
        return m(e)

    def ex_Constant(self, e):
        if e.value is Ellipsis:
            return VConc(Ellipsis)
        return lit(e.value)

    def ex_Name(self, e):
        n = e.id
        if n in self.env:
            return self.env[n]
        return self.vc.lookup_global(self, n)

    def ex_Tuple(self, e):
        return VTuple([self.eval(x) for x in e.elts])

    def ex_List(self, e):
        return VList([self.eval(x) for x in e.elts])

    def ex_Set(self, e):
        return VConc(frozenset(models.concretise(self.eval(x)) for x in e.elts))

    def ex_Dict(self, e):
        d = VDict()
        for k, v in zip(e.keys, e.values):
            d.items[models.dict_key(self.eval(k))] = self.eval(v)
        return d

    def ex_JoinedStr(self, e):
        parts = []
        for v in e.values:
            if isinstance(v, ast.Constant):
                parts.append(z3.StringVal(v.value))
            else:
                parts.append(models.to_str(self, self.eval(v.value)).t)
        if not parts:
            return VStr('')
        return VStr(z3.Concat(*parts) if len(parts) > 1 else parts[0])

    def ex_Lambda(self, e):
        return VConc(Closure(e, self.env, None))

    def ex_IfExp(self, e):
        c = self.eval(e.test)
        if self.spec_mode:
            return ite(truth(c), self.eval(e.body), self.eval(e.orelse))
        return self.eval(e.body) if self.decide(c, 'ifexp') else self.eval(e.orelse)

    def ex_BoolOp(self, e):
        if self.spec_mode:
            vals = []
            for sub in e.values:
                v = self.eval(sub)
                vals.append(v)
                # python's own short circuit, when the operand is decided outright (so that
                # `len(xs) == 0 or xs[0]...` can be stated about a list whose spine is known)
                try:
                    ts_ = z3.simplify(truth(v))
                except Exception:
                    ts_ = None
                if ts_ is not None and ((isinstance(e.op, ast.Or) and z3.is_true(ts_)) or
                                        (isinstance(e.op, ast.And) and z3.is_false(ts_))):
                    break
            if all(isinstance(v, (VBool,)) for v in vals):
                ts = [v.t for v in vals]
                return VBool(z3.And(*ts) if isinstance(e.op, ast.And) else z3.Or(*ts))
            acc = vals[-1]
            for v in reversed(vals[:-1]):
                if isinstance(e.op, ast.And):
                    acc = self._merge_boolop(truth(v), acc, v)
                else:
                    acc = self._merge_boolop(truth(v), v, acc)
            return acc
        last = None
        for v in e.values:
            last = self.eval(v)
            t = self.decide(last, 'boolop')
            if isinstance(e.op, ast.And) and not t:
                return last
            if isinstance(e.op, ast.Or) and t:
                return last
        return last

    def _merge_boolop(self, c, a, b):
        try:
            return ite(c, a, b)
        except Unsupported:
            return VBool(z3.If(c, truth(a), truth(b)))

    def ex_UnaryOp(self, e):
        v = self.eval(e.operand)
        if isinstance(e.op, ast.Not):
            return VBool(z3.Not(truth(v)))
        if isinstance(e.op, ast.USub):
            if isinstance(v, VBool):
                v = VInt(z3.If(v.t, 1, 0))
            return VInt(-v.t)
        if isinstance(e.op, ast.UAdd):
            return v
        raise Unsupported('unary op')

    def ex_BinOp(self, e):
        return self.binop(e.op, self.eval(e.left), self.eval(e.right))

    def binop(self, op, a, b):
        return models.binop(self, op, a, b)

    def ex_Compare(self, e):
        left = self.eval(e.left)
        res = None
        for op, rnode in zip(e.ops, e.comparators):
            right = self.eval(rnode)
            c = models.compare(self, op, left, right)
            if res is None:
                res = c
            elif self.spec_mode:
                res = z3.And(res, c)
            else:
                if not self.decide(res, 'cmp'):
                    return VBool(False)
                res = c
            left = right
        return VBool(res)

    def ex_Attribute(self, e):
        obj = self.eval(e.value)
        return models.get_attr(self, obj, e.attr)

    def eval_index(self, sl):
        if isinstance(sl, ast.Slice):
            def part(x):
                return NONE if x is None else self.eval(x)
            return VSlice(part(sl.lower), part(sl.upper), part(sl.step))
        return self.eval(sl)

    def ex_Slice(self, e):
        return self.eval_index(e)

    def ex_Subscript(self, e):
        obj = self.eval(e.value)
        idx = self.eval_index(e.slice)
        return models.get_item(self, obj, idx)

    def ex_ListComp(self, e):
        m = self._comp_map(e)
        if m is not None:
            return m
        return VList(self._comp(e, e.elt))

    def _comp_map(self, e):
        """MAP RULE: `[f(x) for x in SEQ]` over a symbolic sequence, when the contract names a ghost
        index (`ghost['comprehension_index']`).  The result is a fresh sequence of the same length;
        the element expression is executed once, for an ARBITRARY index q (so every way it can
        raise is a path of the caller) which is the ghost index whenever that is in range; only
        `result[q] == f(SEQ[q])` is assumed.  Sound for every element because q is arbitrary; the
        element expression must not write (checked: no named expression, only calls of methods
        under contract or pure models - anything else is Unsupported inside eval)."""
        gname = (getattr(self.contract, 'ghost', None) or {}).get('comprehension_index')
        if gname is None or self.spec_mode or len(e.generators) != 1:
            return None
        g = e.generators[0]
        if g.ifs or not isinstance(g.target, ast.Name) or g.is_async:
            return None
        if any(isinstance(n, ast.NamedExpr) for n in ast.walk(e.elt)):
            return None
        it = self.eval(g.iter)
        if models.concrete_iter(self, it) is not None or not isinstance(it, VSeq):
            return None
        if gname not in self.env:
            return None
        n = models.symbolic_len(self, it)
        j0 = self.env[gname].t
        if not self.decide(n > 0, 'comp-nonempty'):
            from .values import fresh as _fresh
            r = _fresh(Ty('seq', [it.ty]), 'comp')
            self.assume(z3.Length(r.t) == 0)
            return r
        q = z3.Int(fresh_name('comp_q'))
        self.assume(z3.And(q >= 0, q < n))
        self.assume(z3.Implies(z3.And(j0 >= 0, j0 < n), q == j0))
        saved = dict(self.env)
        self.assign(g.target, models.symbolic_item(self, it, q))
        v = self.eval(e.elt)
        self.env = saved
        from .values import fresh as _fresh, ty_of as _ty_of
        r = _fresh(Ty('seq', [_ty_of(v)]), 'comp')
        self.assume(z3.Length(r.t) == n)
        from .values import unwrap as _unwrap
        self.assume(r.t[q] == _unwrap(r.ty, v))
        models.used('comprehension map rule (ghost index %s)' % gname)
        return r

    def ex_GeneratorExp(self, e):
        if self.spec_mode and len(e.generators) == 1:
            q = self._quantified_gen(e)
            if q is not None:
                return q
        return VList(self._comp(e, e.elt))

    def ex_SetComp(self, e):
        return VConc(frozenset(models.concretise(x) for x in self._comp(e, e.elt)))

    def _quantified_gen(self, e):
        """`P(i) for i in range(lo, hi)` in a spec => marker consumed by all()/any()"""
        g = e.generators[0]
        if isinstance(g.iter, ast.Call) and isinstance(g.iter.func, ast.Name) and \
                g.iter.func.id == 'range' and isinstance(g.target, ast.Name):
            args = [self.eval(a) for a in g.iter.args]
            if all(isinstance(a, VConc) or (isinstance(a, VInt) and z3.is_int_value(a.t))
                   for a in args):
                return None
            lo, hi = (VInt(0), args[0]) if len(args) == 1 else (args[0], args[1])
            return models.QuantGen(self, g.target.id, lo.t, hi.t, e.elt, g.ifs)
        return None

    def _comp(self, e, elt):
        out = []

        def rec(gi):
            if gi == len(e.generators):
                out.append(self.eval(elt))
                return
            g = e.generators[gi]
            items = models.concrete_iter(self, self.eval(g.iter))
            if items is None:
                raise Unsupported('comprehension over a symbolic sequence (line %s)' % self.cur_line)
            for x in items:
                self.assign(g.target, x)
                ok = True
                for c in g.ifs:
                    cv = self.eval(c)
                    if self.spec_mode:
                        cs = z3.simplify(truth(cv))
                        if z3.is_false(cs):
                            ok = False
                            break
                        if not z3.is_true(cs):
                            raise Unsupported('symbolic filter in a spec comprehension')
                    elif not self.decide(cv, 'compif'):
                        ok = False
                        break
                if ok:
                    rec(gi + 1)
        saved = dict(self.env)
        rec(0)
        self.env = saved
        return out

    def ex_Call(self, e):
        return models.call(self, e)

    def ex_NamedExpr(self, e):
        v = self.eval(e.value)
        self.assign(e.target, v)
        return v

    def ex_Starred(self, e):
        raise Unsupported('starred expression')

    # ------------------------------------------------------------------
    # inlining of closures and transparent functions
    # ------------------------------------------------------------------
    def call_closure(self, clo, args, kwargs, contract=None):
        node = clo.node
        a = node.args
        params = [p.arg for p in a.posonlyargs + a.args]
        env = dict(clo.env)
        defaults = a.defaults
        nd = len(defaults)
        for i, p in enumerate(params):
            if i < len(args):
                env[p] = args[i]
            elif p in kwargs:
                env[p] = kwargs[p]
            else:
                di = i - (len(params) - nd)
                if di < 0:
                    raise Unsupported('missing argument %s in call to %s' % (p, clo.name))
                d = defaults[di]
                env[p] = clo.default_values[di] if hasattr(clo, 'default_values') else \
                    self._eval_in(d, clo.env)
        for p, d in zip(a.kwonlyargs, a.kw_defaults):
            env[p.arg] = kwargs[p.arg] if p.arg in kwargs else self._eval_in(d, clo.env)
        if a.vararg:
            env[a.vararg.arg] = VTuple(args[len(params):])
        saved, saved_fn = self.env, (self.loop_ord, self.call_ord, self.contract)
        self.env = env
        self.inline_depth += 1
        if self.inline_depth > 40:
            raise Unsupported('inlining depth')
        try:
            if isinstance(node, ast.Lambda):
                return self.eval(node.body)
            self.loop_ord = loop_ordinals(node)
            self.call_ord = call_ordinals(node)
            if contract is not None:
                self.contract = contract
            try:
                self.exec_block(node.body)
            except Returned as r:
                return r.value
            return NONE
        finally:
            self.inline_depth -= 1
            self.env = saved
            self.loop_ord, self.call_ord, self.contract = saved_fn

    def _eval_in(self, node, env):
        saved = self.env
        self.env = dict(env)
        try:
            return self.eval(node)
        finally:
            self.env = saved
