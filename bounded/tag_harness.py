"""Concrete harness for parser.match_tag (C11): the REAL function on tag-like tokens."""


def match_tag(token):
    from chameleon.parser import match_tag as f
    return f(token)


def gen_tag_tokens():
    from chameleon.tokenize import Token
    for s in ('</', '</>', '</ >', '<>', '< >', '</ a>', '<a>', '</a>', '<a b="c">', '<a/>', '<a', '</a',
              '<\n>', '<:>', '<a:>', '</:a>'):
        yield ({'token': Token(s, 0, s)}, {})


