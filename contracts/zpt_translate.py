"""zpt/template.PageTemplate.render -> translate (C10): when an output encoding is set the
translation function reaches the compiled code through a wrapper that decodes byte message ids.
The wrapper must be TRANSPARENT: "the domain, context and target language set by the nearest
enclosing element", the mapping and the default all arrive at the real translation function
unchanged, which is called exactly once and whose answer is the answer.

The contract is stated on the CALL PROTOCOL of the compiled code -- translate(msgid, domain=...,
mapping=..., default=..., context=..., target_language=...) -- not on how the wrapper spells its
signature (named keyword parameters or **kwargs)."""
from pyvc.vc import Contract

CONTRACTS = []
KW = ['domain', 'mapping', 'default', 'context', 'target_language']
EXT = {
    'txl': {'result': 'any', 'raises_any': True},
    'bytes.decode': {'result': 'str', 'raises_any': True, 'as': 'decode'},
}

CONTRACTS.append(Contract(
    "zpt/template.py::PageTemplate.render.translate",
    params=dict({"msgid": "any", "txl": "any", "encoding": "str"}, **{k: "any" for k in KW}),
    ensures=[
        "ext_index('txl') != -1 and ext_index('txl', 1) == -1",
        "result is ext_call_result('txl', 0)",
    ] + ["ext_call_kwarg('txl', 0, %r) is %s" % (k, k) for k in KW] + [
        # the message id itself, or its decoding with the template's encoding when it is bytes
        "(ext_index('decode') == -1 and ext_call_arg('txl', 0, 0) is msgid) or "
        "(ext_index('decode') == 0 and ext_index('decode', 1) == -1 and ext_call_arg('decode', 0, 0) is msgid "
        "and ext_call_arg('decode', 0, 1) == encoding and ext_call_arg('txl', 0, 0) == ext_call_result('decode', 0))",
    ],
    raises={'*': {'ensures': ["ext_raised_in('txl') or ext_raised_in('decode')"]}},
    result="any", serves=["C10"],
    ghost={'externals': EXT, 'call_keywords': KW,
           'harness': ('bounded.translate_harness', 'wrapped_translate'),
           'search': {'generator': ('bounded.translate_harness', 'gen_calls')}},
    notes="closure of PageTemplate.render (taken when an encoding is configured); txl is the opaque real "
          "translation function, bytes.decode an external"))
