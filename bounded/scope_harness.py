"""Concrete harness for utils.Scope.copy (C05): chains of copies of real Scope objects, seen through
the record view of the contract (`own` = the dict layer, `_root` = the root attribute or None)."""


class View:
    """what the contract calls a Scope record"""

    def __init__(self, scope):
        self.scope = scope

    @property
    def own(self):
        return dict(dict.items(self.scope))

    @property
    def _root(self):
        try:
            r = object.__getattribute__(self.scope, '_root')
        except AttributeError:
            return None
        return _view(r)

    def __eq__(self, other):
        return isinstance(other, View) and other.scope is self.scope

    def __hash__(self):
        return id(self.scope)

    def __deepcopy__(self, memo):
        return Frozen(self.own)


class Frozen:
    def __init__(self, own):
        self.own = own


_views = {}


def _view(scope):
    v = _views.get(id(scope))
    if v is None or v.scope is not scope:
        v = _views[id(scope)] = View(scope)
    return v


def scope_copy(self):
    return _view(self.scope.copy())


def same_map(a, b):
    return dict(a) == dict(b)


def gen_scopes():
    from chameleon.utils import Scope
    root = Scope({'a': 1, 'b': 2})
    c1 = root.copy()
    c1['x'] = 3
    c2 = c1.copy()
    c2['y'] = 4
    c3 = c2.copy()
    for s in (root, c1, c2, c3, Scope()):
        yield ({'self': _view(s)}, {})


# ---- the other Scope methods under contract (contracts/utils_scope.py) -----------------------
def scope_get(self, key, default=None):
    return self.scope.get(key, default)


def scope_getitem(self, key):
    return self.scope[key]


def scope_contains(self, key):
    return key in self.scope


def scope_get_name(self, key):
    return self.scope.get_name(key)


def scope_set_global(self, name, value):
    return self.scope.set_global(name, value)


def scope_marker():
    from chameleon import utils
    return utils.marker


def _chain():
    from chameleon.utils import Scope
    root = Scope({'a': 1, 'b': None})
    c1 = root.copy()
    c1['x'] = 3
    c1['a'] = 'shadow'
    c2 = c1.copy()
    c2['y'] = 4
    return [root, c1, c2, Scope()]


def gen_scope_keys():
    for i in range(4):
        for key in ('a', 'b', 'x', 'y', 'missing'):
            s = _chain()[i]
            yield ({'self': _view(s), 'key': key, 'default': 'dflt'}, {})


def gen_scope_globals():
    for i in range(4):
        for name in ('a', 'x', 'g'):
            s = _chain()[i]
            yield ({'self': _view(s), 'name': name, 'value': ('value', name)}, {})
