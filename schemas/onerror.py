"""K3 schemas for tal:on-error (C13)."""
from pyvc.k3 import schema_contracts

from pyvc.k3 import hole
H1 = hole(1)

SPECS = [
    dict(
        id='S-OnError-keep',
        text='A<div class="c" tal:on-error="e11">%s</div>B' % H1,
        own_names=['error'],
        ensures=[
            # no failure: the element is rendered normally, no handler, fallback not evaluated
            "raised('h1') or (S() == S0() + 'A<div class=\"c\">' + out(1) + '</div>B' "
            "and handler_calls() == 0 and evals(11) == 0)",
            # failure with an Exception: everything the element emitted is discarded and replaced
            # by start tag (static attributes) + converted fallback + end tag
            "not raised('h1') or (S() == S0() + 'A<div class=\"c\">' "
            "+ ('' if quoted(val(11), None, '\\xad', None, None) is None "
            "   else piece(quoted(val(11), None, '\\xad', None, None))) + '</div>B')",
            "not raised('h1') or (exc_is_exception() and evals(11) == 1)",
            # handler called exactly once per handled failure, iff configured
            "not raised('h1') or handler_calls() == (1 if handler_configured() else 0)",
            # `error` is bound for the fallback expression
            "not raised('h1') or visible_at('e11', 'error') is errorinfo_of(0)",
        ],
        raises={'*': {'ensures': [
            # what propagates: a non-Exception from the child, or whatever the fallback raises
            "(raised('h1') and not exc_is_exception()) or raised('e11')",
        ]}},
        serves=['C13'],
    ),
    dict(
        id='S-OnError-omit-expr',
        # tal:on-error on an element whose tag is subject to a tal:omit-tag EXPRESSION.  The property
        # does not say whether the fallback keeps the tag in that case (the tree emits the bare
        # fallback); what it does decide: the element's output is replaced as a whole -- the fallback
        # comes with BOTH its tags or with neither, before and after are untouched -- and the omit
        # expression, like every expression, is evaluated once per reach (never again by the handler)
        text='A<p class="c" tal:omit-tag="e8" tal:on-error="e11">%s</p>B' % H1,
        own_names=['error'],
        ensures=[
            "evals(8) <= 1",
            "raised('h1') or raised('e8') or evals(11) == 0",
            "not (raised('h1') or raised('e8')) or (evals(11) == 1 and ("
            "S() == S0() + 'A' + ('' if quoted(val(11), None, '\\xad', None, None) is None else piece(quoted(val(11), None, '\\xad', None, None))) + 'B' or S() == S0() + 'A<p class=\"c\">' + ('' if quoted(val(11), None, '\\xad', None, None) is None else piece(quoted(val(11), None, '\\xad', None, None))) + '</p>B'))",
            "not (raised('h1') or raised('e8')) or handler_calls() == (1 if handler_configured() else 0)",
        ],
        raises={'*': {'ensures': [
            "evals(8) <= 1",
            "((raised('h1') or raised('e8')) and not exc_is_exception()) or raised('e11')",
        ]}},
        serves=['C13', 'C04'],
    ),
    dict(
        id='S-OnError-interp-attribute',
        # "replaced by its start tag with the STATIC attributes": an attribute written with ${...} is
        # not static -- its source text never appears in the fallback's start tag
        text='A<a href="${e2}" class="c" tal:on-error="e11">%s</a>B' % H1,
        own_names=['error'],
        ensures=[
            "not (raised('h1') or raised('e2')) or S() == S0() + 'A<a class=\"c\">' + ('' if quoted(val(11), None, '\\xad', None, None) is None else piece(quoted(val(11), None, '\\xad', None, None))) + '</a>B'",
        ],
        raises={'*': {'ensures': ["True"]}},
        serves=['C13'],
    ),
    dict(
        id='S-OnError-static-body',
        # the guarded element evaluates nothing itself: the failure comes from behind a call (an
        # in-template macro).  It is guarded all the same.
        text='A<div class="c" tal:on-error="e11"><m metal:define-macro="m">%s</m></div>B' % H1,
        own_names=['error'],
        ensures=[
            "ext_count() == 1",
            "ext_raised(0) or (S() == S0() + 'A<div class=\"c\">' + ext_out(0) + '</div>B' "
            "and handler_calls() == 0 and evals(11) == 0)",
            "not ext_raised(0) or (S() == S0() + 'A<div class=\"c\">' "
            "+ ('' if quoted(val(11), None, '\\xad', None, None) is None "
            "   else piece(quoted(val(11), None, '\\xad', None, None))) + '</div>B')",
            "not ext_raised(0) or (exc_is_exception() and evals(11) == 1)",
            "not ext_raised(0) or handler_calls() == (1 if handler_configured() else 0)",
            # C12: a handled failure is over -- the call-site records collected for it (by the macro's
            # own handler, on the way out) are gone, so that they cannot turn up in the message of a
            # later, unrelated error
            "not ext_raised(0) or global_now('__error__') is UNBOUND()",
        ],
        raises={'*': {'ensures': [
            "(ext_raised(0) and not exc_is_exception()) or raised('e11')",
        ]}},
        serves=['C13', 'C12'], no_fresh=True,
    ),
    dict(
        id='S-OnError-in-translate',
        # the element's output goes to whatever stream is current: inside a translation block
        # that is the block's sub-stream, and the discard must cut exactly that one
        text='A<p i18n:translate="">t<b tal:on-error="e11">%s</b>u</p>B' % H1,
        own_names=['error'],
        ensures=[
            "translate_calls() == 1",
            "raised('h1') or (translate_arg(0, 'default') == normalize('t<b>' + out(1) + '</b>u') "
            "and evals(11) == 0)",
            "not raised('h1') or translate_arg(0, 'default') == normalize('t<b>' "
            "+ ('' if quoted(val(11), None, '\\xad', None, None) is None "
            "   else piece(quoted(val(11), None, '\\xad', None, None))) + '</b>u')",
            "S() == S0() + 'A<p>' + piece(translate_result(0)) + '</p>B'",
        ],
        raises={'*': {'ensures': [
            "(raised('h1') and not exc_is_exception()) or raised('e11')",
        ]}},
        serves=['C13', 'C10'],
    ),
    dict(
        id='S-OnError-two-streams',
        # one on-error element inside a translation block (sub-stream), then one in ordinary output:
        # each takes its mark from, and cuts, the stream IT writes to
        text='A<p i18n:translate="">t<b tal:on-error="e11">%s</b>u</p><div tal:on-error="e1">%s</div>B' % (H1, hole(2)),
        own_names=['error'],
        ensures=[
            "translate_calls() == 1",
            "raised('h2') or S() == S0() + 'A<p>' + piece(translate_result(0)) + '</p><div>' + out(2) + '</div>B'",
            "not raised('h2') or S() == S0() + 'A<p>' + piece(translate_result(0)) + '</p><div>' "
            "+ ('' if quoted(val(1), None, '\\xad', None, None) is None "
            "   else piece(quoted(val(1), None, '\\xad', None, None))) + '</div>B'",
        ],
        raises={'*': {'ensures': [
            "(raised('h1') and not exc_is_exception()) or (raised('h2') and not exc_is_exception()) "
            "or raised('e11') or raised('e1')",
        ]}},
        serves=['C13'], no_fresh=True,
    ),
]

CONTRACTS = schema_contracts(SPECS)
