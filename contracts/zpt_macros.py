"""zpt/template.Macros (C09, C16): a macro looked up by name comes from the CURRENT compilation of
its template -- the up-to-date check (cook_check: re-reads a changed file with auto_reload) runs
first, on every lookup, and the render function is fetched after it."""
from pyvc.vc import Contract
from pyvc.values import REC_FIELDS

CONTRACTS = []
MC = "zpt/template.py::Macros"
REC_FIELDS[MC] = {"template": "any"}
EXT = {
    'self.template.cook_check': {'as': 'cook_check', 'raises_any': True},
    'getattr': {'result': 'any', 'raises': ['AttributeError']},
    'Macro': {'result': 'any', 'as': 'Macro'},
}
FIRST = ("ext_index('cook_check') == 0 and ext_index('cook_check', 1) == -1 and "
         "(ext_index('getattr') == -1 or ext_index('getattr') > ext_index('cook_check'))")

CONTRACTS.append(Contract(
    MC + ".__getitem__", params={"self": "rec[%s]" % MC, "name": "str"},
    ensures=[
        FIRST,
        # the function wrapped is the attribute `_render_<name>` (dashes as underscores) the
        # template has AFTER the check
        "ext_index('getattr') != -1 and ext_index('getattr', 1) == -1",
        "ext_call_arg('getattr', 0, 0) is self.template and "
        "ext_call_arg('getattr', 0, 1) == '_render_' + name.replace('-', '_')",
        "ext_index('Macro') > ext_index('getattr') and ext_call_arg('Macro', 0, 0) is ext_call_result('getattr', 0) "
        "and result is ext_call_result('Macro', 0)",
    ],
    raises={'KeyError': {'ensures': [FIRST, "ext_raised_in('getattr')"]},
            '*': {'ensures': ["ext_raised_in('cook_check')", "ext_index('getattr') == -1"]}},
    result="any",
    ghost={'externals': EXT},
    serves=["C09", "C16"],
    notes="cook_check / getattr / Macro are events of the ghost trace"))


# ---------------------------------------------------------------------------------------
# PageTemplate.include (C16, C09): a whole template used as a macro ("metal:use-macro" whose value
# is a template object, e.g. `load: layout.pt`) is brought up to date on EVERY use, exactly like a
# render or a macro lookup -- "renders, on every call, the content its file had at its latest
# modification"
# ---------------------------------------------------------------------------------------
PT = "zpt/template.py::PageTemplate"
REC_FIELDS[PT] = {"_cooked": "bool"}
IEXT = {
    'self.cook_check': {'as': 'cook_check', 'raises_any': True},
    'self._render': {'as': '_render', 'raises_any': True},
}
CONTRACTS.append(Contract(
    PT + ".include", params={"self": "rec[%s]" % PT, "args": "any", "kwargs": "any"},
    ensures=[
        "ext_index('cook_check') == 0 and ext_index('cook_check', 1) == -1",
        "ext_index('_render') == 1 and ext_index('_render', 1) == -1",
        # the arguments of the caller (stream, scope, render context, i18n settings) go through as given
        "ext_call_arg('_render', 0, 0) is args and ext_call_kwarg('_render', 0, '**') is kwargs",
    ],
    raises={'*': {'ensures': ["ext_index('cook_check') == 0",
                              "ext_raised_in('cook_check') or ext_index('_render') == 1"]}},
    result="none",
    ghost={'externals': IEXT},
    serves=["C16", "C09"],
    notes="cook_check / _render are events of the ghost trace; *args is recorded as the value being spread"))
