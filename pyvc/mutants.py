"""Engine self-test on seeded mutants: applies one textual change at a time to a scratch copy
of /repo/src (outside /repo and /verif, removed afterwards) and runs the property's check."""
import os
import shutil
import subprocess
import sys
import tempfile
from concurrent.futures import ThreadPoolExecutor

VERIF = os.path.dirname(os.path.dirname(os.path.abspath(__file__)))
REPO = os.environ.get('VERIF_REPO', '/repo')


def one(entry, breaking):
    mid, pid, rel, old, new = entry[:5]
    expect = entry[5] if breaking else None
    d = tempfile.mkdtemp(prefix='pyvc-mut-')
    try:
        shutil.copytree(os.path.join(REPO, 'src'), os.path.join(d, 'src'),
                        ignore=shutil.ignore_patterns('__pycache__', 'tests'))
        p = os.path.join(d, 'src', 'chameleon', rel)
        s = open(p).read()
        if old not in s:
            return mid, pid, 'stale', 'pattern not found (source changed); mutant skipped'
        open(p, 'w').write(s.replace(old, new, 1))
        env = dict(os.environ, VERIF_REPO=d, VERIF_JOBS='2', VERIF_NO_EVIDENCE='1')
        r = subprocess.run([os.path.join(VERIF, 'check'), pid], capture_output=True, text=True,
                           env=env, timeout=1200)
        out = r.stdout
        if breaking:
            ok = r.returncode == 1 and 'VIOLATION' in out and expect in out
            return mid, pid, 'killed' if ok else 'SURVIVED', 'exit=%d %s' % (
                r.returncode, '' if ok else out[-600:])
        ok = r.returncode in (0, 2)
        return mid, pid, 'quiet' if ok else 'FALSE-ALARM', 'exit=%d %s' % (
            r.returncode, '' if ok else out[-600:])
    finally:
        shutil.rmtree(d, ignore_errors=True)


def run(argv):
    sys.path.insert(0, VERIF)
    from mutants import catalogue
    sel = [a for a in argv if not a.startswith('-')]
    jobs = []
    for e in catalogue.BREAKING:
        if not sel or e[0] in sel or e[1] in sel:
            jobs.append((e, True))
    for e in catalogue.BENIGN:
        if not sel or e[0] in sel or e[1] in sel:
            jobs.append((e, False))
    bad = 0
    with ThreadPoolExecutor(max_workers=4) as ex:
        for mid, pid, verdict, detail in ex.map(lambda j: one(*j), jobs):
            print('%-18s %-4s %-11s %s' % (mid, pid, verdict, detail))
            if verdict in ('SURVIVED', 'FALSE-ALARM'):
                bad += 1
    print('mutants: %d run, %d unexpected' % (len(jobs), bad))
    return 1 if bad else 0
