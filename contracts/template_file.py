"""Contracts for template.py: BaseTemplateFile.cook_check / _set_filename, BaseTemplate.cook
(C16, C14).  The file system is an uninterpreted oracle: mtime() and read() are external
contracts; histories are covered because the representation invariant is re-established by
every public operation."""
from pyvc.vc import Contract
from pyvc.values import REC_FIELDS

CONTRACTS = []
TF = "template.py::BaseTemplateFile"
REC_FIELDS[TF] = {"auto_reload": "bool", "_v_last_read": "opt[int]", "_cooked": "bool",
                  "filename": "str"}
SELF = {"self": "rec[%s]" % TF}


def C(*a, **k):
    c = Contract(*a, **k)
    CONTRACTS.append(c)
    return c


C(TF + ".mtime", params=SELF, result="int", kind="axiom", raises={'Exception': {}},
  notes="external: modification time of the file (uninterpreted; floats compared only for equality); "
        "may fail (package resources)")
C(TF + ".read", params=SELF, result="str", kind="axiom", raises={'Exception': {}},
  notes="external: current content of the file; may fail (I/O, decoding)")
C(TF + ".cook", params={"self": "rec[%s]" % TF, "body": "str"},
  # C14 (call-site obligation of cook_check): compilation starts with the flag DOWN; it goes up only
  # as cook()'s last step, after the render functions are installed (cook.publication_order), so no
  # other thread ever sees "compiled" before there is something to render with
  requires=["not self._cooked"],
  modifies=["self._cooked"], ensures=["self._cooked"], kind="assumed-here",
  raises={'Exception': {'ensures': ["self._cooked == old(self._cooked)"]}},
  notes="BaseTemplate.cook sets _cooked last and nowhere else (verified separately: "
        "cook.publication_order), so a failing compilation leaves the flag as it was")

C(TF + ".cook_check", params=SELF,
  ensures=[
      # afterwards the instance is compiled
      "self._cooked",
      # not recompiled (and not even read) while the file is unchanged
      "not (old(self._cooked) and (not self.auto_reload or "
      "(old(self._v_last_read) is not None and call_result('mtime', 0) == old(self._v_last_read))))"
      " or (called('cook') == 0 and called('read') == 0 and result == False)",
      # recompiled from the file's current content whenever it changed or was never compiled
      "not (not old(self._cooked) or (self.auto_reload and "
      "(old(self._v_last_read) is None or call_result('mtime', 0) != old(self._v_last_read))))"
      " or (called('cook') == 1 and called('read') == 1 and result == True "
      "and call_arg('cook', 0, 'body') == call_result('read', 0))",
      # with auto_reload the remembered time is the one just observed
      "not self.auto_reload or (self._v_last_read is not None and "
      "self._v_last_read == call_result('mtime', 0))",
      "self.auto_reload or called('mtime') == 0",
  ],
  raises={'Exception': {'ensures': [
      # a reload that fails part-way (unreadable file, content that does not compile) must not leave
      # the instance looking up to date: either it is marked uncompiled -- the next use retries and
      # fails again -- or nothing was recorded at all
      "not self._cooked or (old(self._cooked) and self._v_last_read == old(self._v_last_read))",
  ]}},
  ghost={'harness': ('bounded.cookcheck_harness', 'cook_check'),
         'search': {'generator': ('bounded.cookcheck_harness', 'gen_cases')}},
  result="bool", serves=["C16"])


# ---------------------------------------------------------------------------------------
# BaseTemplateFile.read (C17): a file's bytes are decoded by the same rule as a bytes body -- with
# THIS template's default encoding as the last resort -- and the sniffing result is recorded.
# ---------------------------------------------------------------------------------------
REC_FIELDS[TF].update({"package_name": "opt[str]", "default_encoding": "str", "default_content_type": "str",
                       "content_type": "str", "content_encoding": "opt[str]"})
REXT = {
    'open': {'result': 'rec:file', 'raises': ['OSError'], 'as': 'open'},
    'f.read': {'result': 'bytes', 'raises': ['OSError'], 'as': 'fread'},
    'read_bytes': {'result': 'tuple[str,str,opt[str]]', 'raises': ['UnicodeDecodeError', 'LookupError']},
}
C(TF + ".read@body", params=SELF,
  requires=["self.package_name is None", "self.default_content_type != ''"],
  ensures=[
      "ext_call_arg('open', 0, 0) == self.filename and ext_call_arg('open', 0, 1) == 'rb'",
      # decoded from the file's bytes, with the template's own default encoding
      "ext_index('read_bytes', 1) == -1 and ext_call_arg('read_bytes', 0, 0) == ext_call_result('fread', 0) "
      "and ext_call_arg('read_bytes', 0, 1) == self.default_encoding and ext_call_nkwargs('read_bytes', 0) == 0",
      "result == ext_call_result('read_bytes', 0)[0]",
      "self.content_encoding == ext_call_result('read_bytes', 0)[1]",
      "self.content_type == (ext_call_result('read_bytes', 0)[2] or self.default_content_type)",
  ],
  raises={'OSError': {}, 'UnicodeDecodeError': {}, 'LookupError': {}},
  result="str", serves=["C17", "C16"],
  ghost={'externals': REXT},
  notes="file system and read_bytes (own contract: contracts/utils_bytes.py) are events of the ghost trace; "
        "package-relative files are excluded by the precondition")
