"""Concrete (CPython) versions of the spec primitives."""


def text(t):
    """the plain string value of a str/Token"""
    return str.__str__(t) if isinstance(t, str) else t


def implies(a, b):
    return (not a) or b


def letters(n, base, radix):
    """position n >= 0 as a numeral in the given radix with digits chr(base), chr(base+1), ..."""
    return (letters(n // radix, base, radix) if n >= radix else '') + chr(base + n % radix)


def unfold_letters(n, base, radix):
    """proof hint: instantiate the defining equation of `letters` at n (always true)"""
    return True


def remaining(it):
    """items a list iterator has not yielded yet"""
    return it.__length_hint__()


def dec(encoding, data):
    """data.decode(encoding) -- the codec itself is trusted"""
    return data.decode(encoding)


def substr_lemma(base, p, n, lo, ln):
    return True


def split_facts(parts, i):
    return True


def is_token(x):
    return type(x).__name__ == 'Token'


def split_offset(parts, i):
    raise NotImplementedError('ghost function: only meaningful inside the verifier')


split_part = split_offset


def _pattern(name):
    import chameleon.parser
    import chameleon.tal
    import chameleon.utils
    for mod in (chameleon.utils, chameleon.parser, chameleon.tal):
        if hasattr(mod, name):
            return getattr(mod, name)
    raise NameError(name)


def re_nomatch(name, how, s):
    return getattr(_pattern(name), how)(s) is None


def re_group(name, how, s, k):
    m = getattr(_pattern(name), how)(s)
    return None if m is None else m.group(k)


def ascii_ignore(b):
    return b.decode('ascii', 'ignore')


def re_start(name, how, s, k):
    m = getattr(_pattern(name), how)(s)
    return -1 if m is None else m.start(k)


def re_end(name, how, s, k):
    m = getattr(_pattern(name), how)(s)
    return -1 if m is None else m.end(k)
