"""Symbolic values: typed Python wrappers around z3 terms.

Encoding of Python semantics (DESIGN.md 2.3):
  int   -> z3 Int (exact: Python ints are unbounded)
  bool  -> z3 Bool
  str   -> z3 String (unicode code points; z3 limits them to <= 0x2FFFF)
  None / Optional[T] -> VNone / VOpt(none-flag, value)
  Token -> record (s, pos, source, filename); behaves as its string `s`
  Any   -> universal datatype `Val`
"""
from __future__ import annotations

import z3

# ---------------------------------------------------------------------------
# universal datatype for dynamically typed values
# ---------------------------------------------------------------------------
_Tok = z3.Datatype('Tok')
_Tok.declare('mk', ('s', z3.StringSort()), ('pos', z3.IntSort()),
             ('has_source', z3.BoolSort()), ('source', z3.StringSort()),
             ('filename', z3.StringSort()))
TokenSort = _Tok.create()

_Val = z3.Datatype('Val')
_Val.declare('none')
_Val.declare('bool', ('b', z3.BoolSort()))
_Val.declare('int', ('i', z3.IntSort()))
_Val.declare('str', ('s', z3.StringSort()))
_Val.declare('bytes', ('bs', z3.StringSort()))
_Val.declare('tok', ('t', TokenSort))
_Val.declare('obj', ('oid', z3.IntSort()))
Val = _Val.create()

# uninterpreted functions over Val (axiomatised where used)
f_truthy_obj = z3.Function('truthy_obj', z3.IntSort(), z3.BoolSort())
f_str_of = z3.Function('str_of', Val, z3.StringSort())       # str(x)
f_typeid = z3.Function('typeid_obj', z3.IntSort(), z3.IntSort())  # type of an object
f_html_of = z3.Function('html_of', Val, Val)                 # getattr(x,'__html__',None)
f_call0 = z3.Function('call0', Val, Val)                     # x()

T_NONE, T_BOOL, T_INT, T_STR, T_BYTES, T_FLOAT = 0, 1, 2, 3, 4, 5
T_FIRST_OTHER = 10


class Unsupported(Exception):
    """The source left the supported subset (=> undecided, never a violation)."""


class V:
    kind = '?'

    def __deepcopy__(self, memo):  # values are shared between paths unless mutable
        return self


class VInt(V):
    kind = 'int'

    def __init__(self, t):
        self.t = z3.IntVal(t) if isinstance(t, int) else t

    def __repr__(self):
        return 'VInt(%s)' % self.t


class VBool(V):
    kind = 'bool'

    def __init__(self, t):
        self.t = z3.BoolVal(t) if isinstance(t, bool) else t

    def __repr__(self):
        return 'VBool(%s)' % self.t


class VStr(V):
    kind = 'str'

    def __init__(self, t):
        self.t = z3.StringVal(t) if isinstance(t, str) else t

    def __repr__(self):
        return 'VStr(%s)' % self.t


class VBytes(V):
    """bytes, modelled as a String of code points 0..255."""
    kind = 'bytes'

    def __init__(self, t):
        if isinstance(t, (bytes, bytearray)):
            t = z3.StringVal(t.decode('latin-1'))
        self.t = t

    def __repr__(self):
        return 'VBytes(%s)' % self.t


class VNone(V):
    kind = 'none'

    def __repr__(self):
        return 'VNone'


NONE = VNone()


class VOpt(V):
    """Optional[T]: `none` is a z3 Bool; `val` is meaningful only when not none."""
    kind = 'opt'

    def __init__(self, none, val):
        self.none = z3.BoolVal(none) if isinstance(none, bool) else none
        self.val = val

    def __repr__(self):
        return 'VOpt(%s,%r)' % (self.none, self.val)


class VToken(V):
    kind = 'token'

    def __init__(self, s, pos, source, filename):
        self.s = s            # z3 String
        self.pos = pos        # z3 Int
        self.source = source  # VOpt(VStr) | VStr | VNone
        self.filename = filename  # VStr

    @property
    def t(self):
        return self.s

    def __repr__(self):
        return 'VToken(%s,%s,%r)' % (self.s, self.pos, self.source)


class VTuple(V):
    kind = 'tuple'

    def __init__(self, items):
        self.items = list(items)

    def __repr__(self):
        return 'VTuple(%r)' % (self.items,)


class VList(V):
    """A list with a concrete spine (known length); mutable."""
    kind = 'list'

    def __init__(self, items):
        self.items = list(items)

    def __deepcopy__(self, memo):
        return VList(list(self.items))

    def __repr__(self):
        return 'VList(%r)' % (self.items,)


class VSeq(V):
    """A list of unknown length: z3 Seq of an element sort + (un)wrappers. Mutable."""
    kind = 'seq'

    def __init__(self, ty, t):
        self.ty = ty  # element TypeDesc
        self.t = t

    def __repr__(self):
        return 'VSeq(%s)' % self.t


class VDict(V):
    """A dict with concrete, distinct python keys -> V ; insertion ordered; mutable."""
    kind = 'dict'

    def __init__(self, items=None):
        self.items = dict(items or {})

    def __repr__(self):
        return 'VDict(%r)' % (self.items,)


class VMap(V):
    """A symbolic map K -> Optional V  (z3 arrays `has`, `val`); mutable."""
    kind = 'map'

    def __init__(self, kty, vty, has, val):
        self.kty, self.vty, self.has, self.val = kty, vty, has, val


class VAny(V):
    kind = 'any'

    def __init__(self, t):
        self.t = t

    def __repr__(self):
        return 'VAny(%s)' % self.t


class VConc(V):
    """A concrete python object the program manipulates opaquely."""
    kind = 'conc'

    def __init__(self, obj):
        self.obj = obj

    def __repr__(self):
        return 'VConc(%r)' % (self.obj,)


class VSlice(V):
    kind = 'slice'

    def __init__(self, start, stop, step=NONE):
        self.start, self.stop, self.step = start, stop, step


class VRec(V):
    """A mutable record with named fields (instances of repo classes)."""
    kind = 'rec'

    def __init__(self, cls, fields=None):
        self.cls = cls
        self.fields = dict(fields or {})

    def __repr__(self):
        return 'VRec(%s,%r)' % (self.cls, self.fields)


class VExc(V):
    """An exception instance. `cls` is a python class (concrete) or None (symbolic,
    then `ecls` is a z3 Int naming the class and subclass tests are decisions)."""
    kind = 'exc'

    def __init__(self, cls, args=(), ecls=None, extra=None):
        self.cls = cls
        self.args = list(args)
        self.ecls = ecls
        self.extra = extra or {}

    def __repr__(self):
        return 'VExc(%s,%r)' % (getattr(self.cls, '__name__', self.ecls), self.args)


class VMatch(V):
    """re.Match, abstract: group spans are uninterpreted functions of the group index."""
    kind = 'match'

    def __init__(self, string, ngroups, start, end, isnone, names=None, tag=''):
        self.string = string      # z3 String the match ran on
        self.ngroups = ngroups    # python int or z3 Int
        self.start = start        # z3 Function Int->Int
        self.end = end
        self.isnone = isnone      # z3 Function Int->Bool
        self.names = names or {}  # group name -> index
        self.tag = tag


class VFunc(V):
    """A callable known to the executor (contracted, transparent, builtin or bound)."""
    kind = 'func'

    def __init__(self, name, impl=None, selfv=None):
        self.name, self.impl, self.selfv = name, impl, selfv

    def __repr__(self):
        return 'VFunc(%s)' % self.name


# ---------------------------------------------------------------------------
# type descriptors
# ---------------------------------------------------------------------------
class Ty:
    def __init__(self, name, args=()):
        self.name, self.args = name, tuple(args)

    def __repr__(self):
        return self.name + (repr(list(self.args)) if self.args else '')

    def __eq__(self, o):
        return isinstance(o, Ty) and (self.name, self.args) == (o.name, o.args)

    def __hash__(self):
        return hash((self.name, self.args))


def parse_ty(s):
    """'int' 'str' 'bool' 'Token' 'opt[str]' 'tuple[int,str]' 'seq[Token]' 'any' 'slice'"""
    s = s.strip()
    if '[' in s:
        head, rest = s.split('[', 1)
        rest = rest.rsplit(']', 1)[0]
        parts, depth, cur = [], 0, ''
        for ch in rest:
            if ch == '[':
                depth += 1
            if ch == ']':
                depth -= 1
            if ch == ',' and depth == 0:
                parts.append(cur)
                cur = ''
            else:
                cur += ch
        if cur.strip():
            parts.append(cur)
        return Ty(head.strip(), [parse_ty(p) for p in parts])
    return Ty(s)


_counter = [0]


def fresh_name(base):
    _counter[0] += 1
    return 'v!%s!%d' % (base, _counter[0])


def reset_names():
    _counter[0] = 0


def token_sort():
    return TokenSort


_struct_sorts = {}


def struct_sort(ty):
    """z3 datatype for fixed-shape tuples (`tuple[...]`) and string-keyed records
    (`dictrec[key:type,...]`, used for the attribute dictionaries the parser produces)"""
    key = repr(ty)
    if key not in _struct_sorts:
        d = z3.Datatype('S%d' % len(_struct_sorts))
        if ty.name == 'tuple':
            fields = [('f%d' % i, sort_of(a)) for i, a in enumerate(ty.args)]
        else:
            fields = [(a.name.split(':')[0], sort_of(parse_ty(a.name.split(':', 1)[1]))) for a in ty.args]
        d.declare('mk', *fields)
        _struct_sorts[key] = (d.create(), [f for f, _ in fields])
    return _struct_sorts[key]


def sort_of(ty):
    n = ty.name
    if n in ('tuple', 'dictrec'):
        return struct_sort(ty)[0]
    if n == 'opt':
        inner = ty.args[0]
        if inner.name == 'str':
            return Val           # Optional[str] as a map key/element: the universal sort
        raise Unsupported('no z3 sort for %r' % ty)
    if n == 'int':
        return z3.IntSort()
    if n == 'bool':
        return z3.BoolSort()
    if n in ('str', 'bytes'):
        return z3.StringSort()
    if n == 'any':
        return Val
    if n == 'Token':
        return token_sort()
    raise Unsupported('no z3 sort for type %r' % ty)


def wrap(ty, term):
    """z3 term of sort_of(ty) -> V"""
    n = ty.name
    if n == 'tuple':
        S, fields = struct_sort(ty)
        return VTuple([wrap(a, getattr(S, f)(term)) for a, f in zip(ty.args, fields)])
    if n == 'dictrec':
        S, fields = struct_sort(ty)
        return VDict({f: wrap(parse_ty(a.name.split(':', 1)[1]), getattr(S, f)(term))
                      for a, f in zip(ty.args, fields)})
    if n == 'opt':
        return VAny(term)
    if n == 'int':
        return VInt(term)
    if n == 'bool':
        return VBool(term)
    if n == 'str':
        return VStr(term)
    if n == 'bytes':
        return VBytes(term)
    if n == 'any':
        return VAny(term)
    if n == 'Token':
        S = token_sort()
        return VToken(S.s(term), S.pos(term),
                      VOpt(z3.Not(S.has_source(term)), VStr(S.source(term))),
                      VStr(S.filename(term)))
    raise Unsupported('wrap %r' % ty)


def unwrap(ty, v):
    """V -> z3 term of sort_of(ty)"""
    n = ty.name
    if n == 'tuple':
        S, fields = struct_sort(ty)
        return S.mk(*[unwrap(a, x) for a, x in zip(ty.args, v.items)])
    if n == 'dictrec':
        S, fields = struct_sort(ty)
        return S.mk(*[unwrap(parse_ty(a.name.split(':', 1)[1]), v.items[f])
                      for a, f in zip(ty.args, fields)])
    if n == 'opt':
        if isinstance(v, VToken):
            return Val.str(v.s)        # tokens hash and compare like their text
        return to_any(v).t
    if n in ('int', 'bool', 'str', 'bytes'):
        if n == 'str' and isinstance(v, VToken):
            return v.s
        return v.t
    if n == 'any':
        return to_any(v).t
    if n == 'Token':
        S = token_sort()
        src = v.source
        if isinstance(src, VNone):
            has, s = z3.BoolVal(False), z3.StringVal('')
        elif isinstance(src, VOpt):
            has, s = z3.Not(src.none), src.val.t
        else:
            has, s = z3.BoolVal(True), src.t
        return S.mk(v.s, v.pos, has, s, v.filename.t)
    raise Unsupported('unwrap %r' % ty)


REC_FIELDS = {}   # class key -> {field: type string}; filled by contract modules


def fresh(ty, base='x'):
    n = ty.name
    if n == 'rec':
        cls = ty.args[0].name
        return VRec(cls, {f: fresh(parse_ty(t), base + '_' + f.strip('_'))
                          for f, t in REC_FIELDS[cls].items()})
    if n == 'int':
        return VInt(z3.Int(fresh_name(base)))
    if n == 'bool':
        return VBool(z3.Bool(fresh_name(base)))
    if n == 'str':
        return VStr(z3.String(fresh_name(base)))
    if n == 'bytes':
        return VBytes(z3.String(fresh_name(base)))
    if n == 'none':
        return NONE
    if n == 'any':
        return VAny(z3.Const(fresh_name(base), Val))
    if n == 'opt':
        return VOpt(z3.Bool(fresh_name(base + '_isnone')), fresh(ty.args[0], base))
    if n == 'Token':
        return VToken(z3.String(fresh_name(base + '_s')), z3.Int(fresh_name(base + '_pos')),
                      VOpt(z3.Bool(fresh_name(base + '_nosrc')),
                           VStr(z3.String(fresh_name(base + '_source')))),
                      VStr(z3.String(fresh_name(base + '_filename'))))
    if n == 'tuple':
        return VTuple([fresh(a, '%s_%d' % (base, i)) for i, a in enumerate(ty.args)])
    if n == 'dictrec':
        return VDict({a.name.split(':')[0]: fresh(parse_ty(a.name.split(':', 1)[1]),
                                                  base + '_' + a.name.split(':')[0]) for a in ty.args})
    if n == 'list':
        # a list with a concrete spine of the given length: list[T,3]
        k = int(ty.args[1].name)
        return VList([fresh(ty.args[0], '%s_%d' % (base, i)) for i in range(k)])
    if n == 'slice':
        return VSlice(fresh(Ty('opt', [Ty('int')]), base + '_start'),
                      fresh(Ty('opt', [Ty('int')]), base + '_stop'), NONE)
    if n == 'seq':
        return VSeq(ty.args[0], z3.Const(fresh_name(base), z3.SeqSort(sort_of(ty.args[0]))))
    if n == 'map':
        k, v = ty.args
        return VMap(k, v,
                    z3.Const(fresh_name(base + '_has'), z3.ArraySort(sort_of(k), z3.BoolSort())),
                    z3.Const(fresh_name(base + '_val'), z3.ArraySort(sort_of(k), sort_of(v))))
    raise Unsupported('fresh %r' % ty)


def ty_of(v):
    if isinstance(v, VInt):
        return Ty('int')
    if isinstance(v, VBool):
        return Ty('bool')
    if isinstance(v, VStr):
        return Ty('str')
    if isinstance(v, VBytes):
        return Ty('bytes')
    if isinstance(v, VNone):
        return Ty('none')
    if isinstance(v, VAny):
        return Ty('any')
    if isinstance(v, VToken):
        return Ty('Token')
    if isinstance(v, VOpt):
        return Ty('opt', [ty_of(v.val)])
    if isinstance(v, VTuple):
        return Ty('tuple', [ty_of(i) for i in v.items])
    if isinstance(v, VSeq):
        return Ty('seq', [v.ty])
    if isinstance(v, VMap):
        return Ty('map', [v.kty, v.vty])
    if isinstance(v, VSlice):
        return Ty('slice')
    if isinstance(v, VRec):
        return Ty('rec', [Ty(v.cls)])
    raise Unsupported('ty_of %r' % (v,))


# ---------------------------------------------------------------------------
# conversions, truthiness, equality, identity
# ---------------------------------------------------------------------------
def lit(x):
    """python constant -> V"""
    if x is None:
        return NONE
    if isinstance(x, bool):
        return VBool(x)
    if isinstance(x, int):
        return VInt(x)
    if isinstance(x, str):
        return VStr(x)
    if isinstance(x, bytes):
        return VBytes(x)
    if isinstance(x, tuple):
        return VTuple([lit(i) for i in x])
    return VConc(x)


def to_any(v):
    if isinstance(v, VAny):
        return v
    if isinstance(v, VNone):
        return VAny(Val.none)
    if isinstance(v, VBool):
        return VAny(Val.bool(v.t))
    if isinstance(v, VInt):
        return VAny(Val.int(v.t))
    if isinstance(v, VStr):
        return VAny(Val.str(v.t))
    if isinstance(v, VBytes):
        return VAny(Val.bytes(v.t))
    if isinstance(v, VOpt):
        return VAny(z3.If(v.none, Val.none, to_any(v.val).t))
    if isinstance(v, VToken):
        return VAny(Val.tok(unwrap(Ty('Token'), v)))
    if isinstance(v, VConc):
        return VAny(Val.obj(z3.IntVal(conc_oid(v.obj))))
    if isinstance(v, (VRec, VList, VDict, VFunc, VTuple, VExc)):
        # mutable / opaque python objects stored into a dynamically typed slot: identity only
        return VAny(Val.obj(z3.IntVal(conc_oid(v))))
    raise Unsupported('to_any(%r)' % (v,))


_conc_ids = {}


def conc_oid(obj):
    """stable negative object id for a concrete python object used as an Any"""
    key = id(obj)
    if key not in _conc_ids:
        _conc_ids[key] = (-(len(_conc_ids) + 1), obj)
    return _conc_ids[key][0]


def any_truthy(t):
    return z3.If(Val.is_none(t), False,
           z3.If(Val.is_bool(t), Val.b(t),
           z3.If(Val.is_int(t), Val.i(t) != 0,
           z3.If(Val.is_str(t), z3.Length(Val.s(t)) > 0,
           z3.If(Val.is_bytes(t), z3.Length(Val.bs(t)) > 0,
           z3.If(Val.is_tok(t), z3.Length(TokenSort.s(Val.t(t))) > 0,
                 f_truthy_obj(Val.oid(t))))))))


def truth(v):
    """python truthiness as a z3 Bool"""
    if isinstance(v, VBool):
        return v.t
    if isinstance(v, VInt):
        return v.t != 0
    if isinstance(v, (VStr, VBytes)):
        return z3.Length(v.t) > 0
    if isinstance(v, VToken):
        return z3.Length(v.s) > 0
    if isinstance(v, VNone):
        return z3.BoolVal(False)
    if isinstance(v, VOpt):
        return z3.And(z3.Not(v.none), truth(v.val))
    if isinstance(v, (VTuple, VList)):
        return z3.BoolVal(len(v.items) > 0)
    if isinstance(v, VDict):
        return z3.BoolVal(len(v.items) > 0)
    if isinstance(v, VSeq):
        return z3.Length(v.t) > 0
    if isinstance(v, VAny):
        return any_truthy(v.t)
    if isinstance(v, VConc):
        return z3.BoolVal(bool(v.obj))
    if isinstance(v, (VRec, VExc, VMatch, VFunc, VSlice)):
        return z3.BoolVal(True)
    raise Unsupported('truth(%r)' % (v,))


def is_none(v):
    if isinstance(v, VNone):
        return z3.BoolVal(True)
    if isinstance(v, VOpt):
        return v.none
    if isinstance(v, VAny):
        return Val.is_none(v.t)
    if isinstance(v, VConc):
        return z3.BoolVal(v.obj is None)
    return z3.BoolVal(False)


def strterm(v):
    if isinstance(v, (VStr, VToken, VBytes)) or getattr(v, 'kind', '') == 'seg':
        return v.t
    if isinstance(v, VOpt):
        return strterm(v.val)
    raise Unsupported('expected a string, got %r' % (v,))


def eq(a, b):
    """python == as a z3 Bool (structural for the modelled kinds)"""
    if isinstance(a, VOpt) or isinstance(b, VOpt):
        if isinstance(a, VOpt) and isinstance(b, VOpt):
            return z3.Or(z3.And(a.none, b.none),
                         z3.And(z3.Not(a.none), z3.Not(b.none), eq(a.val, b.val)))
        o, x = (a, b) if isinstance(a, VOpt) else (b, a)
        if isinstance(x, VNone):
            return o.none
        return z3.And(z3.Not(o.none), eq(o.val, x))
    if isinstance(a, VNone) or isinstance(b, VNone):
        if isinstance(a, VAny) or isinstance(b, VAny):
            return is_none(a if isinstance(a, VAny) else b)
        return z3.BoolVal(isinstance(a, VNone) and isinstance(b, VNone))
    strish = (VStr, VToken)
    if isinstance(a, strish) and isinstance(b, strish):
        return a.t == b.t
    if isinstance(a, VBytes) and isinstance(b, VBytes):
        return a.t == b.t
    numish = (VInt, VBool)
    if isinstance(a, numish) and isinstance(b, numish):
        ta = a.t if isinstance(a, VInt) else z3.If(a.t, 1, 0)
        tb = b.t if isinstance(b, VInt) else z3.If(b.t, 1, 0)
        if isinstance(a, VBool) and isinstance(b, VBool):
            return a.t == b.t
        return ta == tb
    if isinstance(a, (VTuple, VList)) and isinstance(b, (VTuple, VList)):
        if type(a) is not type(b) or len(a.items) != len(b.items):
            return z3.BoolVal(False)
        return z3.And([eq(x, y) for x, y in zip(a.items, b.items)] + [z3.BoolVal(True)])
    if isinstance(a, VSeq) and isinstance(b, VSeq):
        return a.t == b.t
    if isinstance(a, VAny) or isinstance(b, VAny):
        try:
            return to_any(a).t == to_any(b).t
        except Unsupported:
            return z3.BoolVal(False)
    if isinstance(a, VConc) and isinstance(b, VConc):
        return z3.BoolVal(a.obj == b.obj)
    if isinstance(a, VSlice) and isinstance(b, VSlice):
        return z3.And(eq(a.start, b.start), eq(a.stop, b.stop))
    if type(a) is not type(b):
        return z3.BoolVal(False)
    if a is b:
        return z3.BoolVal(True)
    raise Unsupported('eq(%r,%r)' % (a, b))


def ident(a, b):
    """python `is` as a z3 Bool.  None/marker/object identity is exact; for str/int
    values identity is not modelled except through VAny equality (documented)."""
    if isinstance(a, (VNone, VOpt)) or isinstance(b, (VNone, VOpt)):
        if isinstance(a, VNone):
            return is_none(b)
        if isinstance(b, VNone):
            return is_none(a)
        if isinstance(a, VOpt) and isinstance(b, VOpt):
            return z3.Or(z3.And(a.none, b.none),
                         z3.And(z3.Not(a.none), z3.Not(b.none), ident(a.val, b.val)))
        o, x = (a, b) if isinstance(a, VOpt) else (b, a)
        return z3.And(z3.Not(o.none), z3.Not(is_none(x)), ident(o.val, x))
    if isinstance(a, VAny) or isinstance(b, VAny):
        ta, tb = to_any(a).t, to_any(b).t
        return ta == tb
    if isinstance(a, VConc) and isinstance(b, VConc):
        return z3.BoolVal(a.obj is b.obj)
    if isinstance(a, VBool) and isinstance(b, VBool):
        return a.t == b.t
    if isinstance(a, (VRec, VList, VDict, VExc, VMap, VSeq)) or \
            isinstance(b, (VRec, VList, VDict, VExc, VMap, VSeq)):
        return z3.BoolVal(a is b)
    if type(a) is not type(b):
        return z3.BoolVal(False)
    raise Unsupported('identity of %r and %r' % (a, b))


def ite(c, a, b):
    """merge two values of compatible kinds under condition c"""
    if z3.is_true(c):
        return a
    if z3.is_false(c):
        return b
    if isinstance(a, VInt) and isinstance(b, VInt):
        return VInt(z3.If(c, a.t, b.t))
    if isinstance(a, VBool) and isinstance(b, VBool):
        return VBool(z3.If(c, a.t, b.t))
    if isinstance(a, VInt) and isinstance(b, VBool):
        return VInt(z3.If(c, a.t, z3.If(b.t, 1, 0)))
    if isinstance(a, VBool) and isinstance(b, VInt):
        return VInt(z3.If(c, z3.If(a.t, 1, 0), b.t))
    if isinstance(a, VStr) and isinstance(b, VStr):
        return VStr(z3.If(c, a.t, b.t))
    if isinstance(a, (VStr, VToken)) and isinstance(b, (VStr, VToken)) and \
            not (isinstance(a, VToken) and isinstance(b, VToken)):
        return VStr(z3.If(c, a.t, b.t))
    if isinstance(a, VBytes) and isinstance(b, VBytes):
        return VBytes(z3.If(c, a.t, b.t))
    if isinstance(a, VNone) and isinstance(b, VNone):
        return a
    if isinstance(a, VAny) or isinstance(b, VAny):
        return VAny(z3.If(c, to_any(a).t, to_any(b).t))
    if isinstance(a, VToken) and isinstance(b, VToken):
        return VToken(z3.If(c, a.s, b.s), z3.If(c, a.pos, b.pos),
                      ite(c, a.source, b.source), ite(c, a.filename, b.filename))
    if isinstance(a, VOpt) or isinstance(b, VOpt) or isinstance(a, VNone) or isinstance(b, VNone):
        def parts(x):
            if isinstance(x, VNone):
                return z3.BoolVal(True), None
            if isinstance(x, VOpt):
                return x.none, x.val
            return z3.BoolVal(False), x
        na, va = parts(a)
        nb, vb = parts(b)
        if va is None:
            va = vb
        if vb is None:
            vb = va
        return VOpt(z3.If(c, na, nb), ite(c, va, vb))
    if isinstance(a, VTuple) and isinstance(b, VTuple) and len(a.items) == len(b.items):
        return VTuple([ite(c, x, y) for x, y in zip(a.items, b.items)])
    if isinstance(a, VSeq) and isinstance(b, VSeq):
        return VSeq(a.ty, z3.If(c, a.t, b.t))
    if a is b:
        return a
    raise Unsupported('cannot merge %r and %r' % (a, b))
