"""K3 schemas for strict / non-strict compilation (C19) and text mode (C20)."""
from pyvc.k3 import hole, schema_contracts

BAD = 'A<p tal:condition="e1"><b tal:content="???"/></p>B'

SPECS = [
    dict(id='S-Deferred', text=BAD, options={'strict': False},
         ensures=["not bool(val(1))", "S() == S0() + 'AB'", "evals(1) == 1"],
         raises={
             'ExpressionError': {
                 'when': "bool(val(1))",
                 'ensures': ["text(exc.token) == '???'", "exc.token.pos == template_pos('???')",
                             "token_now() == template_pos('???')",
                             "S() == S0() + 'A<p><b>'"]},
             '*': {'ensures': ["raised('e1')"]}},
         serves=['C19']),
    dict(id='S-Deferred-empty',
         # an invalid expression whose reported token is the EMPTY string (tal:content="")
         text='A<p tal:condition="e1"><b tal:content=""/></p>B', options={'strict': False},
         ensures=["not bool(val(1))", "S() == S0() + 'AB'", "evals(1) == 1"],
         raises={
             'ExpressionError': {
                 'when': "bool(val(1))",
                 'ensures': ["text(exc.token) == ''", "token_now() == exc.token.pos"]},
             '*': {'ensures': ["raised('e1')"]}},
         serves=['C19', 'C12']),
    dict(id='S-Deferred-twice',
         text='A<p tal:condition="e1"><b tal:content="???"/></p><i tal:condition="e2"><b tal:content="???"/></i>B',
         options={'strict': False},
         ensures=["not bool(val(1))", "not bool(val(2))"],
         raises={
             'ExpressionError': {
                 'when': "bool(val(1)) or bool(val(2))",
                 # the error belongs to the site that was reached, not to an equal-looking one
                 'ensures': ["text(exc.token) == '???'",
                             "not bool(val(1)) or exc.token.pos == template_pos('???')",
                             "bool(val(1)) or exc.token.pos == template_rpos('???')",
                             "token_now() == exc.token.pos"]},
             '*': {'ensures': ["raised('e1') or raised('e2')"]}},
         serves=['C19', 'C11']),
    dict(id='S-Strict-rejects', text=BAD, options={'strict': True},
         expect_error={'class': 'ExpressionError', 'token': '???'}, serves=['C19', 'C11']),
    # every alternative of a pipe is an expression of the template: an invalid one is a compile error
    # wherever it stands (also behind an alternative that can never fail)
    dict(id='S-Strict-rejects-pipe-tail', text='A<p tal:content="\'n/a\' | 1 +">x</p>B', options={'strict': True},
         expect_error={'class': 'ExpressionError', 'token': '1 +'}, serves=['C19', 'C11', 'C04']),
    dict(id='S-Strict-rejects-pipe-middle', text='A<p tal:content="e1 | None | ??? | 2">x</p>B', options={'strict': True},
         expect_error={'class': 'ExpressionError', 'token': '???'}, serves=['C19', 'C11', 'C04']),
    dict(id='S-Strict-rejects-second-macro',
         # strict compilation visits EVERY macro body -- also one whose name denotes the same render
         # function as an earlier macro ('a-b' and 'a_b')
         text='A<m metal:define-macro="a-b">x</m><n metal:define-macro="a_b"><i tal:content="1 +"/></n>B',
         options={'strict': True},
         expect_error={'class': 'ExpressionError', 'token': '1 +'}, serves=['C19', 'C11']),
    dict(id='S-Deferred-switch',
         # non-strict: an invalid expression is deferred wherever it stands -- also as the operand of a
         # tal:switch that has cases, or in a dict-valued tal:attributes entry next to a static attribute
         text='A<ul tal:switch="1 +"><li tal:case="e2">x</li></ul><a class="c" tal:attributes="dict(h=1">y</a>B',
         options={'strict': False}, static_only=True, serves=['C19']),
    dict(id='S-TextMode-colliding-names',
         # each ${...} is "replaced by the value of exactly that expression": also when two expression
         # texts differ only in characters that are not word characters
         text="a ${e1}|${'x-y'}|${'x_y'}|${'x y'}", cls='PageTextTemplate',
         ensures=["evals(1) == 1",
                  "not is_exact(val(1), str) or S() == S0() + 'a ' + text(val(1)) + '|x-y|x_y|x y'"],
         raises={'*': {'ensures': ["raised('e1') or ext_count() > 0 or translate_calls() > 0"]}},
         serves=['C20', 'C06']),
    dict(id='S-Bom-positions',
         # a str template that starts with U+FEFF: the mark is a character of the source like any other;
         # recorded positions (token table: static checks) refer to the text as given
         text='\ufeffA<p>${e1}</p>\n<i tal:content="e2"/>B',
         ensures=["trace('e1', 'e2')"],
         raises={'*': {'ensures': ["raised('e1') or raised('e2')"]}},
         serves=['C12', 'C11']),
    dict(id='S-CRLF-positions',
         # a template with Windows line ends: expression text, line and column in the token table are
         # those of the document with each CR LF taken as one line break (static checks token_table[...])
         text='A<p>a</p>\r\n<p>b</p>\r\n<p>${e1}</p>\r\n <i tal:content="e2"/>B',
         ensures=["trace('e1', 'e2')"],
         raises={'*': {'ensures': ["raised('e1') or raised('e2')"]}},
         serves=['C12', 'C11']),
    dict(id='S-TextMode', text='a ${e1} $$ <b> &amp; x', cls='PageTextTemplate',
         ensures=[
             "evals(1) == 1",
             # the unescaped string form: str values are inserted as they are, None as nothing
             "not is_exact(val(1), str) or S() == S0() + 'a ' + text(val(1)) + ' $ <b> &amp; x'",
             "val(1) is not None or S() == S0() + 'a  $ <b> &amp; x'",
         ],
         # besides the expression itself only the value's own __html__/translate hooks can raise
         raises={'*': {'ensures': ["raised('e1') or ext_count() > 0 or translate_calls() > 0"]}},
         serves=['C20', 'C06']),
    dict(id='S-TextMode-lt', text='<b>${e1}</b> tail & $$', cls='PageTextTemplate',
         ensures=[
             "evals(1) == 1",
             "not is_exact(val(1), str) or S() == S0() + '<b>' + text(val(1)) + '</b> tail & $'",
         ],
         raises={'*': {'ensures': ["raised('e1') or ext_count() > 0 or translate_calls() > 0"]}},
         serves=['C20']),
    dict(id='S-TextMode-endtag', text='</b>${e1}', cls='PageTextTemplate',
         ensures=["evals(1) == 1",
                  "not is_exact(val(1), str) or S() == S0() + '</b>' + text(val(1))"],
         raises={'*': {'ensures': ["raised('e1') or ext_count() > 0 or translate_calls() > 0"]}},
         serves=['C20']),
]

CONTRACTS = schema_contracts(SPECS)
