"""Trusted models ("axiom schemas") of Python builtins and str/list/dict/re methods, plus
call dispatch and contract application.  Every model used is recorded in the
trusted base of the evidence; each model is conformance-tested against CPython
(pyvc/conformance.py) on every run.
"""
from __future__ import annotations

import ast
import re as _re

import z3

from .paths import PathEnd
from .values import (NONE, Ty, Unsupported, V, VAny, VBool, VBytes, VConc, VDict, VExc, VFunc,
                     VInt, VList, VMap, VMatch, VNone, VOpt, VRec, VSeq, VSlice, VStr, VToken,
                     VTuple, Val, TokenSort, eq, fresh, fresh_name, ident, is_none, ite, lit,
                     parse_ty, sort_of, strterm, to_any, truth, ty_of, unwrap, wrap,
                     f_str_of, f_typeid, f_html_of, f_call0)

USED = set()   # names of models used in this process (-> trusted_base)


def used(name):
    USED.add(name)


# python's str.isspace() set (identical in 3.11 and 3.12)
WS_CHARS = [c for c in range(0x3000 + 1) if chr(c).isspace()]


def charset_re(chars):
    rs = [z3.Re(z3.StringVal(chr(c) if isinstance(c, int) else c)) for c in chars]
    if not rs:
        return z3.Empty(z3.ReSort(z3.StringSort()))
    return z3.Union(*rs) if len(rs) > 1 else rs[0]


WS_RE = None


def ws_re():
    global WS_RE
    if WS_RE is None:
        WS_RE = charset_re(WS_CHARS)
    return WS_RE


# ---------------------------------------------------------------------------
# helpers
# ---------------------------------------------------------------------------
def as_int(v):
    if isinstance(v, VInt):
        return v.t
    if isinstance(v, VOpt):
        return as_int(v.val)
    if isinstance(v, VBool):
        return z3.If(v.t, z3.IntVal(1), z3.IntVal(0))
    if isinstance(v, VConc) and isinstance(v.obj, int):
        return z3.IntVal(v.obj)
    raise Unsupported('expected int, got %r' % (v,))


def concretise(v):
    """V -> python object, only for values that are concrete"""
    if isinstance(v, VConc):
        return v.obj
    if isinstance(v, VNone):
        return None
    if isinstance(v, (VStr, VBytes)):
        t = z3.simplify(v.t)
        if z3.is_string_value(t):
            s = t.as_string()
            s = decode_z3_string(s)
            return s if isinstance(v, VStr) else s.encode('latin-1')
    if isinstance(v, VInt):
        t = z3.simplify(v.t)
        if z3.is_int_value(t):
            return t.as_long()
    if isinstance(v, VBool):
        t = z3.simplify(v.t)
        if z3.is_true(t):
            return True
        if z3.is_false(t):
            return False
    if isinstance(v, (VTuple,)):
        return tuple(concretise(i) for i in v.items)
    if isinstance(v, VList):
        return [concretise(i) for i in v.items]
    raise Unsupported('value is not concrete: %r' % (v,))


def is_concrete(v):
    try:
        concretise(v)
        return True
    except Unsupported:
        return False


def decode_z3_string(s):
    r"""z3 prints non-printable characters as \u{XX}; undo that."""
    def rep(m):
        return chr(int(m.group(1), 16))
    return _re.sub(r'\\u\{([0-9a-fA-F]+)\}', rep, s)


def dict_key(v):
    if isinstance(v, VTuple):
        return tuple(dict_key(i) for i in v.items)
    return concretise(v)


def snapshot(v):
    if isinstance(v, VList):
        return VList([snapshot(x) for x in v.items])
    if isinstance(v, VDict):
        return VDict({k: snapshot(x) for k, x in v.items.items()})
    if isinstance(v, VSeq):
        s = VSeq(v.ty, v.t)
        s.__dict__.update({k: x for k, x in v.__dict__.items() if k not in ('ty', 't')})
        return s
    if isinstance(v, VMap):
        return VMap(v.kty, v.vty, v.has, v.val)
    if isinstance(v, VRec):
        return VRec(v.cls, {k: snapshot(x) for k, x in v.fields.items()})
    return v


def norm_bound(b, n, default):
    """slice bound -> clamped z3 Int in [0, n]"""
    def clamp(t):
        return z3.If(t < 0, z3.If(t + n < 0, z3.IntVal(0), t + n), z3.If(t > n, n, t))
    if isinstance(b, VNone):
        return default
    if isinstance(b, VOpt):
        return z3.If(b.none, default, clamp(as_int(b.val)))
    return clamp(as_int(b))


def slice_terms(sl, n):
    if not isinstance(sl.step, VNone):
        raise Unsupported('slice step')
    lo = norm_bound(sl.start, n, z3.IntVal(0))
    hi = norm_bound(sl.stop, n, n)
    ln = z3.If(hi > lo, hi - lo, z3.IntVal(0))
    return lo, ln


def str_slice(s, sl):
    used('str.__getitem__(slice)')
    lo, ln = slice_terms(sl, z3.Length(s))
    return z3.SubString(s, lo, ln)


def to_str(I, v):
    """python str(v)"""
    if isinstance(v, (VStr,)):
        return v
    if isinstance(v, VToken):
        return VStr(v.s)
    if isinstance(v, VInt):
        used('str(int)')
        return VStr(z3.If(v.t >= 0, z3.IntToStr(v.t), z3.Concat(z3.StringVal('-'), z3.IntToStr(-v.t))))
    if isinstance(v, VBool):
        return VStr(z3.If(v.t, z3.StringVal('True'), z3.StringVal('False')))
    if isinstance(v, VNone):
        return VStr('None')
    if isinstance(v, VAny) and I is not None and I.spec_mode == 0:
        used('str(any)')
        t = v.t
        if I.decide(Val.is_str(t), 'str()-of-str'):
            return VStr(Val.s(t))
        if I.decide(Val.is_tok(t), 'str()-of-token'):
            return VStr(TokenSort.s(Val.t(t)))
        if I.decide(Val.is_obj(t), 'str()-of-object'):
            return VStr(f_str_of(t))
    if isinstance(v, VAny):
        used('str(any)')
        t = v.t
        i = Val.i(t)
        return VStr(z3.If(Val.is_str(t), Val.s(t),
                    z3.If(Val.is_tok(t), TokenSort.s(Val.t(t)),
                    z3.If(Val.is_int(t), z3.If(i >= 0, z3.IntToStr(i),
                                               z3.Concat(z3.StringVal('-'), z3.IntToStr(-i))),
                    z3.If(Val.is_none(t), z3.StringVal('None'),
                    z3.If(Val.is_bool(t), z3.If(Val.b(t), z3.StringVal('True'),
                                                z3.StringVal('False')), f_str_of(t)))))))
    if isinstance(v, VConc):
        return VStr(str(v.obj))
    if isinstance(v, VOpt):
        return VStr(z3.If(v.none, z3.StringVal('None'), to_str(I, v.val).t))
    raise Unsupported('str(%r)' % (v,))


# ---------------------------------------------------------------------------
# binary operators and comparisons
# ---------------------------------------------------------------------------
def _unopt(I, v):
    """operand that may be None: spec mode uses the value; program mode forks a TypeError"""
    if isinstance(v, VOpt):
        if I.spec_mode == 0 and I.decide(v.none, 'none-operand'):
            from .interp import Raised
            raise Raised(VExc(TypeError, [VStr('unsupported operand type: NoneType')]))
        return v.val
    return v


def binop(I, op, a, b):
    strish = (VStr, VToken)
    a, b = _unopt(I, a), _unopt(I, b)
    if isinstance(op, ast.Add):
        if isinstance(a, VToken):
            return I.vc.method_contract(I, a, '__add__', [b], {})
        if isinstance(a, strish) and isinstance(b, strish):
            used('str.__add__')
            return VStr(z3.Concat(a.t, b.t))
        if isinstance(a, VBytes) and isinstance(b, VBytes):
            return VBytes(z3.Concat(a.t, b.t))
        if isinstance(a, VStr) and isinstance(b, VAny) and I.spec_mode == 0:
            # str + <dynamically typed value>: concatenation for a str, TypeError otherwise
            # (str subclasses / __radd__ are outside the model: Val.is_str covers exact and sub-typed str)
            used('str.__add__(dynamic)')
            if I.decide(Val.is_str(b.t), 'add-str'):
                return VStr(z3.Concat(a.t, Val.s(b.t)))
            from .interp import Raised
            raise Raised(VExc(TypeError, []))
        if isinstance(a, (VList, VTuple)) and type(a) is type(b):
            return type(a)(a.items + b.items)
        if isinstance(a, VSeq) and isinstance(b, (VSeq, VList, VTuple)):
            return VSeq(a.ty, z3.Concat(a.t, seq_of(I, b, a.ty).t))
        if isinstance(a, (VList, VTuple)) and isinstance(b, VSeq):
            return VSeq(b.ty, z3.Concat(seq_of(I, a, b.ty).t, b.t))
        return VInt(as_int(a) + as_int(b))
    if isinstance(op, ast.Sub):
        return VInt(as_int(a) - as_int(b))
    if isinstance(op, ast.Mult):
        if isinstance(a, strish) or isinstance(b, strish):
            s, n = (a, b) if isinstance(a, strish) else (b, a)
            return str_repeat(I, s, n)
        return VInt(as_int(a) * as_int(b))
    if isinstance(op, ast.FloorDiv):
        used('int.__floordiv__')
        x, y = as_int(a), as_int(b)
        if I.spec_mode == 0 and not I.decide(y != 0, 'div0'):
            from .interp import Raised
            raise Raised(VExc(ZeroDivisionError, []))
        return VInt(py_floordiv(x, y))
    if isinstance(op, ast.Mod):
        if isinstance(a, strish):
            return str_format(I, a, b)
        used('int.__mod__')
        x, y = as_int(a), as_int(b)
        if I.spec_mode == 0 and not I.decide(y != 0, 'div0'):
            from .interp import Raised
            raise Raised(VExc(ZeroDivisionError, []))
        return VInt(py_mod(x, y))
    if isinstance(op, ast.BitAnd):
        x, y = as_int(a), as_int(b)
        y = z3.simplify(y)
        if z3.is_int_value(y) and y.as_long() == 1:
            used('int.__and__(1)')
            return VInt(py_mod(x, z3.IntVal(2)))
        raise Unsupported('bitwise and')
    if isinstance(op, ast.BitOr):
        if isinstance(a, VConc) and isinstance(b, VConc):
            return VConc(a.obj | b.obj)
    raise Unsupported('binary operator %s on %r, %r' % (type(op).__name__, a, b))


def py_floordiv(x, y):
    """python floor division in terms of SMT-LIB div (euclidean)"""
    return z3.If(y > 0, x / y, -((-x) / (-y)) if False else z3.If(y < 0, (-x) / (-y), z3.IntVal(0)))


def py_mod(x, y):
    """python modulo: sign follows the divisor"""
    return z3.If(y > 0, x % y, z3.If(y < 0, -((-x) % (-y)), z3.IntVal(0)))


def str_repeat(I, s, n):
    used('str.__mul__')
    st = strterm(s)
    nt = z3.simplify(as_int(n))
    if z3.is_int_value(nt):
        k = nt.as_long()
        if k <= 0:
            return VStr('')
        return VStr(z3.Concat(*([st] * k)) if k > 1 else st)
    # symbolic count: uninterpreted repeat with defining axioms (unfolded on demand by lemmas)
    rep = z3.Function('str_repeat', z3.StringSort(), z3.IntSort(), z3.StringSort())
    r = rep(st, nt)
    I.assume(z3.Implies(nt <= 0, r == z3.StringVal('')))
    I.assume(z3.Implies(nt >= 0, z3.Length(r) == z3.Length(st) * nt))
    I.assume(z3.Implies(nt == 1, r == st))
    I.assume(z3.Implies(nt == 2, r == z3.Concat(st, st)))
    I.assume(z3.Implies(nt == 3, r == z3.Concat(st, st, st)))
    return VStr(r)


_FMT_CONV = _re.compile(r'%(?:\((.*?)\))?([#0\- +]*)(\*|\d+)?(?:\.(\*|\d+))?[hlL]?(.|$)')


def str_format(I, fmt, arg):
    used('str.__mod__')
    f = concretise(fmt)
    args = arg.items if isinstance(arg, VTuple) else [arg]
    convs = _FMT_CONV.findall(f)
    plain = all(c[4] in ('s', 'r', '%') and not (c[0] or c[1] or c[2] or c[3]) for c in convs)
    if not plain or any(c[4] == '' for c in convs):
        # anything but bare %s / %r / %%: what CPython does with this format string does not depend
        # on the argument VALUES when it is a format error or an arity error -- run it on
        # placeholder strings and take over the exception
        numeric = any(c[4] in 'diouxXeEfFgGc' for c in convs)
        try:
            f % tuple('\x00' for _ in args)
            failed = None
        except (ValueError, TypeError) as e:
            failed = e
        if failed is not None and not numeric and I.spec_mode == 0:
            from .interp import Raised
            raise Raised(VExc(type(failed), [VStr(str(failed))]))
        if not numeric:
            raise Unsupported('format string %r' % (f,))
    parts, i, k = [], 0, 0
    buf = ''
    while i < len(f):
        if f[i] == '%' and i + 1 < len(f):
            c = f[i + 1]
            if c == '%':
                buf += '%'
            elif c in 'sd':
                if buf:
                    parts.append(z3.StringVal(buf))
                    buf = ''
                parts.append(to_str(I, args[k]).t)
                k += 1
            elif c == 'r':
                if buf:
                    parts.append(z3.StringVal(buf))
                    buf = ''
                parts.append(z3.String(fresh_name('repr')))
                k += 1
            else:
                raise Unsupported('format spec %%%s' % c)
            i += 2
        else:
            buf += f[i]
            i += 1
    if buf:
        parts.append(z3.StringVal(buf))
    if k != len(args):
        raise Unsupported('format arity')
    if not parts:
        return VStr('')
    return VStr(z3.Concat(*parts) if len(parts) > 1 else parts[0])


def compare(I, op, a, b):
    if isinstance(op, ast.Eq):
        return eq(a, b)
    if isinstance(op, ast.NotEq):
        return z3.Not(eq(a, b))
    if isinstance(op, (ast.Is, ast.IsNot)):
        if isinstance(a, VTypeOf) or isinstance(b, VTypeOf):
            t, c = (a, b) if isinstance(a, VTypeOf) else (b, a)
            r = exact_type_term(I, t.v, c.obj)
        else:
            r = ident(a, b)
        return r if isinstance(op, ast.Is) else z3.Not(r)
    if isinstance(op, (ast.In, ast.NotIn)):
        c = contains(I, b, a)
        return c if isinstance(op, ast.In) else z3.Not(c)
    a, b = _unopt(I, a), _unopt(I, b)
    if isinstance(a, (VStr, VToken)) and isinstance(b, (VStr, VToken)):
        used('str.__lt__')
        x, y = a.t, b.t
        if isinstance(op, ast.Lt):
            return x < y
        if isinstance(op, ast.LtE):
            return x <= y
        if isinstance(op, ast.Gt):
            return y < x
        if isinstance(op, ast.GtE):
            return y <= x
    x, y = as_int(a), as_int(b)
    if isinstance(op, ast.Lt):
        return x < y
    if isinstance(op, ast.LtE):
        return x <= y
    if isinstance(op, ast.Gt):
        return x > y
    if isinstance(op, ast.GtE):
        return x >= y
    raise Unsupported('comparison %s' % type(op).__name__)


def contains(I, container, item):
    if getattr(container, 'kind', '') == 'chain':
        return container.contains(item)
    if isinstance(container, VOpt):
        container = _unopt(I, container)
    if isinstance(container, (VStr, VToken)):
        used('str.__contains__')
        return z3.Contains(container.t, strterm(item))
    if isinstance(container, (VTuple, VList)):
        return z3.Or([eq(item, x) for x in container.items] + [z3.BoolVal(False)])
    if isinstance(container, VConc) and isinstance(container.obj, (set, frozenset, tuple, list, dict)):
        objs = list(container.obj)
        return z3.Or([eq(item, lit(o)) for o in objs] + [z3.BoolVal(False)])
    if isinstance(container, VDict):
        return z3.Or([eq(item, lit(k)) for k in container.items] + [z3.BoolVal(False)])
    if isinstance(container, VMap):
        if isinstance(item, VOpt) and container.kty.name != 'opt':
            return z3.And(z3.Not(item.none), z3.Select(container.has, unwrap(container.kty, item.val)))
        return z3.Select(container.has, unwrap(container.kty, item))
    if isinstance(container, VSeq):
        used('list.__contains__')
        return z3.Contains(container.t, z3.Unit(unwrap(container.ty, item)))
    if isinstance(container, VRec):
        return I.vc.method_contract(I, container, '__contains__', [item], {}).t
    if isinstance(container, VAny) and I.spec_mode == 0 and \
            (getattr(I.contract, 'ghost', None) or {}).get('opaque_subscript'):
        # membership test on an opaque object: an event of the ghost trace, like a subscript
        tr = I.ghost.setdefault('ext_trace', [])
        r = fresh(Ty('bool'), 'ext_contains')
        tr.append({'name': 'subscr', 'args': [container, item], 'kwargs': {}, 'raised': False, 'result': r})
        return r.t
    if isinstance(container, VAny):
        t = container.t
        if I.spec_mode == 0 and not I.decide(z3.Or(Val.is_str(t), Val.is_tok(t)), 'in-str'):
            raise Unsupported('`in` on a dynamically typed non-string')
        st = z3.If(Val.is_tok(t), TokenSort.s(Val.t(t)), Val.s(t))
        return z3.Contains(st, strterm(item))
    raise Unsupported('`in` on %r' % (container,))


# ---------------------------------------------------------------------------
# attributes / items
# ---------------------------------------------------------------------------
def get_attr(I, obj, name):
    from .interp import Raised
    if isinstance(obj, VOpt):
        if I.spec_mode:
            return get_attr(I, obj.val, name)
        if I.decide(obj.none, 'none-deref'):
            raise Raised(VExc(AttributeError, [VStr(name)]))
        return get_attr(I, obj.val, name)
    if isinstance(obj, VNone):
        raise Raised(VExc(AttributeError, [VStr(name)]))
    if isinstance(obj, VToken):
        if name == 'pos':
            return VInt(obj.pos)
        if name == 'source':
            return obj.source
        if name == 'filename':
            return obj.filename
        if name == 'location':
            return I.vc.method_contract(I, obj, 'location', [], {}, is_property=True)
        return VFunc(name, selfv=obj)
    if isinstance(obj, VSlice):
        return {'start': obj.start, 'stop': obj.stop, 'step': obj.step}[name]
    if getattr(obj, 'kind', '') == 'ktext':
        return VFunc(name, selfv=obj)       # bound method of the output stream
    if isinstance(obj, VRec):
        if name in obj.fields:
            return obj.fields[name]
        r = I.vc.rec_attr(I, obj, name)
        if r is not None:
            return r
        raise Raised(VExc(AttributeError, [VStr(name)]))
    if isinstance(obj, VExc):
        if name == 'args':
            return VTuple(obj.args)
        if name in obj.extra:
            return obj.extra[name]
        if name == 'token' and len(obj.args) >= 2:
            return obj.args[1]
        if name == 'msg' and obj.args:
            return obj.args[0]
        if name == 'msg' and obj.cls is not None and issubclass(obj.cls, SyntaxError):
            # the message of a SyntaxError raised by an external (the Python parser): some value
            return obj.extra.setdefault('msg', VAny(Val.obj(z3.Int(fresh_name('exc_msg')))))
        if name == '__str__':
            f = z3.Function('exc_str_method', z3.IntSort(), Val)
            return VAny(f(obj.ecls if obj.ecls is not None else z3.IntVal(conc_oid_(obj))))
        raise Unsupported('exception attribute %s' % name)
    if isinstance(obj, VAny) and name == '__html__':
        used('getattr(any, "__html__") (uninterpreted; absent on None/bool/int/str/bytes/Token)')
        t = obj.t
        h = f_html_of(t)
        I.assume(z3.Implies(z3.Not(Val.is_obj(t)), Val.is_none(h)))
        if I.spec_mode == 0 and I.decide(Val.is_none(h), 'no-__html__'):
            raise Raised(VExc(AttributeError, [VStr(name)]))
        return VAny(h)
    if isinstance(obj, VAny) and I.spec_mode == 0 and \
            name in (getattr(I.contract, 'ghost', None) or {}).get('opaque_attrs', ()):
        return opaque_event(I, 'attr:' + name, [obj], AttributeError, name)
    if isinstance(obj, VAny) and 'k3' in I.ghost and I.spec_mode == 0:
        used('attribute of an opaque object (uninterpreted)')
        f = z3.Function('attr_' + name, Val, Val)
        return VAny(f(obj.t))
    if isinstance(obj, VAny) and I.spec_mode and name in ('pos', 'source', 'filename'):
        tk = wrap(Ty('Token'), Val.t(obj.t))
        return get_attr(I, tk, name)
    if isinstance(obj, VMatch):
        if name == 'string':
            return VStr(obj.string)
        return VFunc(name, selfv=obj)
    if isinstance(obj, VConc):
        o = obj.obj
        if isinstance(o, type) and o is str:
            return VFunc('str.' + name, selfv=None)
        if isinstance(o, type) and o is dict:
            return VFunc('dict.' + name, selfv=None)
        if isinstance(o, type) and o is bytes:
            return VFunc('bytes.' + name, selfv=None)
        if isinstance(o, _re.Pattern):
            return VFunc(name, selfv=obj)
        import logging as _logging
        if isinstance(o, _logging.Logger):
            return VFunc(name, selfv=obj)
        if isinstance(o, (str, bytes, int, tuple, frozenset, set, dict, list)) and not isinstance(o, type):
            return VFunc(name, selfv=lit(o) if isinstance(o, (str, bytes, int, tuple)) else obj)
        try:
            val = getattr(o, name)
        except AttributeError:
            raise Raised(VExc(AttributeError, [VStr(name)]))
        return I.vc.wrap_global(val, name)
    # methods on values
    return VFunc(name, selfv=obj)


def set_attr(I, obj, name, v):
    if isinstance(obj, VRec):
        I.vc.on_set_attr(I, obj, name, v)
        obj.fields[name] = v
        return
    if isinstance(obj, VToken):
        if name == 'pos':
            obj.pos = as_int(v)
        elif name == 'source':
            obj.source = v
        elif name == 'filename':
            obj.filename = v
        else:
            raise Unsupported('Token attribute %s' % name)
        return
    if isinstance(obj, VExc):
        obj.extra[name] = v
        return
    raise Unsupported('attribute assignment on %r' % (obj,))


def seq_len(sq):
    return z3.Length(sq.t)


def seq_at(sq, i):
    """element i of a VSeq as V (no bounds check)"""
    return wrap(sq.ty, sq.t[i])


def seq_of(I, v, ty):
    if isinstance(v, VSeq):
        return v
    if isinstance(v, (VList, VTuple)):
        units = [z3.Unit(unwrap(ty, x)) for x in v.items]
        if not units:
            return VSeq(ty, z3.Empty(z3.SeqSort(sort_of(ty))))
        return VSeq(ty, z3.Concat(*units) if len(units) > 1 else units[0])
    raise Unsupported('seq_of %r' % (v,))


def index_term(I, idx, n, what):
    """python index (negative allowed) -> z3 Int in [0,n) ; raises IndexError path otherwise"""
    from .interp import Raised
    i = as_int(idx)
    j = z3.If(i < 0, i + n, i)
    if I.spec_mode == 0:
        if not I.decide(z3.And(j >= 0, j < n), 'index-in-range'):
            raise Raised(VExc(IndexError, [VStr('%s index out of range' % what)]))
    return j


def opaque_event(I, name, args, exc_cls=None, exc_arg=None):
    """an operation on an opaque object (attribute fetch, subscript): recorded in the ghost trace
    like an external call; it yields a fresh value or raises -- `exc_cls` only, or anything"""
    from .interp import Raised
    tr = I.ghost.setdefault('ext_trace', [])
    out = I.path.choose(2, 'ext:%s' % name)
    rec = {'name': name, 'args': list(args), 'kwargs': {}, 'raised': bool(out)}
    tr.append(rec)
    if out:
        if exc_cls is not None:
            exc = VExc(exc_cls, [VStr(exc_arg or '')])
        else:
            from .k3 import new_sym_exc
            exc = new_sym_exc(I, fresh_name('exc_' + name))
        rec['exc'] = exc
        raise Raised(exc)
    rec['result'] = fresh(Ty('any'), 'ext_' + name.replace(':', '_'))
    return rec['result']


def get_item(I, obj, idx):
    from .interp import Raised
    if getattr(obj, 'kind', '') == 'repeatdict':
        return obj.state.repeat_get(I, idx)
    if isinstance(obj, VAny) and I.spec_mode and not isinstance(idx, VSlice):
        # in a specification: an uninterpreted projection of a dynamically typed value
        f = z3.Function('any_item', Val, Val, Val)
        return VAny(f(obj.t, to_any(idx).t))
    if isinstance(obj, VAny) and I.spec_mode == 0 and \
            (getattr(I.contract, 'ghost', None) or {}).get('opaque_subscript'):
        return opaque_event(I, 'subscr', [obj, idx])
    if isinstance(obj, VOpt):
        if I.spec_mode == 0 and I.decide(obj.none, 'none-subscript'):
            raise Raised(VExc(TypeError, [VStr("'NoneType' object is not subscriptable")]))
        return get_item(I, obj.val, idx)
    if isinstance(obj, VToken):
        if isinstance(idx, VSlice):
            if I.spec_mode:
                # in specs token[a:b] denotes the sliced *text*
                return VStr(str_slice(obj.s, idx))
            return I.vc.method_contract(I, obj, '__getitem__', [idx], {})
        obj = VStr(obj.s)
    if isinstance(obj, (VStr, VBytes)):
        if isinstance(idx, VSlice):
            return type(obj)(str_slice(obj.t, idx))
        used('str.__getitem__(int)')
        j = index_term(I, idx, z3.Length(obj.t), 'string')
        if isinstance(obj, VBytes):
            return VInt(z3.StrToCode(z3.SubString(obj.t, j, 1)))
        return VStr(z3.SubString(obj.t, j, 1))
    if isinstance(obj, (VTuple, VList)):
        if isinstance(idx, VSlice):
            lo = None if isinstance(idx.start, VNone) else concretise(idx.start)
            hi = None if isinstance(idx.stop, VNone) else concretise(idx.stop)
            return type(obj)(obj.items[lo:hi])
        k = z3.simplify(as_int(idx))
        if z3.is_int_value(k):
            k = k.as_long()
            if -len(obj.items) <= k < len(obj.items):
                return obj.items[k]
            raise Raised(VExc(IndexError, [VStr('index out of range')]))
        # symbolic index into concrete spine
        j = index_term(I, idx, z3.IntVal(len(obj.items)), 'list')
        acc = obj.items[-1]
        for n in range(len(obj.items) - 2, -1, -1):
            acc = ite(j == n, obj.items[n], acc)
        return acc
    if isinstance(obj, VSeq):
        used('list.__getitem__')
        if isinstance(idx, VSlice):
            lo, ln = slice_terms(idx, z3.Length(obj.t))
            return VSeq(obj.ty, z3.SubSeq(obj.t, lo, ln))
        j = index_term(I, idx, z3.Length(obj.t), 'list')
        return seq_at(obj, j)
    if isinstance(obj, VDict):
        k = dict_key(idx)
        if k in obj.items:
            return obj.items[k]
        raise Raised(VExc(KeyError, [idx]))
    if isinstance(obj, VMap):
        used('dict.__getitem__')
        if isinstance(idx, VOpt) and obj.kty.name != 'opt':
            # a maybe-None key into a map whose keys are never None
            if I.spec_mode == 0 and I.decide(idx.none, 'none-key'):
                raise Raised(VExc(KeyError, [NONE]))
            idx = idx.val      # (in a spec the clause guards `key in map` first)
        kt = unwrap(obj.kty, idx)
        if I.spec_mode == 0:
            if not I.decide(z3.Select(obj.has, kt), 'key-present'):
                raise Raised(VExc(KeyError, [idx]))
        return wrap(obj.vty, z3.Select(obj.val, kt))
    if isinstance(obj, VConc) and isinstance(obj.obj, (dict, tuple, list, str)):
        if isinstance(idx, VSlice):
            lo = None if isinstance(idx.start, VNone) else concretise(idx.start)
            hi = None if isinstance(idx.stop, VNone) else concretise(idx.stop)
            return lit(obj.obj[lo:hi])
        try:
            return lit(obj.obj[dict_key(idx)])
        except KeyError:
            raise Raised(VExc(KeyError, [idx]))
        except IndexError:
            raise Raised(VExc(IndexError, [idx]))
    if isinstance(obj, VRec):
        return I.vc.method_contract(I, obj, '__getitem__', [idx], {})
    if getattr(obj, 'kind', '') == 'tokens':
        # __tokens[__token]: key must be one of the recorded positions
        keys = sorted(obj.table)
        if isinstance(idx, VNone):
            raise Raised(VExc(KeyError, [idx]))
        isnone = idx.none if isinstance(idx, VOpt) else z3.BoolVal(False)
        it = as_int(idx)
        ok = z3.And(z3.Not(isnone), z3.Or([it == k for k in keys] + [z3.BoolVal(False)]))
        if I.spec_mode == 0 and not I.decide(ok, 'token-key-present'):
            raise Raised(VExc(KeyError, [idx]))
        def entry(k):
            txt, ln, col = obj.table[k]
            return VTuple([VStr(txt), VInt(ln), VInt(col)])
        acc = entry(keys[-1])
        for k in reversed(keys[:-1]):
            acc = ite(it == k, entry(k), acc)
        return acc
    raise Unsupported('subscript of %r' % (obj,))


def set_item(I, obj, idx, v):
    from .interp import Raised
    if getattr(obj, 'kind', '') == 'repeatdict':
        obj.state.repeat_set(I, idx, v)
        return
    if isinstance(obj, (VAny, VConc)) and I.spec_mode == 0 and \
            (getattr(I.contract, 'ghost', None) or {}).get('opaque_subscript'):
        # obj[idx] = v on an opaque object (or a real container of the running interpreter, such
        # as sys.modules): an event of the ghost trace
        I.ghost.setdefault('ext_trace', []).append(
            {'name': 'setitem', 'args': [obj, idx, v], 'kwargs': {}, 'raised': False})
        return
    if isinstance(obj, VList):
        k = concretise(idx)
        try:
            obj.items[k] = v
        except IndexError:
            raise Raised(VExc(IndexError, [idx]))
        return
    if isinstance(obj, VDict):
        obj.items[dict_key(idx)] = v
        return
    if isinstance(obj, VSeq):
        used('list.__setitem__')
        n = z3.Length(obj.t)
        j = index_term(I, idx, n, 'list assignment')
        x = z3.Unit(unwrap(obj.ty, v))
        obj.t = z3.Concat(z3.SubSeq(obj.t, 0, j), x, z3.SubSeq(obj.t, j + 1, n - j - 1))
        return
    if isinstance(obj, VMap):
        used('dict.__setitem__')
        kt = unwrap(obj.kty, idx)
        obj.has = z3.Store(obj.has, kt, z3.BoolVal(True))
        obj.val = z3.Store(obj.val, kt, unwrap(obj.vty, v))
        return
    if isinstance(obj, VRec):
        I.vc.method_contract(I, obj, '__setitem__', [idx, v], {})
        return
    raise Unsupported('item assignment on %.150r' % (obj,))


def del_item(I, obj, idx):
    from .interp import Raised
    if getattr(obj, 'kind', '') == 'ktext':
        if isinstance(idx, VSlice) and isinstance(idx.stop, VNone):
            obj.truncate(I, as_int(idx.start))
            return
        raise Unsupported('del on the output stream other than stream[n:]')
    if isinstance(obj, VList):
        if isinstance(idx, VSlice) and isinstance(idx.stop, VNone) and not isinstance(idx.start, VNone) \
                and not is_concrete(idx.start):
            # del lst[n:] with a symbolic n: one case per element boundary (a VSeg stands for
            # an unknown number of elements); a cut inside a VSeg leaves an unknown prefix of it
            n = as_int(idx.start)
            I.assume(n >= 0)
            pos = z3.IntVal(0)
            for k, x in enumerate(obj.items):
                if I.decide(n == pos, 'del-from'):
                    del obj.items[k:]
                    return
                size = x.n if getattr(x, 'kind', '') == 'seg' else z3.IntVal(1)
                if getattr(x, 'kind', '') == 'seg' and I.decide(z3.And(n > pos, n < pos + size), 'del-inside'):
                    part = type(x)(z3.String(fresh_name('seg_prefix')), n - pos)
                    I.assume(z3.PrefixOf(part.t, x.t))
                    obj.items[k:] = [part]
                    return
                pos = z3.simplify(pos + size)
            return          # n >= len: nothing is removed
        if isinstance(idx, VSlice):
            lo = None if isinstance(idx.start, VNone) else concretise(idx.start)
            hi = None if isinstance(idx.stop, VNone) else concretise(idx.stop)
            del obj.items[lo:hi]
        else:
            del obj.items[concretise(idx)]
        return
    if isinstance(obj, VDict):
        k = dict_key(idx)
        if k not in obj.items:
            raise Raised(VExc(KeyError, [idx]))
        del obj.items[k]
        return
    if isinstance(obj, VSeq):
        used('list.__delitem__')
        n = z3.Length(obj.t)
        if isinstance(idx, VSlice):
            lo, ln = slice_terms(idx, n)
            obj.t = z3.Concat(z3.SubSeq(obj.t, 0, lo), z3.SubSeq(obj.t, lo + ln, n - lo - ln))
        else:
            j = index_term(I, idx, n, 'list')
            obj.t = z3.Concat(z3.SubSeq(obj.t, 0, j), z3.SubSeq(obj.t, j + 1, n - j - 1))
        return
    if isinstance(obj, VMap):
        used('dict.__delitem__')
        kt = unwrap(obj.kty, idx)
        if not I.decide(z3.Select(obj.has, kt), 'key-present'):
            raise Raised(VExc(KeyError, [idx]))
        obj.has = z3.Store(obj.has, kt, z3.BoolVal(False))
        return
    if isinstance(obj, VRec):
        I.vc.method_contract(I, obj, '__delitem__', [idx], {})
        return
    raise Unsupported('del item on %r' % (obj,))


def unpack(I, v, n):
    from .interp import Raised
    if isinstance(v, (VTuple, VList)):
        if len(v.items) != n:
            raise Raised(VExc(ValueError, [VStr('unpack')]))
        return v.items
    if isinstance(v, VSeq):
        if not I.decide(z3.Length(v.t) == n, 'unpack-arity'):
            raise Raised(VExc(ValueError, [VStr('unpack')]))
        return [seq_at(v, z3.IntVal(i)) for i in range(n)]
    if isinstance(v, VAny) and 'k3' in I.ghost:
        # a dynamically typed value unpacked into n names (K3 render code): it is not iterable or has
        # the wrong number of items (TypeError / ValueError), or yields n values
        k = I.path.choose(3, 'unpack')
        if k == 1:
            raise Raised(VExc(TypeError, [VStr('cannot unpack non-iterable')]))
        if k == 2:
            raise Raised(VExc(ValueError, [VStr('unpack')]))
        f = z3.Function('unpack_item', Val, z3.IntSort(), Val)
        return [VAny(f(v.t, z3.IntVal(i))) for i in range(n)]
    raise Unsupported('unpack %.100r' % (v,))


# ---------------------------------------------------------------------------
# iteration support
# ---------------------------------------------------------------------------
class VIter(V):
    """enumerate()/zip()/reversed()/items() over values, kept lazy"""
    kind = 'iter'

    def __init__(self, how, srcs, start=0):
        self.how, self.srcs, self.start = how, srcs, start


def concrete_iter(I, it):
    """list of V if the iterable has a concrete spine, else None"""
    if isinstance(it, (VList, VTuple)):
        return list(it.items)
    if isinstance(it, VDict):
        return [lit(k) for k in it.items]
    if isinstance(it, VConc):
        o = it.obj
        if isinstance(o, (tuple, list, frozenset, set, dict, str, range)):
            xs = sorted(o, key=repr) if isinstance(o, (set, frozenset)) else list(o)
            return [lit(x) for x in xs]
        raise Unsupported('iteration over %r' % (o,))
    if isinstance(it, (VStr, VToken)):
        c = z3.simplify(it.t)
        if z3.is_string_value(c):
            return [VStr(ch) for ch in decode_z3_string(c.as_string())]
        return None
    if isinstance(it, VIter):
        subs = [concrete_iter(I, s) for s in it.srcs]
        if any(s is None for s in subs):
            return None
        if it.how == 'enumerate':
            return [VTuple([VInt(i + it.start), x]) for i, x in enumerate(subs[0])]
        if it.how == 'zip':
            return [VTuple(list(xs)) for xs in zip(*subs)]
        if it.how == 'reversed':
            return list(reversed(subs[0]))
        if it.how == 'items':
            d = it.srcs[0]
            return [VTuple([lit(k), v]) for k, v in d.items.items()]
    if isinstance(it, VSeq):
        return None
    if isinstance(it, VMap):
        return None
    if getattr(it, 'kind', '') == 'repeat_iter':
        return None
    raise Unsupported('iteration over %r' % (it,))


def symbolic_len(I, it):
    if getattr(it, 'kind', '') == 'repeat_iter':
        return it.n
    if isinstance(it, VSeq):
        return z3.Length(it.t)
    if isinstance(it, (VList, VTuple)):
        return z3.IntVal(len(it.items))
    if isinstance(it, VIter):
        if it.how in ('enumerate', 'reversed'):
            return symbolic_len(I, it.srcs[0])
        if it.how == 'zip':
            ls = [symbolic_len(I, s) for s in it.srcs]
            acc = ls[0]
            for x in ls[1:]:
                acc = z3.If(x < acc, x, acc)
            return acc
        if it.how == 'range':
            lo, hi = it.srcs
            return z3.If(hi > lo, hi - lo, z3.IntVal(0))
    raise Unsupported('length of iterable %r' % (it,))


def symbolic_item(I, it, i):
    if getattr(it, 'kind', '') == 'repeat_iter':
        return VAny(it.item(i))
    if isinstance(it, VSeq):
        return seq_at(it, i)
    if isinstance(it, (VList, VTuple)):
        return get_item(I, it, VInt(i))
    if isinstance(it, VIter):
        if it.how == 'enumerate':
            return VTuple([VInt(i + it.start), symbolic_item(I, it.srcs[0], i)])
        if it.how == 'zip':
            return VTuple([symbolic_item(I, s, i) for s in it.srcs])
        if it.how == 'reversed':
            n = symbolic_len(I, it.srcs[0])
            return symbolic_item(I, it.srcs[0], n - 1 - i)
        if it.how == 'range':
            return VInt(it.srcs[0] + i)
    raise Unsupported('item of iterable %r' % (it,))


def havoc_value(I, v, name, spec):
    tys = spec.get('types', {})
    if name in tys:
        return fresh(parse_ty(tys[name]), name)
    if isinstance(v, VList):
        raise Unsupported('list %r is modified inside a cut loop; give its element type in '
                          'the loop spec (types)' % name)
    if isinstance(v, VSeq):
        nv = fresh(Ty('seq', [v.ty]), name)
        nv.__dict__.update({k: x for k, x in v.__dict__.items() if k not in ('ty', 't')})
        return nv
    if isinstance(v, VDict):
        raise Unsupported('dict %r is modified inside a cut loop; give its type' % name)
    if isinstance(v, (VRec,)):
        from . import k3
        if v.cls in k3.NATIVE:
            return v    # render-state records are forgotten by havoc_ghost
        raise Unsupported('record %r modified inside a cut loop' % name)
    if isinstance(v, (VConc, VFunc, VNone)):
        return v
    return fresh(ty_of(v), name)


def havoc_ghost(I, spec):
    """K3: a cut loop forgets the render state (stream, scope, rcontext, token); the loop
    invariant has to re-establish whatever the rest of the proof needs"""
    st = I.ghost.get('k3')
    if st is None:
        return
    stream = st.stream
    stream.text = z3.String(fresh_name('S_loop'))
    stream.count = z3.Int(fresh_name('S_loop_n'))
    I.assume(stream.count >= 0)
    stream.marks = []
    for rec, fld in ((st.econtext, 'local'), (st.rcontext, 'm')):
        f = fresh(Ty('map', [Ty('str'), Ty('any')]), 'loop_' + fld)
        rec.fields[fld].has, rec.fields[fld].val = f.has, f.val
    if '__token' in I.env:
        I.env['__token'] = fresh(Ty('opt', [Ty('int')]), 'loop_token')
    for nm in list(I.ghost.get('repeat_map', {})):
        I.ghost['repeat_map'][nm] = z3.Int(fresh_name('repeat_item_loop'))
    I.ghost['repeat_kept'] = {}


class QuantGen(V):
    """`elt for var in range(lo,hi) if ...` inside a spec, consumed by all()/any()"""
    kind = 'quantgen'

    def __init__(self, I, var, lo, hi, elt, ifs):
        self.I, self.var, self.lo, self.hi, self.elt, self.ifs = I, var, lo, hi, elt, ifs

    def build(self, universal):
        I = self.I
        v = z3.Int(fresh_name('q_' + self.var))
        saved = I.env
        I.env = dict(I.env)
        I.env[self.var] = VInt(v)
        try:
            guard = [v >= self.lo, v < self.hi] + [truth(I.eval(c)) for c in self.ifs]
            body = truth(I.eval(self.elt))
        finally:
            I.env = saved
        if universal:
            return z3.ForAll([v], z3.Implies(z3.And(*guard), body))
        return z3.Exists([v], z3.And(*(guard + [body])))


# ---------------------------------------------------------------------------
# call dispatch
# ---------------------------------------------------------------------------
def external(I, e, name, spec):
    """a call to a function outside the verified code (file system, locks, ...): recorded in the
    ghost trace, result havoced per its declared type, may raise the declared exceptions"""
    from .interp import Raised
    # `*rest` / `**rest` passed on to an external: recorded as the value being spread
    args = [I.eval(a.value) if isinstance(a, ast.Starred) else I.eval(a) for a in e.args]
    kwargs = {(kw.arg or '**'): I.eval(kw.value) for kw in e.keywords}
    short = spec.get('as', name.split('.')[-1])
    if spec.get('exc_info'):
        # sys.exc_info(): (class, instance, traceback) of the exception being handled
        cur = I.ghost.get('handling') or []
        if not cur:
            return VTuple([NONE, NONE, NONE])
        exc = cur[-1]
        cls = VConc(exc.cls) if exc.cls is not None else VAny(Val.obj(exc.ecls))
        return VTuple([cls, exc, VConc(('traceback', id(exc)))])
    if spec.get('function'):
        # a pure observation of the environment (e.g. os.path.exists): the same arguments give
        # the same answer for the duration of the call under verification
        rty = parse_ty(spec['result'])
        f = z3.Function('env_' + short, *([sort_of(ty_of(a)) if not isinstance(a, VToken) else z3.StringSort()
                                           for a in args] + [sort_of(rty)]))
        return wrap(rty, f(*[unwrap(ty_of(a), a) if not isinstance(a, VToken) else a.s for a in args]))
    tr = I.ghost.setdefault('ext_trace', [])
    rz = list(spec.get('raises', []))
    if spec.get('raises_any'):
        rz.append('*')
    outcome = I.path.choose(1 + len(rz), 'ext:%s' % short) if rz else 0
    rec = {'name': short, 'args': args, 'kwargs': kwargs, 'raised': outcome != 0}
    tr.append(rec)
    if spec.get('snapshot'):
        # what the callee can observe of the caller's state at the moment of the call
        rec['snapshot'] = {x: I.eval(ast.parse(x, mode='eval').body) for x in spec['snapshot']}
    for nm in spec.get('havoc', []):
        # an object the callee may mutate: forget what is known about it
        I.env[nm] = fresh(parse_ty(spec.get('havoc_type', 'map[str,any]')), 'havoc_' + nm)
    if spec.get('raises_arg') is not None:
        rec['raised'] = True
        raise Raised(args[spec['raises_arg']])
    if outcome:
        import builtins as _b
        if rz[outcome - 1] == '*':
            from .k3 import new_sym_exc
            exc = new_sym_exc(I, fresh_name('exc_' + short))
            rec['exc'] = exc
            raise Raised(exc)
        exc = VExc(getattr(_b, rz[outcome - 1]), [])
        rec['exc'] = exc
        raise Raised(exc)
    res = spec.get('result')
    if res is None:
        r = NONE
    elif res == 'exception':
        from .k3 import new_sym_exc
        r = new_sym_exc(I, fresh_name('made_exc'))
    elif res == 'dict-copy-of-arg0':
        # Cls(mapping) for a dict subclass: a NEW object whose own dict layer has the mapping's
        # own items and no other attribute
        src = args[0]
        own = src.fields['own']
        from .values import VMap, REC_FIELDS
        cp = VMap(own.kty, own.vty, own.has, own.val) if isinstance(own, VMap) else own
        r = VRec(src.cls, {'own': cp})
        for fld, ty in REC_FIELDS.get(src.cls, {}).items():
            if fld != 'own' and ty.startswith('opt['):
                r.fields[fld] = NONE
    elif res.startswith('rec:'):
        r = VRec('ext::' + res[4:], {})
    else:
        r = fresh(parse_ty(res), 'ext_' + short)
    rec['result'] = r
    return r


def call(I, e):
    f = e.func
    exts = getattr(I.contract, 'ghost', {}).get('externals') if I.contract is not None else None
    if exts:
        try:
            dotted = ast.unparse(f)
        except Exception:
            dotted = None
        if dotted in exts:
            return external(I, e, dotted, exts[dotted])
    # spec-only special forms
    if isinstance(f, ast.Name):
        if f.id == 'old' and I.spec_mode:
            saved = I.env
            env = dict(I.old_env if I.old_env is not None else I.env)
            for k, v in I.env.items():
                if k not in env:
                    env[k] = v
            I.env = env
            try:
                return I.eval(e.args[0])
            finally:
                I.env = saved
    args = []
    for a in e.args:
        if isinstance(a, ast.Starred):
            sv = I.eval(a.value)
            items = concrete_iter(I, sv)
            if items is None:
                raise Unsupported('*args of a symbolic sequence')
            args.extend(items)
        else:
            args.append(None)  # placeholder, evaluated after the callee (python order)
    fv = I.eval(f)
    k = 0
    for i, a in enumerate(e.args):
        if isinstance(a, ast.Starred):
            continue
    # evaluate positional args in order
    args = []
    for a in e.args:
        if isinstance(a, ast.Starred):
            args.extend(concrete_iter(I, I.eval(a.value)))
        else:
            args.append(I.eval(a))
    kwargs = {}
    for kw in e.keywords:
        if kw.arg is None:
            d = I.eval(kw.value)
            if isinstance(d, VDict):
                kwargs.update({str(k): v for k, v in d.items.items()})
            else:
                raise Unsupported('**kwargs of %r' % (d,))
        else:
            kwargs[kw.arg] = I.eval(kw.value)
    return apply(I, fv, args, kwargs, e)


def apply(I, fv, args, kwargs, callnode=None):
    from .interp import Closure
    if isinstance(fv, VFunc):
        if fv.impl is not None:
            return fv.impl(I, args, kwargs, callnode)
        if fv.selfv is not None:
            return method(I, fv.selfv, fv.name, args, kwargs, callnode)
        if '.' in fv.name:
            cls, name = fv.name.split('.', 1)
            if cls in ('str', 'dict', 'bytes'):
                return method(I, args[0], name, args[1:], kwargs, callnode, unbound=cls)
        raise Unsupported('call of %r' % (fv,))
    if isinstance(fv, VConc):
        o = fv.obj
        if isinstance(o, Closure):
            return I.call_closure(o, args, kwargs)
        return builtin(I, o, args, kwargs, callnode)
    if isinstance(fv, VAny) and not args and not kwargs and 'k3' not in I.ghost:
        used('call of an opaque object (uninterpreted result)')
        return VAny(f_call0(fv.t))
    if isinstance(fv, VAny) and 'k3' in I.ghost:
        h = I.ghost.get('handler')
        if h is not None and fv.t.eq(h.t):
            I.ghost['handler_calls'].append(args)
            I.ghost['T'].append(('handler',))
            return fresh(Ty('any'), 'handler_result')
        return I.ghost['k3'].external_call(I, fv, args, kwargs)
    raise Unsupported('call of %r' % (fv,))


def conc_oid_(o):
    from .values import conc_oid
    return conc_oid(o)


def sym_exc_isinstance(exc, classes):
    f = z3.Function('exc_subclass', z3.IntSort(), z3.IntSort(), z3.BoolSort())
    from .values import conc_oid
    return z3.Or([f(exc.ecls, z3.IntVal(conc_oid(c))) for c in classes])


def make_exception(I, cls, args):
    return VExc(cls, args)


def builtin(I, o, args, kwargs, callnode):
    from .interp import Raised
    name = getattr(o, '__name__', None)
    if isinstance(o, type) and issubclass(o, BaseException):
        return make_exception(I, o, args)
    if o is len:
        return VInt(length(I, args[0]))
    if o is isinstance:
        return VBool(isinstance_term(I, args[0], args[1]))
    if o is str:
        if not args:
            return VStr('')
        return to_str(I, args[0])
    if o is repr:
        used('repr')
        if is_concrete(args[0]):
            return VStr(repr(concretise(args[0])))
        raise Unsupported('repr of symbolic value')
    if o is int:
        return to_int(I, args, kwargs)
    if o is bool:
        return VBool(truth(args[0])) if args else VBool(False)
    if o is bytes:
        if not args:
            return VBytes(b'')
        if len(args) == 2 and is_concrete(args[0]) and is_concrete(args[1]):
            return VBytes(bytes(concretise(args[0]), concretise(args[1])))
        raise Unsupported('bytes() of symbolic value')
    if o is abs:
        t = as_int(args[0])
        return VInt(z3.If(t >= 0, t, -t))
    if o is min or o is max:
        xs = args if len(args) > 1 else concrete_iter(I, args[0])
        acc = as_int(xs[0])
        for x in xs[1:]:
            t = as_int(x)
            acc = z3.If(t < acc, t, acc) if o is min else z3.If(t > acc, t, acc)
        return VInt(acc)
    if o is divmod:
        used('divmod')
        x, y = as_int(args[0]), as_int(args[1])
        if I.spec_mode == 0 and not I.decide(y != 0, 'div0'):
            raise Raised(VExc(ZeroDivisionError, []))
        return VTuple([VInt(py_floordiv(x, y)), VInt(py_mod(x, y))])
    if o is chr:
        used('chr')
        c = as_int(args[0])
        if I.spec_mode == 0 and not I.decide(z3.And(c >= 0, c < 0x110000), 'chr-range'):
            raise Raised(VExc(ValueError, [VStr('chr() arg not in range(0x110000)')]))
        return VStr(z3.StrFromCode(c))
    if o is ord:
        used('ord')
        s = strterm(args[0])
        if I.spec_mode == 0 and not I.decide(z3.Length(s) == 1, 'ord-len'):
            raise Raised(VExc(TypeError, [VStr('ord() expected a character')]))
        return VInt(z3.StrToCode(s))
    if o is enumerate:
        st = concretise(args[1]) if len(args) > 1 else concretise(kwargs.get('start', VInt(0)))
        return VIter('enumerate', [args[0]], st)
    if o is zip:
        return VIter('zip', list(args))
    if o is reversed:
        return VIter('reversed', [args[0]])
    if o is range:
        if all(is_concrete(a) for a in args):
            return VConc(range(*[concretise(a) for a in args]))
        if len(args) == 1:
            return VIter('range', [z3.IntVal(0), as_int(args[0])])
        if len(args) == 2:
            return VIter('range', [as_int(args[0]), as_int(args[1])])
        raise Unsupported('range with step')
    if o is tuple or o is list:
        if not args:
            return (VTuple if o is tuple else VList)([])
        items = concrete_iter(I, args[0])
        if items is not None:
            return (VTuple if o is tuple else VList)(items)
        if isinstance(args[0], VSeq):
            return snapshot(args[0])
        if isinstance(args[0], VIter):
            # materialising a lazy iterator over symbolic sequences: iterate a snapshot
            return VIter(args[0].how, [snapshot(x) if isinstance(x, V) else x for x in args[0].srcs],
                         args[0].start)
        raise Unsupported('%s() of symbolic iterable' % name)
    if o is dict:
        if not args:
            return VDict(kwargs)
        if isinstance(args[0], VDict):
            return VDict(args[0].items)
        if isinstance(args[0], VMap) and not kwargs:
            # dict(mapping): a new dict with the same items (like mapping.copy())
            return snapshot(args[0])
        raise Unsupported('dict()')
    if o is set or o is frozenset:
        if not args:
            return VConc(frozenset())
        return VConc(frozenset(concretise(x) for x in concrete_iter(I, args[0])))
    if o is all or o is any:
        a = args[0]
        if isinstance(a, QuantGen):
            return VBool(a.build(o is all))
        items = concrete_iter(I, a)
        if items is None:
            raise Unsupported('all/any over symbolic sequence')
        ts = [truth(x) for x in items]
        if o is all:
            return VBool(z3.And(ts) if ts else z3.BoolVal(True))
        return VBool(z3.Or(ts) if ts else z3.BoolVal(False))
    if o is sum:
        items = concrete_iter(I, args[0])
        acc = z3.IntVal(0)
        for x in items:
            acc = acc + as_int(x)
        return VInt(acc)
    if o is getattr:
        nm = concretise(args[1])
        optional = nm in (getattr(I.contract, 'ghost', {}) or {}).get('optional_attrs', [])
        if len(args) == 3:
            try:
                r_ = get_attr(I, args[0], nm)
            except Raised as r:
                if r.exc.cls is AttributeError:
                    return args[2]
                raise
            if optional and isinstance(r_, VOpt):
                # an attribute that may be absent is modelled as an optional field
                return args[2] if I.decide(r_.none, 'attr-absent') else r_.val
            return r_
        r_ = get_attr(I, args[0], nm)
        if optional and isinstance(r_, VOpt):
            if I.decide(r_.none, 'attr-absent'):
                raise Raised(VExc(AttributeError, [VStr(nm)]))
            return r_.val
        return r_
    if o is super:
        # super() / super(Cls, obj): the dict layer of a Scope-like record
        target = args[1] if len(args) == 2 else I.env.get('self')
        return VSuper(target)
    if o is hasattr:
        nm = concretise(args[1])
        try:
            get_attr(I, args[0], nm)
            return VBool(True)
        except Raised:
            return VBool(False)
    if o is type and len(args) == 1:
        return type_of(I, args[0])
    if o is slice:
        a = list(args) + [NONE] * (3 - len(args))
        if len(args) == 1:
            return VSlice(NONE, a[0], NONE)
        return VSlice(a[0], a[1], a[2])
    if o is sorted:
        items = concrete_iter(I, args[0])
        if items is not None and all(is_concrete(x) for x in items):
            return VList([lit(x) for x in sorted(concretise(x) for x in items)])
        raise Unsupported('sorted of symbolic')
    if isinstance(o, type) and o.__name__ == 'Token':
        return make_token(I, args, kwargs)
    import typing as _typing
    if o is _typing.cast:
        return args[1]
    if isinstance(o, type) and isinstance(getattr(o, '_fields', None), tuple) and \
            o.__module__.startswith('chameleon'):
        # astutil.Node subclasses: plain records built from positional/keyword fields
        used('node constructors (free records, no side effects)')
        flds = dict(zip(o._fields, args))
        flds.update(kwargs)
        return VRec('node::' + o.__name__, flds)
    if isinstance(o, type) and o.__name__ == 'OrderedDict' and not args:
        return VDict()
    r = I.vc.call_real(I, o, args, kwargs, callnode)
    if r is not None:
        return r
    if (getattr(I.contract, 'ghost', None) or {}).get('open_world') and callable(o) and I.spec_mode == 0:
        # a trace contract lists every external call it expects; any other library function is an
        # event too (it may do anything: raise, return anything), so that a trace equation fails
        # instead of the proof being abandoned
        from .interp import Raised
        nm = '%s.%s' % (getattr(o, '__module__', '?'), getattr(o, '__qualname__', getattr(o, '__name__', '?')))
        tr = I.ghost.setdefault('ext_trace', [])
        out = I.path.choose(2, 'ext:%s' % nm)
        rec = {'name': nm, 'args': list(args), 'kwargs': dict(kwargs), 'raised': bool(out)}
        tr.append(rec)
        if out:
            from .k3 import new_sym_exc
            rec['exc'] = new_sym_exc(I, fresh_name('exc_' + nm.replace('.', '_')))
            raise Raised(rec['exc'])
        rec['result'] = fresh(Ty('any'), 'ext_' + nm.replace('.', '_'))
        return rec['result']
    raise Unsupported('call of builtin/real object %r' % (o,))


def make_token(I, args, kwargs):
    """Token(string, pos=0, source=None, filename=None) -- mirrors Token.__new__ (which is
    itself checked against this model by contract `Token.__new__`)."""
    used('Token.__new__ (model, checked by contract tokenize.py::Token.__new__)')
    names = ['string', 'pos', 'source', 'filename']
    vals = dict(zip(names, args))
    vals.update(kwargs)
    s = vals['string']
    pos = vals.get('pos', VInt(0))
    source = vals.get('source', NONE)
    filename = vals.get('filename', NONE)
    if isinstance(s, VAny):
        st = z3.If(Val.is_tok(s.t), TokenSort.s(Val.t(s.t)), Val.s(s.t))
    else:
        st = strterm(s)
    if isinstance(filename, VNone):
        fn = VStr('')
    elif isinstance(filename, VOpt):
        fn = VStr(z3.If(z3.Or(filename.none, z3.Length(filename.val.t) == 0), z3.StringVal(''),
                        filename.val.t))
    else:
        fn = VStr(filename.t)
    if isinstance(source, VToken):
        source = VStr(source.s)
    return VToken(st, as_int(pos), source, fn)


def length(I, v):
    from .interp import Raised
    if getattr(v, 'kind', '') == 'ktext':
        return v.length(I)
    if isinstance(v, (VStr, VToken, VBytes)):
        used('len(str)')
        return z3.Length(v.t)
    if isinstance(v, (VList, VTuple)):
        return z3.IntVal(len(v.items))
    if isinstance(v, VDict):
        return z3.IntVal(len(v.items))
    if isinstance(v, VSeq):
        used('len(list)')
        return z3.Length(v.t)
    if isinstance(v, VConc):
        return z3.IntVal(len(v.obj))
    if isinstance(v, VAny):
        used('len(any)')
        t = v.t
        f = z3.Function('len_obj', z3.IntSort(), z3.IntSort())
        return z3.If(Val.is_str(t), z3.Length(Val.s(t)),
               z3.If(Val.is_tok(t), z3.Length(TokenSort.s(Val.t(t))),
               z3.If(Val.is_bytes(t), z3.Length(Val.bs(t)), f(Val.oid(t)))))
    if isinstance(v, VOpt):
        if I.spec_mode == 0 and I.decide(v.none, 'len-none'):
            raise Raised(VExc(TypeError, [VStr('len of None')]))
        return length(I, v.val)
    if isinstance(v, VRec):
        return as_int(I.vc.method_contract(I, v, '__len__', [], {}))
    raise Unsupported('len(%r)' % (v,))


def to_int(I, args, kwargs):
    from .interp import Raised
    v = args[0]
    if isinstance(v, (VInt, VBool)):
        return VInt(as_int(v))
    if isinstance(v, (VStr, VToken)):
        used('int(str)')
        base = concretise(args[1]) if len(args) > 1 else 10
        s = v.t
        if base == 10:
            # int() accepts sign/underscore/space forms too; the model covers plain digit
            # strings and declares anything else unsupported
            ok = z3.InRe(s, z3.Plus(z3.Range('0', '9')))
            if I.spec_mode == 0 and not I.decide(ok, 'int-digits'):
                raise Unsupported('int() of a non-digit string')
            return VInt(z3.StrToInt(s))
        raise Unsupported('int(str, base=%s) of symbolic string' % base)
    raise Unsupported('int(%r)' % (v,))


def type_of(I, v):
    if isinstance(v, VStr):
        return VConc(str)
    if isinstance(v, VInt):
        return VConc(int)
    if isinstance(v, VBool):
        return VConc(bool)
    if isinstance(v, VBytes):
        return VConc(bytes)
    if isinstance(v, VNone):
        return VConc(type(None))
    if isinstance(v, VExc) and v.cls is not None:
        return VConc(v.cls)
    if isinstance(v, VAny):
        return VTypeOf(v)
    if isinstance(v, VRec):
        return VConc(I.vc.rec_class(v))
    raise Unsupported('type(%r)' % (v,))


def exact_type_term(I, v, cls):
    """type(v) is cls, for v: Any"""
    t = v.t
    if cls is str:
        return Val.is_str(t)
    if cls is bytes:
        return Val.is_bytes(t)
    if cls is int:
        return Val.is_int(t)
    if cls is bool:
        return Val.is_bool(t)
    if cls is type(None):
        return Val.is_none(t)
    from .values import conc_oid
    return z3.And(Val.is_obj(t), f_typeid(Val.oid(t)) == conc_oid(cls))


class VSuper(V):
    """super() proxy of a dict subclass instance: operations reach the plain dict layer"""
    kind = 'super'

    def __init__(self, obj):
        self.obj = obj


class VTypeOf(V):
    """type(x) for x: Any -- only compared by identity against concrete types"""
    kind = 'typeof'

    def __init__(self, v):
        self.v = v


_orig_ident = ident


def isinstance_term(I, v, cls):
    classes = [c.obj for c in cls.items] if isinstance(cls, VTuple) else [cls.obj]
    res = z3.BoolVal(False)
    for c in classes:
        res = z3.Or(res, _isinst(I, v, c))
    return z3.simplify(res)


def _isinst(I, v, c):
    nm = getattr(c, '__name__', '')
    if isinstance(v, VOpt):
        return z3.And(z3.Not(v.none), _isinst(I, v.val, c))
    if isinstance(v, VNone):
        return z3.BoolVal(c is type(None) or c is object)
    if isinstance(v, VToken):
        return z3.BoolVal(c is str or nm == 'Token' or c is object)
    if isinstance(v, VStr):
        return z3.BoolVal(c is str or c is object)
    if isinstance(v, VBytes):
        return z3.BoolVal(c is bytes or c is object)
    if isinstance(v, VBool):
        return z3.BoolVal(c in (bool, int, object))
    if isinstance(v, VInt):
        return z3.BoolVal(c in (int, object))
    if isinstance(v, VSlice):
        return z3.BoolVal(c is slice)
    if isinstance(v, (VList, VSeq)):
        return z3.BoolVal(c in (list, object))
    if isinstance(v, VTuple):
        return z3.BoolVal(c in (tuple, object))
    if isinstance(v, (VDict, VMap)):
        return z3.BoolVal(c in (dict, object))
    if isinstance(v, VExc):
        if v.cls is not None:
            return z3.BoolVal(issubclass(v.cls, c))
        return sym_exc_isinstance(v, [c])
    if isinstance(v, VAny):
        t = v.t
        if c is str:
            return z3.Or(Val.is_str(t), Val.is_tok(t), I.vc.obj_isinstance(t, c))
        if nm == 'Token':
            return Val.is_tok(t)
        if c is bytes:
            return z3.Or(Val.is_bytes(t), I.vc.obj_isinstance(t, c))
        if c is bool:
            return Val.is_bool(t)
        if c is int:
            return z3.Or(Val.is_int(t), Val.is_bool(t), I.vc.obj_isinstance(t, c))
        return z3.And(Val.is_obj(t), I.vc.obj_isinstance(t, c))
    if isinstance(v, VRec):
        return z3.BoolVal(I.vc.rec_isinstance(v, c))
    if isinstance(v, VConc):
        return z3.BoolVal(isinstance(v.obj, c))
    if isinstance(v, VMatch):
        return z3.BoolVal(c is _re.Match or c is object)
    raise Unsupported('isinstance(%r, %r)' % (v, c))


# ---------------------------------------------------------------------------
# methods
# ---------------------------------------------------------------------------
def method(I, recv, name, args, kwargs, callnode=None, unbound=None):
    from .interp import Raised
    if isinstance(recv, VSuper):
        used('dict methods through super() (the plain dict layer of a dict subclass)')
        own = recv.obj.fields['own']
        if name == '__iter__':
            raise Unsupported('iteration of the dict layer')
        return dict_method(I, own, name, args, kwargs)
    if getattr(recv, 'kind', '') == 'ktext':
        if name == 'append':
            recv.append_value(args[0])
            return NONE
        if name == '__len__' and not args:
            return VInt(recv.length(I))
        raise Unsupported('stream.%s' % name)
    if isinstance(recv, VOpt):
        if I.spec_mode == 0 and I.decide(recv.none, 'none-method'):
            raise Raised(VExc(AttributeError, [VStr(name)]))
        recv = recv.val
    if isinstance(recv, VToken) and unbound is None:
        if I.vc.has_method_contract(recv, name):
            return I.vc.method_contract(I, recv, name, args, kwargs, callnode=callnode)
        if name in ('__getitem__', '__add__', 'replace', 'split', 'strip', 'lstrip', 'rstrip'):
            raise Unsupported('Token.%s has no contract' % name)
        recv = VStr(recv.s)
    if isinstance(recv, VToken):
        recv = VStr(recv.s)
    if isinstance(recv, VStr):
        return str_method(I, recv.t, name, args, kwargs)
    if isinstance(recv, VBytes):
        return bytes_method(I, recv, name, args, kwargs)
    if isinstance(recv, (VList, VSeq)):
        return list_method(I, recv, name, args, kwargs)
    if isinstance(recv, VTuple):
        if name == 'index' or name == 'count':
            raise Unsupported('tuple.%s' % name)
    if isinstance(recv, (VDict, VMap)):
        return dict_method(I, recv, name, args, kwargs)
    if isinstance(recv, VMatch):
        return match_method(I, recv, name, args, kwargs)
    if isinstance(recv, VConc):
        o = recv.obj
        import logging as _logging
        if isinstance(o, _logging.Logger):
            used('logging.Logger.%s (no effect on program state)' % name)
            return NONE
        if isinstance(o, _re.Pattern):
            return pattern_method(I, o, name, args, kwargs)
        if isinstance(o, (frozenset, set, dict, tuple, list, str)):
            if name == 'get' and isinstance(o, dict):
                k = args[0]
                if is_concrete(k):
                    d = args[1] if len(args) > 1 else NONE
                    kk = concretise(k)
                    return lit(o[kk]) if kk in o else d
                return I.vc.conc_dict_get(I, recv, args)
            if name in ('copy',):
                return VConc(o.copy()) if not isinstance(o, dict) else VDict({k: lit(v) for k, v in o.items()})
            if name == 'items' and isinstance(o, dict):
                return VList([VTuple([lit(k), lit(v)]) for k, v in o.items()])
        raise Unsupported('method %s on %r' % (name, o))
    if isinstance(recv, VRec):
        return I.vc.method_contract(I, recv, name, args, kwargs, callnode=callnode)
    if isinstance(recv, VAny):
        return I.vc.any_method(I, recv, name, args, kwargs)
    if getattr(recv, 'kind', '') == 'tokens' and name == 'get' and 1 <= len(args) <= 2:
        # dict.get on the token table of the emitted module: the entry, or the default for a key
        # that is None / not a recorded position
        from .interp import Raised
        dflt = args[1] if len(args) > 1 else NONE
        try:
            return get_item(I, recv, args[0])
        except Raised as r:
            if getattr(r.args[0], 'cls', None) is KeyError:
                return dflt
            raise
    raise Unsupported('method %s on %r' % (name, recv))


def str_arg(I, v):
    """a string-typed argument that may be dynamically typed"""
    from .interp import Raised
    if isinstance(v, VAny):
        t = v.t
        if I.spec_mode == 0 and not I.decide(z3.Or(Val.is_str(t), Val.is_tok(t)), 'arg-is-str'):
            raise Raised(VExc(TypeError, [VStr('must be str')]))
        return z3.If(Val.is_tok(t), TokenSort.s(Val.t(t)), Val.s(t))
    return strterm(v)


def _strs(I, v):
    """a str-or-tuple-of-str argument -> list of z3 strings"""
    if isinstance(v, VTuple):
        return [strterm(x) for x in v.items]
    if isinstance(v, VConc) and isinstance(v.obj, tuple):
        return [z3.StringVal(x) for x in v.obj]
    return [strterm(v)]


def str_method(I, s, name, args, kwargs):
    from .interp import Raised
    n = z3.Length(s)
    used('str.' + name)
    if name in ('startswith', 'endswith'):
        ps = _strs(I, args[0])
        if len(args) > 1:
            lo = norm_bound(args[1], n, z3.IntVal(0))
            s2 = z3.SubString(s, lo, n - lo)
            if name == 'endswith':
                raise Unsupported('endswith with start')
        else:
            s2 = s
        f = z3.PrefixOf if name == 'startswith' else z3.SuffixOf
        return VBool(z3.Or([f(p, s2) for p in ps]))
    if name in ('find', 'index'):
        sub = str_arg(I, args[0])
        start = norm_bound(args[1], n, z3.IntVal(0)) if len(args) > 1 else z3.IntVal(0)
        if len(args) > 2:
            raise Unsupported('find with end')
        r = z3.IndexOf(s, sub, start)
        if len(args) > 1:
            # a start beyond the end finds nothing, not even the empty string
            raw = as_int(_unopt(I, args[1])) if not isinstance(args[1], VNone) else z3.IntVal(0)
            r = z3.If(raw > n, z3.IntVal(-1), r)
        if name == 'index':
            if I.spec_mode == 0 and not I.decide(r >= 0, 'index-found'):
                raise Raised(VExc(ValueError, [VStr('substring not found')]))
        return VInt(r)
    if name == 'rfind':
        sub = strterm(args[0])
        if len(args) > 1:
            st = z3.simplify(as_int(args[1]))
            if not (z3.is_int_value(st) and st.as_long() == 0):
                raise Unsupported('rfind with start')
        r = z3.Function('str_rfind', z3.StringSort(), z3.StringSort(), z3.IntSort())(s, sub)
        sl = z3.Length(sub)
        I.assume(z3.Or(r == -1, z3.And(r >= 0, r + sl <= n)))
        I.assume((r == -1) == z3.Not(z3.Contains(s, sub)))
        I.assume(z3.Implies(sl == 0, r == n))
        I.assume(z3.Implies(z3.And(r >= 0, sl > 0), z3.And(
            z3.SubString(s, r, sl) == sub,
            z3.Not(z3.Contains(z3.SubString(s, r + 1, n - r - 1), sub)))))
        return VInt(r)
    if name == 'count':
        sub = strterm(args[0])
        f = z3.Function('str_count', z3.StringSort(), z3.StringSort(), z3.IntSort())
        r = f(s, sub)
        I.assume(r >= 0)
        I.assume((r == 0) == z3.Not(z3.Contains(s, sub)))
        I.assume(z3.Implies(z3.Length(sub) > 0, r * z3.Length(sub) <= n))
        return VInt(r)
    if name in ('strip', 'lstrip', 'rstrip'):
        chars = args[0] if args else NONE
        if isinstance(chars, VOpt):
            if I.spec_mode:
                raise Unsupported('strip with a maybe-None chars in a spec')
            chars = NONE if I.decide(chars.none, 'strip-chars-none') else chars.val
        cs_ = z3.simplify(s)
        if z3.is_string_value(cs_) and (isinstance(chars, VNone) or is_concrete(chars)):
            txt = decode_z3_string(cs_.as_string())
            ch = None if isinstance(chars, VNone) else concretise(chars)
            return VStr(getattr(txt, name)(ch))
        key = 'ws'
        if isinstance(chars, VNone):
            cre = ws_re()
        else:
            cs = concretise(chars)
            if cs is None:
                cre = ws_re()
            else:
                cre = charset_re(list(cs))
                key = 'c' + '_'.join('%x' % ord(c) for c in cs)
        return VStr(strip_model(I, s, cre, name, key))
    if name in ('split', 'rsplit'):
        c = z3.simplify(s)
        if z3.is_string_value(c) and not kwargs and all(
                isinstance(a, VStr) and z3.is_string_value(z3.simplify(a.t)) for a in args[:1]) and \
                all(isinstance(a, VInt) and z3.is_int_value(z3.simplify(a.t)) for a in args[1:2]):
            # constant receiver and arguments: the real method (a list of constants)
            cargs = [z3.simplify(a.t).as_string() for a in args[:1]] + \
                    [z3.simplify(a.t).as_long() for a in args[1:2]]
            used('str.split(constant)')
            return VList([VStr(x) for x in getattr(c.as_string(), name)(*cargs)])
        return split_model(I, s, name, args, kwargs)
    if name == 'replace':
        return VStr(replace_model(I, s, strterm(args[0]), strterm(args[1]),
                                  args[2] if len(args) > 2 else None))
    if name in ('lower', 'upper'):
        return VStr(case_model(I, s, name))
    if name == 'join' and getattr(args[0], 'kind', '') == 'ktext':
        c = z3.simplify(s)
        if z3.is_string_value(c) and c.as_string() == '':
            return VStr(args[0].text)
        raise Unsupported('join of the stream with a non-empty separator')
    if name == 'join':
        items = concrete_iter(I, args[0])
        if items is None:
            if isinstance(args[0], VSeq):
                return VStr(join_model(I, s, args[0]))
            raise Unsupported('join of symbolic iterable')
        parts = []
        for i, x in enumerate(items):
            if i:
                parts.append(s)
            if isinstance(x, VAny):
                from .k3 import KText
                parts.append(KText.piece_text(x))
            else:
                parts.append(strterm(x))
        if not parts:
            return VStr('')
        return VStr(z3.Concat(*parts) if len(parts) > 1 else parts[0])
    if name == 'encode':
        return VBytes(encode_model(I, s, args, kwargs))
    if name == 'isspace':
        return VBool(z3.InRe(s, z3.Plus(ws_re())))
    if name == 'isdigit':
        used('str.isdigit (ASCII digits only)')
        return VBool(z3.InRe(s, z3.Plus(z3.Range('0', '9'))))
    if name == 'format':
        raise Unsupported('str.format')
    if name == 'splitlines':
        raise Unsupported('str.splitlines')
    if name == '__getitem__':
        return get_item(I, VStr(s), args[0])
    if name == '__add__':
        return VStr(z3.Concat(s, strterm(args[0])))
    if name == '__eq__':
        return VBool(s == strterm(args[0]))
    if name == '__hash__':
        f = z3.Function('str_hash', z3.StringSort(), z3.IntSort())
        return VInt(f(s))
    if name == '__len__':
        return VInt(n)
    if name == '__contains__':
        return VBool(z3.Contains(s, strterm(args[0])))
    raise Unsupported('str.%s' % name)


def strip_model(I, s, cre, which, key='ws'):
    """result r = F(s) with s == pre ++ r ++ post, pre/post in cre*, r not starting/ending in
    cre.  F is an uninterpreted function per (method, charset) so that two uses on the same
    string denote the same term; the axioms are instantiated at each use."""
    if which == 'strip':
        # s.strip(cs) == s.lstrip(cs).rstrip(cs) (conformance-tested): one pair of functions, so
        # a one-pass and a two-pass implementation denote the same terms
        return strip_model(I, strip_model(I, s, cre, 'lstrip', key), cre, 'rstrip', key)
    F = z3.Function('str_%s_%s' % (which, key), z3.StringSort(), z3.StringSort())
    r = F(s)
    done = I.ghost.setdefault('strip_axioms', set())
    ck = (which, key, s.get_id())
    if ck in done:
        return r           # the facts about this application are already on the path
    done.add(ck)
    pre = z3.String(fresh_name('strip_pre'))
    post = z3.String(fresh_name('strip_post'))
    star = z3.Star(cre)
    I.assume(s == z3.Concat(pre, r, post))
    if which in ('strip', 'lstrip'):
        I.assume(z3.InRe(pre, star))
        I.assume(z3.Or(z3.Length(r) == 0, z3.Not(z3.InRe(z3.SubString(r, 0, 1), cre))))
    else:
        I.assume(z3.Length(pre) == 0)
    if which in ('strip', 'rstrip'):
        I.assume(z3.InRe(post, star))
        I.assume(z3.Or(z3.Length(r) == 0,
                       z3.Not(z3.InRe(z3.SubString(r, z3.Length(r) - 1, 1), cre))))
    else:
        I.assume(z3.Length(post) == 0)
    if which == 'strip':
        # an all-strip-chars string strips to '' with everything in `pre`
        I.assume(z3.Implies(z3.Length(r) == 0, z3.Length(post) == 0))
    return r


def replace_model(I, s, old, new, count):
    """str.replace(old, new) (all occurrences).  Exact when the subject is built from string
    constants, if-then-else and terms registered as single characters (I.ghost['chars']) and
    `old` is a single character; otherwise an uninterpreted function with sound partial axioms."""
    if count is not None:
        c = z3.simplify(as_int(count))
        if not (z3.is_int_value(c) and c.as_long() < 0):
            raise Unsupported('str.replace with a count')
    exact = _replace_exact(I, z3.simplify(s), z3.simplify(old), z3.simplify(new))
    if exact is not None:
        used('str.replace (exact on single-character instances)')
        return exact
    f = z3.Function('str_replace_all', z3.StringSort(), z3.StringSort(), z3.StringSort(),
                    z3.StringSort())
    r = f(s, old, new)
    I.assume(z3.Implies(z3.Not(z3.Contains(s, old)), r == s))
    I.assume(z3.Implies(old == new, r == s))
    I.assume(z3.Implies(z3.And(z3.Length(old) > 0, z3.Length(old) == z3.Length(new)),
                        z3.Length(r) == z3.Length(s)))
    I.assume(z3.Implies(z3.And(old == s, z3.Length(old) > 0), r == new))
    return r


def _is_char(I, t):
    if z3.is_string_value(t):
        return len(decode_z3_string(t.as_string())) == 1
    return any(t.eq(c) for c in I.ghost.get('chars', []))


def _replace_exact(I, s, old, new):
    if not _is_char(I, old):
        return None

    def rec(t):
        if z3.is_string_value(t):
            txt = decode_z3_string(t.as_string())
            if z3.is_string_value(old) and z3.is_string_value(new):
                return z3.StringVal(txt.replace(decode_z3_string(old.as_string()),
                                                decode_z3_string(new.as_string())))
            # symbolic single-character pattern against a constant subject
            parts = [z3.If(z3.StringVal(ch) == old, new, z3.StringVal(ch)) for ch in txt]
            if not parts:
                return t
            return z3.Concat(*parts) if len(parts) > 1 else parts[0]
        if z3.is_app(t) and t.decl().kind() == z3.Z3_OP_ITE:
            a, b = rec(t.arg(1)), rec(t.arg(2))
            if a is None or b is None:
                return None
            return z3.If(t.arg(0), a, b)
        if _is_char(I, t):
            return z3.If(t == old, new, t)
        return None
    return rec(s)


def case_model(I, s, which):
    f = z3.Function('str_' + which, z3.StringSort(), z3.StringSort())
    r = f(s)
    I.assume(f(r) == r)
    c = z3.simplify(s)
    if z3.is_string_value(c):
        v = decode_z3_string(c.as_string())
        return z3.StringVal(getattr(v, which)())
    return r


def join_model(I, sep, sq):
    f = z3.Function('str_join', z3.StringSort(), z3.SeqSort(sort_of(sq.ty)), z3.StringSort())
    return f(sep, sq.t)


def encode_model(I, s, args, kwargs):
    """str.encode(codec): exact on constants, otherwise an uninterpreted function of (text, codec
    name) -- the codec name may be symbolic"""
    et = strterm(args[0]) if args else z3.StringVal('utf-8')
    ec = z3.simplify(et)
    c = z3.simplify(s)
    if z3.is_string_value(c) and z3.is_string_value(ec):
        return z3.StringVal(decode_z3_string(c.as_string()).encode(ec.as_string()).decode('latin-1'))
    used('str.encode (uninterpreted function of text and codec name)')
    f = z3.Function('str_encode', z3.StringSort(), z3.StringSort(), z3.StringSort())
    return f(s, et)


def split_model(I, s, name, args, kwargs):
    """str.split / rsplit.  Result: VSeq[str] `parts` with ghost offset function `off`:
       parts[i] == s[off(i) : off(i)+len(parts[i])], consecutive parts separated by exactly
       `sep` (explicit separator) or by a non-empty whitespace run (sep None).
       The per-index facts are available as `facts(i)` (prim split_facts) and, unless the
       contract sets models['str.split.quantified'] = False, also asserted for all i."""
    sep = args[0] if args else kwargs.get('sep', NONE)
    if isinstance(sep, VOpt) and I.spec_mode == 0:
        sep = NONE if I.decide(sep.none, 'split-sep-none') else sep.val
    maxsplit = args[1] if len(args) > 1 else kwargs.get('maxsplit', VInt(-1))
    ms = z3.simplify(as_int(maxsplit))
    elem = Ty(I.vc.model_option('str.split.elem', 'str'))
    quantified = I.vc.model_option('str.split.quantified', True)
    tag = fresh_name('split')
    parts = z3.Const(tag, z3.SeqSort(z3.StringSort()))
    off = z3.Function(tag + '_off', z3.IntSort(), z3.IntSort())
    n = z3.Length(parts)
    ln = z3.Length(s)
    unlimited = z3.is_int_value(ms) and ms.as_long() < 0
    anyparts = z3.Const(tag + '_any', z3.SeqSort(Val)) if elem.name == 'any' else None
    if anyparts is not None:
        I.assume(z3.Length(anyparts) == n)
    ws_mode = isinstance(sep, VNone) or (isinstance(sep, VOpt) and z3.is_true(z3.simplify(sep.none)))
    if ws_mode:
        if name == 'rsplit' and not unlimited:
            raise Unsupported('rsplit(None, n)')
        st = sl = None
    else:
        if isinstance(sep, VOpt):
            raise Unsupported('split with a maybe-None separator')
        st = strterm(sep)
        sl = z3.Length(st)

    def facts(i):
        pi = parts[i]
        fs = [off(i) >= 0, off(i) + z3.Length(pi) <= ln,
              z3.SubString(s, off(i), z3.Length(pi)) == pi]
        if ws_mode:
            fs += [z3.Length(pi) > 0,
                   z3.Implies(i + 1 < n, off(i + 1) > off(i) + z3.Length(pi)),
                   z3.Not(z3.InRe(z3.SubString(pi, 0, 1), ws_re())),
                   # WSFIND (trusted, conformance-tested): searching for a part from the end
                   # of the previous part finds exactly that part
                   z3.IndexOf(s, pi, z3.If(i == 0, z3.IntVal(0),
                                           off(i - 1) + z3.Length(parts[i - 1]))) == off(i)]
        else:
            fs += [off(i + 1) == off(i) + z3.Length(pi) + sl,
                   z3.Implies(i + 1 < n, z3.SubString(s, off(i) + z3.Length(pi), sl) == st)]
        if anyparts is not None:
            fs.append(anyparts[i] == Val.str(pi))
        return z3.Implies(z3.And(i >= 0, i < n), z3.And(*fs))

    i = z3.Int(tag + '_i')
    if quantified:
        I.assume(z3.ForAll([i], facts(i)))
    if ws_mode:
        I.assume(n >= 0)
        I.assume(z3.Implies(n == 0, z3.InRe(s, z3.Star(ws_re()))))
        I.assume(z3.Implies(n > 0, z3.InRe(z3.SubString(s, 0, off(0)), z3.Star(ws_re()))))
    else:
        I.assume(n >= 1)
        I.assume(off(0) == 0)
        I.assume(off(n - 1) + z3.Length(parts[n - 1]) == ln)
        if unlimited:
            I.assume(z3.Implies(z3.Not(z3.Contains(s, st)), n == 1))
            I.assume(z3.Implies(z3.Contains(s, st), n >= 2))
            if quantified and z3.is_string_value(z3.simplify(st)) and \
                    len(decode_z3_string(z3.simplify(st).as_string())) == 1:
                I.assume(z3.ForAll([i], z3.Implies(z3.And(i >= 0, i < n),
                                                   z3.Not(z3.Contains(parts[i], st)))))
        else:
            I.assume(n <= ms + 1)
            if ms.as_long() >= 1:
                I.assume(z3.Implies(z3.Contains(s, st), n >= 2))
            if quantified:
                if name == 'split':
                    I.assume(z3.ForAll([i], z3.Implies(z3.And(i >= 0, i + 1 < n),
                                                       z3.Not(z3.Contains(parts[i], st)))))
                else:
                    I.assume(z3.ForAll([i], z3.Implies(z3.And(i >= 1, i < n),
                                                       z3.Not(z3.Contains(parts[i], st)))))
    r = VSeq(Ty('any'), anyparts) if anyparts is not None else VSeq(Ty('str'), parts)
    r.split_off = off
    r.split_src = s
    r.split_parts = parts
    r.split_facts = facts
    return r


def bytes_method(I, recv, name, args, kwargs):
    used('bytes.' + name)
    s = recv.t
    if name == 'startswith':
        ps = [x.t for x in (args[0].items if isinstance(args[0], VTuple) else [args[0]])]
        return VBool(z3.Or([z3.PrefixOf(p, s) for p in ps]))
    if name == 'decode':
        return I.vc.decode_model(I, recv, args, kwargs)
    if name in ('find', 'rfind', 'endswith', 'index'):
        # bytes are strings of code points 0..255: searching is the string operation
        return str_method(I, s, name, [VStr(a.t) if isinstance(a, VBytes) else a for a in args], kwargs)
    if name == 'isascii':
        return VBool(z3.InRe(s, z3.Star(z3.Range(chr(0), chr(127)))))
    if name in ('lstrip', 'rstrip') and len(args) == 1 and is_concrete(args[0]) \
            and isinstance(concretise(args[0]), bytes) and concretise(args[0]):
        # bytes.lstrip(SET): the longest prefix made of bytes of the SET is removed (a set of bytes,
        # not a prefix string)
        cs = z3.Union(*[z3.Re(z3.StringVal(chr(b))) for b in sorted(set(concretise(args[0])))]) \
            if len(set(concretise(args[0]))) > 1 else z3.Re(z3.StringVal(chr(concretise(args[0])[0])))
        n = z3.Length(s)
        k = z3.Int(fresh_name('strip_k'))
        I.assume(z3.And(k >= 0, k <= n))
        if name == 'lstrip':
            I.assume(z3.InRe(z3.SubString(s, 0, k), z3.Star(cs)))
            I.assume(z3.Or(k == n, z3.Not(z3.InRe(z3.SubString(s, k, 1), cs))))
            return VBytes(z3.SubString(s, k, n - k))
        I.assume(z3.InRe(z3.SubString(s, n - k, k), z3.Star(cs)))
        I.assume(z3.Or(k == n, z3.Not(z3.InRe(z3.SubString(s, n - k - 1, 1), cs))))
        return VBytes(z3.SubString(s, 0, n - k))
    raise Unsupported('bytes.%s' % name)


def list_method(I, recv, name, args, kwargs):
    from .interp import Raised
    if isinstance(recv, VList):
        if name == 'append':
            recv.items.append(args[0])
            return NONE
        if name == 'extend':
            items = concrete_iter(I, args[0])
            if items is None:
                raise Unsupported('extend with symbolic')
            recv.items.extend(items)
            return NONE
        if name == 'insert':
            recv.items.insert(concretise(args[0]), args[1])
            return NONE
        if name == 'pop':
            if not recv.items:
                raise Raised(VExc(IndexError, [VStr('pop from empty list')]))
            return recv.items.pop(concretise(args[0]) if args else -1)
        if name == 'copy':
            return VList(recv.items)
        if name == '__setitem__':
            set_item(I, recv, args[0], args[1])
            return NONE
        if name == 'index':
            for k, x in enumerate(recv.items):
                if I.decide(eq(x, args[0]), 'list.index'):
                    return VInt(k)
            raise Raised(VExc(ValueError, [VStr('not in list')]))
        raise Unsupported('list.%s' % name)
    used('list.' + name)
    n = z3.Length(recv.t)
    if name == 'append':
        recv.t = z3.Concat(recv.t, z3.Unit(unwrap(recv.ty, args[0])))
        return NONE
    if name == 'insert':
        k = as_int(args[0])
        k = z3.If(k < 0, z3.If(k + n < 0, z3.IntVal(0), k + n), z3.If(k > n, n, k))
        recv.t = z3.Concat(z3.SubSeq(recv.t, 0, k), z3.Unit(unwrap(recv.ty, args[1])),
                           z3.SubSeq(recv.t, k, n - k))
        return NONE
    if name == '__setitem__':
        set_item(I, recv, args[0], args[1])
        return NONE
    if name == 'pop':
        if not I.decide(n > 0, 'pop-nonempty'):
            raise Raised(VExc(IndexError, [VStr('pop from empty list')]))
        if args:
            j = index_term(I, args[0], n, 'pop')
        else:
            j = n - 1
        x = seq_at(recv, j)
        recv.t = z3.Concat(z3.SubSeq(recv.t, 0, j), z3.SubSeq(recv.t, j + 1, n - j - 1))
        return x
    if name == 'copy':
        return snapshot(recv)
    if name == 'extend' and isinstance(args[0], (VSeq, VList, VTuple)):
        recv.t = z3.Concat(recv.t, seq_of(I, args[0], recv.ty).t)
        return NONE
    raise Unsupported('list.%s (symbolic)' % name)


def dict_method(I, recv, name, args, kwargs):
    from .interp import Raised
    if isinstance(recv, VDict):
        if name == 'get':
            k = dict_key(args[0])
            return recv.items.get(k, args[1] if len(args) > 1 else NONE)
        if name == 'items':
            return VIter('items', [recv])
        if name == 'keys':
            return VList([lit(k) for k in recv.items])
        if name == 'values':
            return VList(list(recv.items.values()))
        if name == 'copy':
            return VDict(recv.items)
        if name == 'pop':
            k = dict_key(args[0])
            if k in recv.items:
                return recv.items.pop(k)
            if len(args) > 1:
                return args[1]
            raise Raised(VExc(KeyError, [args[0]]))
        if name == 'setdefault':
            k = dict_key(args[0])
            return recv.items.setdefault(k, args[1] if len(args) > 1 else NONE)
        if name == 'update':
            if args and isinstance(args[0], VDict):
                recv.items.update(args[0].items)
            recv.items.update(kwargs)
            return NONE
        if name == '__setitem__':
            recv.items[dict_key(args[0])] = args[1]
            return NONE
        if name == '__getitem__':
            return get_item(I, recv, args[0])
        raise Unsupported('dict.%s' % name)
    used('dict.' + name)
    if name == 'get':
        kt = unwrap(recv.kty, args[0])
        d = args[1] if len(args) > 1 else NONE
        present = z3.Select(recv.has, kt)
        v = wrap(recv.vty, z3.Select(recv.val, kt))
        if I.spec_mode:
            return ite(present, v, d)
        return v if I.decide(present, 'dict.get') else d
    if name == '__getitem__':
        return get_item(I, recv, args[0])
    if name == '__setitem__':
        set_item(I, recv, args[0], args[1])
        return NONE
    if name == '__contains__':
        return VBool(z3.Select(recv.has, unwrap(recv.kty, args[0])))
    if name == 'copy':
        return snapshot(recv)
    if name == 'pop':
        kt = unwrap(recv.kty, args[0])
        present = z3.Select(recv.has, kt)
        v = wrap(recv.vty, z3.Select(recv.val, kt))
        if I.decide(present, 'dict.pop'):
            recv.has = z3.Store(recv.has, kt, z3.BoolVal(False))
            return v
        if len(args) > 1:
            return args[1]
        raise Raised(VExc(KeyError, [args[0]]))
    raise Unsupported('dict.%s (symbolic)' % name)


# ---------------------------------------------------------------------------
# re
# ---------------------------------------------------------------------------
def pattern_key(pattern):
    import hashlib
    return hashlib.sha1((pattern.pattern if isinstance(pattern.pattern, str)
                         else pattern.pattern.decode('latin-1')).encode('utf-8')).hexdigest()[:10]


def match_functions(pattern, how):
    """the result of pattern.<how>(s) as uninterpreted FUNCTIONS of the subject string: searching
    the same string twice gives the same answer, and contracts can refer to the result"""
    k = 're_%s_%s' % (how, pattern_key(pattern))
    S, Int, B = z3.StringSort(), z3.IntSort(), z3.BoolSort()
    return (z3.Function(k + '_nomatch', S, B), z3.Function(k + '_start', S, Int, Int),
            z3.Function(k + '_end', S, Int, Int), z3.Function(k + '_none', S, Int, B))


def new_match(I, string, pattern, tag):
    nomatch, fst, fen, fnone = match_functions(pattern, tag)
    ng = pattern.groups
    st = lambda g: fst(string, g if not isinstance(g, int) else z3.IntVal(g))     # noqa: E731
    en = lambda g: fen(string, g if not isinstance(g, int) else z3.IntVal(g))     # noqa: E731
    isn = lambda g: fnone(string, g if not isinstance(g, int) else z3.IntVal(g))  # noqa: E731
    m = VMatch(string, ng, st, en, isn, dict(pattern.groupindex), tag)
    m.nomatch = nomatch(string)
    m.is_bytes = isinstance(pattern.pattern, bytes)
    n = z3.Length(string)
    done = I.ghost.setdefault('match_axioms', set())
    ck = (tag, pattern_key(pattern), string.get_id())
    if ck not in done:
        done.add(ck)
        I.assume(z3.Not(isn(0)))
        for k in mandatory_groups(pattern):
            # a group on the spine of the pattern takes part in every match (REGEX-STRUCT fact)
            I.assume(z3.Not(isn(k)))
        for k in ascii_groups(pattern):
            # every character the group can consume is ASCII (REGEX-STRUCT fact)
            I.assume(z3.Or(isn(k), z3.InRe(z3.SubString(string, st(k), en(k) - st(k)), ASCII_STAR)))
        for k in range(ng + 1):
            I.assume(z3.If(isn(k), z3.And(st(k) == -1, en(k) == -1),
                           z3.And(0 <= st(k), st(k) <= en(k), en(k) <= n,
                                  st(0) <= st(k), en(k) <= en(0))))
    return m


_mandatory = {}
_asciig = {}
ASCII_STAR = z3.Star(z3.Range(z3.StringVal('\x00'), z3.StringVal('\x7f')))


def ascii_groups(pattern):
    """capturing groups that can only consume ASCII characters: literals / classes below 128, and
    \\w \\d \\s classes when the pattern is a bytes pattern or compiled with re.ASCII"""
    key = (pattern.pattern, pattern.flags)
    if key in _asciig:
        return _asciig[key]
    import re._constants as C
    import re._parser as P
    ascii_cat = isinstance(pattern.pattern, bytes) or bool(pattern.flags & _re.ASCII)
    POS_CATS = (C.CATEGORY_DIGIT, C.CATEGORY_WORD, C.CATEGORY_SPACE)

    def only_ascii(sp):
        for op, av in sp.data if hasattr(sp, 'data') else sp:
            if op is C.LITERAL:
                if av >= 128:
                    return False
            elif op is C.IN:
                for o, a in av:
                    if o is C.NEGATE:
                        return False
                    if o is C.LITERAL and a >= 128:
                        return False
                    if o is C.RANGE and a[1] >= 128:
                        return False
                    if o is C.CATEGORY and not (ascii_cat and a in POS_CATS):
                        return False
            elif op in (C.MAX_REPEAT, C.MIN_REPEAT, C.POSSESSIVE_REPEAT):
                if not only_ascii(av[2]):
                    return False
            elif op is C.SUBPATTERN:
                if not only_ascii(av[3]):
                    return False
            elif op is C.BRANCH:
                if not all(only_ascii(x) for x in av[1]):
                    return False
            elif op in (C.AT, C.ASSERT, C.ASSERT_NOT):
                continue
            else:
                return False
        return True
    out = []

    def walk(sp):
        for op, av in sp.data if hasattr(sp, 'data') else sp:
            if op is C.SUBPATTERN:
                if av[0] is not None and only_ascii(av[3]):
                    out.append(av[0])
                walk(av[3])
            elif op in (C.MAX_REPEAT, C.MIN_REPEAT, C.POSSESSIVE_REPEAT):
                walk(av[2])
            elif op is C.BRANCH:
                for x in av[1]:
                    walk(x)
    try:
        walk(P.parse(pattern.pattern, pattern.flags))
    except Exception:
        out = []
    _asciig[key] = sorted(set(out))
    return _asciig[key]


def mandatory_groups(pattern):
    """capturing groups that take part in EVERY match: reached from the top of the parse tree
    only through sequences, capturing/non-capturing groups and repeats with a minimum >= 1"""
    key = (pattern.pattern, pattern.flags)
    if key in _mandatory:
        return _mandatory[key]
    import re._constants as C
    import re._parser as P
    out = set()

    def walk(sp):
        for op, av in sp.data:
            if op is C.SUBPATTERN:
                if av[0] is not None:
                    out.add(av[0])
                walk(av[3])
            elif op in (C.MAX_REPEAT, C.MIN_REPEAT, C.POSSESSIVE_REPEAT) and av[0] >= 1:
                walk(av[2])
            elif op is C.ATOMIC_GROUP:
                walk(av)
    try:
        walk(P.parse(pattern.pattern, pattern.flags))
    except Exception:
        out = set()
    _mandatory[key] = sorted(out)
    return _mandatory[key]


def _match_text(m, t):
    return VBytes(t) if getattr(m, 'is_bytes', False) else VStr(t)


def match_group_index(m, a):
    if isinstance(a, (VStr,)):
        nm = concretise(a)
        return z3.IntVal(m.names[nm])
    return as_int(a)


def match_group_value(m, g):
    return VOpt(m.isnone(g), _match_text(m, z3.SubString(m.string, m.start(g), m.end(g) - m.start(g))))


def match_method(I, m, name, args, kwargs):
    used('re.Match.' + name)
    if name == 'group':
        if not args:
            return _match_text(m, z3.SubString(m.string, m.start(0), m.end(0) - m.start(0)))
        g = match_group_index(m, args[0])
        if z3.is_int_value(z3.simplify(g)) and z3.simplify(g).as_long() == 0:
            return _match_text(m, z3.SubString(m.string, m.start(0), m.end(0) - m.start(0)))
        return match_group_value(m, g)
    if name == 'groupdict' and not args:
        d = VDict()
        for nm, gi in sorted(m.names.items(), key=lambda kv: kv[1]):
            d.items[nm] = match_group_value(m, z3.IntVal(gi))
        return d
    if name in ('start', 'end'):
        g = match_group_index(m, args[0]) if args else z3.IntVal(0)
        return VInt((m.start if name == 'start' else m.end)(g))
    if name == 'span':
        g = match_group_index(m, args[0]) if args else z3.IntVal(0)
        return VTuple([VInt(m.start(g)), VInt(m.end(g))])
    if name == 'groups':
        if isinstance(m.ngroups, int):
            return VTuple([match_group_value(m, z3.IntVal(k + 1)) for k in range(m.ngroups)])
        tag = fresh_name('groups')
        gs = z3.Const(tag, z3.SeqSort(Val))
        j = z3.Int(tag + '_j')
        I.assume(z3.Length(gs) == m.ngroups)
        I.assume(m.ngroups >= 0)
        I.assume(z3.ForAll([j], z3.Implies(z3.And(j >= 0, j < m.ngroups),
                 gs[j] == z3.If(m.isnone(j + 1), Val.none,
                                Val.str(z3.SubString(m.string, m.start(j + 1),
                                                     m.end(j + 1) - m.start(j + 1)))))))
        return VSeq(Ty('any'), gs)
    if name == 'groupdict':
        return VDict({nm: match_group_value(m, z3.IntVal(ix)) for nm, ix in m.names.items()})
    raise Unsupported('Match.%s' % name)


_ctxfree = {}


def context_free(pattern):
    """REGEX-STRUCT fact: the pattern looks at nothing outside its own match - no anchors, no word
    boundaries, no look-behind, no look-ahead (decided on the sre parse tree).  For such a pattern
    `p.match(s, pos)` succeeds exactly when `p.match(s[pos:])` does, with every span shifted by pos."""
    key = (pattern.pattern, pattern.flags)
    if key in _ctxfree:
        return _ctxfree[key]
    import re._constants as C
    import re._parser as P

    def ok(items):
        for op, av in items:
            if op in (C.AT, C.ASSERT, C.ASSERT_NOT):
                return False
            if op is C.SUBPATTERN:
                if not ok(av[3]):
                    return False
            elif op is C.BRANCH:
                if not all(ok(b) for b in av[1]):
                    return False
            elif op in (C.MAX_REPEAT, C.MIN_REPEAT, getattr(C, 'POSSESSIVE_REPEAT', None)):
                if not ok(av[2]):
                    return False
            elif op is getattr(C, 'ATOMIC_GROUP', None):
                if not ok(av):
                    return False
            elif op is C.GROUPREF_EXISTS:
                return False
        return True
    try:
        r = ok(P.parse(pattern.pattern, pattern.flags))
    except Exception:
        r = False
    _ctxfree[key] = r
    return r


def min_width(pattern):
    """REGEX-STRUCT fact (sre's own width computation): every match is at least this long"""
    import re._parser as P
    try:
        return int(P.parse(pattern.pattern, pattern.flags).getwidth()[0])
    except Exception:
        return 0


def match_at(I, pat, s, pos):
    """pattern.match(s, pos) for a context-free pattern: the match of the pattern on s[pos:], spans
    shifted by pos (a position outside the string is clamped, as `re` does)"""
    o = pat.obj if isinstance(pat, VConc) else pat
    if o is None or not context_free(o):
        raise Unsupported('Pattern.match with a start position (pattern looks outside its match)')
    used('re.Pattern.match(s, pos) == match on s[pos:] shifted by pos (pattern without anchors / look-around)')
    n = z3.Length(s)
    p = z3.If(pos < 0, z3.IntVal(0), z3.If(pos > n, n, pos))
    sub = z3.SubString(s, p, n - p)
    m0 = new_match(I, sub, o, 'match')
    I.assume(z3.Or(m0.nomatch, m0.start(0) == 0))
    w = min_width(o)
    if w > 0:
        I.assume(z3.Or(m0.nomatch, m0.end(0) - m0.start(0) >= w))
    st = lambda g: z3.If(m0.isnone(g), z3.IntVal(-1), m0.start(g) + p)     # noqa: E731
    en = lambda g: z3.If(m0.isnone(g), z3.IntVal(-1), m0.end(g) + p)       # noqa: E731
    m = VMatch(s, m0.ngroups, st, en, m0.isnone, dict(o.groupindex), 'match')
    m.nomatch = m0.nomatch
    m.is_bytes = m0.is_bytes
    return VOpt(m0.nomatch, m)


def pattern_method(I, pat, name, args, kwargs):
    used('re.Pattern.%s (abstract: result spans within the string; regex language trusted)' % name)
    if name in ('match', 'search', 'fullmatch'):
        s = strterm(args[0])
        if len(args) > 1:
            # pattern.search(s, 0, endpos): "as if the string is endpos characters long"
            pos = z3.simplify(as_int(args[1]))
            if not (z3.is_int_value(pos) and pos.as_long() == 0):
                if name == 'match' and len(args) == 2:
                    return match_at(I, pat, s, pos)
                raise Unsupported('Pattern.%s with a start position' % name)
            if len(args) > 2:
                s = str_slice(s, VSlice(NONE, args[2], NONE))
        m = new_match(I, s, pat, name)
        if name == 'match':
            I.assume(m.start(0) == 0)
        if name == 'fullmatch':
            I.assume(z3.And(m.start(0) == 0, m.end(0) == z3.Length(s)))
        isnone = m.nomatch
        fact = I.vc.regex_fact(I, pat, name, s, m)
        if fact is not None:
            I.assume(fact(isnone))
        return VOpt(isnone, m)
    if name == 'sub' and len(args) >= 2 and is_concrete(args[0]) and isinstance(concretise(args[0]), str):
        # pattern.sub(constant replacement, s): an uninterpreted function of the subject; exact
        # on constant subjects
        o = pat.obj if isinstance(pat, VConc) else pat
        subj = z3.simplify(strterm(args[1]))
        repl = concretise(args[0])
        if o is not None and z3.is_string_value(subj):
            return VStr(o.sub(repl, decode_z3_string(subj.as_string())))
        import hashlib
        key = hashlib.md5(('%s|%s' % (getattr(o, 'pattern', id(pat)), repl)).encode()).hexdigest()[:10]
        f = z3.Function('re_sub_' + key, z3.StringSort(), z3.StringSort())
        for ch in (mandatory_literals(o) if o is not None else []):
            # REGEX-STRUCT fact: every match contains this literal, so a subject without it has no
            # match and is returned as it is
            I.assume(z3.Implies(z3.Not(z3.Contains(subj, z3.StringVal(ch))), f(subj) == subj))
        return VStr(f(subj))
    if name in ('subn', 'sub') and len(args) >= 2:
        # pattern.subn(callable-or-text, s): an uninterpreted function of the subject, which is the
        # subject itself when the pattern has no match; REGEX-STRUCT fact: a pattern whose every match
        # contains a given literal character has no match in a string without that character
        o = pat.obj if isinstance(pat, VConc) else pat
        subj = strterm(args[1])
        nomatch, _, _, _ = match_functions(o, 'search')
        for ch in mandatory_literals(o):
            I.assume(z3.Implies(z3.Not(z3.Contains(subj, z3.StringVal(ch))), nomatch(subj)))
        import hashlib
        key = hashlib.md5(('%s|%r' % (getattr(o, 'pattern', id(pat)), type(args[0]).__name__)).encode()).hexdigest()[:10]
        f = z3.Function('re_subfn_' + key, z3.StringSort(), z3.StringSort())
        n = z3.Function('re_subcount_' + key, z3.StringSort(), z3.IntSort())
        out = VStr(z3.If(nomatch(subj), subj, f(subj)))
        if name == 'sub':
            return out
        return VTuple([out, VInt(z3.If(nomatch(subj), z3.IntVal(0), n(subj)))])
    raise Unsupported('Pattern.%s' % name)


_mandlit = {}


def mandatory_literals(pattern):
    """literal characters that occur in EVERY match of the pattern: LITERAL items on the spine
    (sequence / groups / repeats with minimum >= 1), case-sensitive patterns only"""
    if pattern is None or (pattern.flags & _re.IGNORECASE):
        return []
    key = (pattern.pattern, pattern.flags)
    if key in _mandlit:
        return _mandlit[key]
    import re._constants as C
    import re._parser as P
    out = []

    def walk(sp):
        for op, av in sp.data:
            if op is C.LITERAL:
                out.append(chr(av))
            elif op is C.SUBPATTERN:
                walk(av[3])
            elif op in (C.MAX_REPEAT, C.MIN_REPEAT, C.POSSESSIVE_REPEAT) and av[0] >= 1:
                walk(av[2])
    try:
        p = pattern.pattern
        walk(P.parse(p.decode('latin-1') if isinstance(p, bytes) else p, pattern.flags))
    except Exception:
        out = []
    _mandlit[key] = sorted(set(out))
    return _mandlit[key]


# ---------------------------------------------------------------------------
# codecs (trusted axioms; conformance-tested in pyvc/conformance.py)
# ---------------------------------------------------------------------------
f_decode = z3.Function('bytes_decode', z3.StringSort(), z3.StringSort(), z3.StringSort())

BOMS = {
    'utf-8': '\xef\xbb\xbf', 'utf-16-le': '\xff\xfe', 'utf-16-be': '\xfe\xff',
    'utf-32-le': '\xff\xfe\x00\x00', 'utf-32-be': '\x00\x00\xfe\xff',
}
# codecs that keep a leading BOM as U+FEFF in the decoded text
BOM_KEEPING = ('utf-16-le', 'utf-16-be', 'utf-32-le', 'utf-32-be', 'utf-8')
# codec -> [(bom bytes, codec that decodes the rest)]  (BOM is consumed)
BOM_STRIPPING = {
    'utf-8-sig': [(BOMS['utf-8'], 'utf-8')],
    'utf-16': [(BOMS['utf-16-le'], 'utf-16-le'), (BOMS['utf-16-be'], 'utf-16-be')],
    'utf-32': [(BOMS['utf-32-le'], 'utf-32-le'), (BOMS['utf-32-be'], 'utf-32-be')],
}


def decode_axioms(I, enc, b):
    """facts about bytes.decode(enc) for the byte string b (enc a python str)"""
    e = z3.StringVal(enc)
    n = z3.Length(b)
    if enc in BOM_KEEPING:
        bom = z3.StringVal(BOMS[enc])
        k = len(BOMS[enc])
        I.assume(z3.Implies(z3.PrefixOf(bom, b),
                            f_decode(e, b) == z3.Concat(z3.StringVal('\ufeff'),
                                                        f_decode(e, z3.SubString(b, k, n - k)))))
    if enc in BOM_STRIPPING:
        for bomtxt, rest_enc in BOM_STRIPPING[enc]:
            bom = z3.StringVal(bomtxt)
            k = len(bomtxt)
            cond = z3.PrefixOf(bom, b)
            if enc == 'utf-16' and rest_enc == 'utf-16-le':
                pass
            I.assume(z3.Implies(cond, f_decode(e, b) ==
                                f_decode(z3.StringVal(rest_enc), z3.SubString(b, k, n - k))))
        if enc == 'utf-8-sig':
            I.assume(z3.Implies(z3.Not(z3.PrefixOf(z3.StringVal(BOMS['utf-8']), b)),
                                f_decode(e, b) == f_decode(z3.StringVal('utf-8'), b)))


def decode_model(I, recv, args, kwargs):
    from .interp import Raised
    used('bytes.decode (uninterpreted per codec + BOM axioms)')
    b = recv.t
    enc = args[0] if args else kwargs.get('encoding', VStr('utf-8'))
    errors = concretise(args[1]) if len(args) > 1 else 'strict'
    et = strterm(enc)
    ascii_compatible = is_concrete(enc) and str(concretise(enc)).lower().replace('_', '-') in (
        'ascii', 'us-ascii', 'utf-8', 'utf8', 'latin-1', 'latin1', 'iso-8859-1')
    if errors == 'strict' and I.spec_mode == 0:
        which = I.path.choose(2, 'decode')
        if which == 1:
            if ascii_compatible:
                I.assume(z3.Not(z3.InRe(b, ASCII_STAR)))
            raise Raised(VExc(UnicodeDecodeError, []))
    if ascii_compatible and errors == 'strict':
        I.assume(z3.Implies(z3.InRe(b, ASCII_STAR), f_decode(et, b) == b))
    if is_concrete(enc):
        decode_axioms(I, concretise(enc), b)
    else:
        if I.spec_mode == 0:
            which = I.path.choose(2, 'codec-known')
            if which == 1:
                raise Raised(VExc(LookupError, [VStr('unknown encoding')]))
    if errors != 'strict':
        f = z3.Function('bytes_decode_' + errors, z3.StringSort(), z3.StringSort(), z3.StringSort())
        return VStr(f(et, b))
    return VStr(f_decode(et, b))
