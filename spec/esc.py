"""Spec functions for escaping (C02).  Per-character goals (rule HOM, DESIGN.md 2.7): R is what
the routine returns when the value's string form is the single character c."""
from spec.prim_concrete import *  # noqa: F401,F403


def entity_of(q):
    """the entity compiler._convert_text passes for quote character q (utils.char2entity)"""
    return '&quot;' if q == '"' else '&#39;' if q == "'" else '&#0;'


def g1_no_raw_markup(R, quote):
    """no raw '<' or '>' and not the attribute's own quote character"""
    return ('<' not in R and '>' not in R
            and (quote is None or quote == '\0' or quote not in R))


def g2_amp_discipline(R, c, quote, quote_entity):
    """every '&' in R starts one of the four known entities: R is the unchanged character
    (which is then not '&') or exactly one entity block"""
    return ((R == c and c != '&') or R == '&amp;' or R == '&lt;' or R == '&gt;'
            or (quote is not None and R == quote_entity))


def g3_roundtrip(R, c, quote, quote_entity):
    """un-escaping R gives back c (block by block; blocks are uniquely decodable because each
    starts with '&', ends with ';' and a raw '&' never survives)"""
    return ((R != '&amp;' or c == '&') and (R != '&lt;' or c == '<') and (R != '&gt;' or c == '>')
            and (quote is None or R != quote_entity or c == quote)
            and (R == '&amp;' or R == '&lt;' or R == '&gt;'
                 or (quote is not None and R == quote_entity) or R == c))
