"""B-SPLIT (bounded stand-in, never counted as proved): tal.split_parts -- the ';'-separated parts
of a tal:define / tal:attributes value with ';;' as the escape for a literal semicolon -- against an
independent left-to-right specification.

Spec: scanning left to right, an entity reference (as ENTITY_RE matches it) is literal text
including its final ';'; ';;' is a literal ';'; any other ';' ends the current part.  A blank last
part after a separator is dropped.  Each part is a Token whose position is the offset at which its
text begins in the source (C11).

usage: split.py <repo> <maxlen> -> one JSON line.  Runs under /venv/bin/python."""
import itertools
import json
import os
import sys


def spec(s, entity_re, starts=None):
    """-> part texts; `starts` (a list) receives the offset in s at which each part's text begins"""
    parts, cur, i = [], '', 0
    begin = 0
    while i < len(s):
        m = entity_re.match(s, i)
        if m is not None and m.end() > i:
            cur += m.group()
            i = m.end()
            continue
        if s.startswith(';;', i):
            cur += ';'
            i += 2
            continue
        if s[i] == ';':
            parts.append(cur)
            if starts is not None:
                starts.append(begin)
            cur = ''
            i += 1
            begin = i
            continue
        cur += s[i]
        i += 1
    parts.append(cur)
    if starts is not None:
        starts.append(begin)
    if len(parts) > 1 and not parts[-1].strip():
        del parts[-1]
        if starts is not None:
            del starts[-1]
    return parts


def main():
    repo, maxlen = sys.argv[1], int(sys.argv[2])
    sys.path.insert(0, os.path.join(repo, 'src'))
    from chameleon import tal
    from chameleon.tokenize import Token
    pieces = [';', 'a', ' ', '&amp;', '&', '#1']
    cases = 0
    bad = None
    for n in range(0, maxlen + 1):
        for t in itertools.product(pieces, repeat=n):
            s = ''.join(t)
            cases += 1
            starts = []
            want = spec(s, tal.ENTITY_RE, starts)
            try:
                real = tal.split_parts(Token(s, 7, 'tal:x="' + s + '"'))
                got = [str.__str__(p) for p in real]
            except Exception as e:  # noqa
                real, got = None, 'raised %r' % (e,)
            if got != want:
                bad = {'value': s, 'expected': want, 'observed': got}
                break
            # C11: every part is a token that starts where its text starts in the source (the value
            # stands at offset 7 of the source here)
            pos = [getattr(p, 'pos', None) for p in real]
            if pos != [7 + b for b in starts]:
                bad = {'value': s, 'expected': {'parts': want, 'positions': [7 + b for b in starts]},
                       'observed': {'parts': got, 'positions': pos}}
                break
        if bad:
            break
    print(json.dumps({'cases': cases, 'distinct': cases, 'violation': bad,
                      'bound': 'all concatenations of at most %d pieces from %r' % (maxlen, pieces)}))


if __name__ == '__main__':
    main()
