"""Concrete harness for utils.detect_encoding (replay / directed search)."""
META = b'<html><head><meta http-equiv="Content-Type" content="text/html; charset=cp1251"></head></html>'


def detect_encoding(body, default_encoding):
    from chameleon.utils import detect_encoding as f
    return f(body, default_encoding)


def gen_meta_docs():
    # sizes around the integer constants a windowed implementation would use
    for pad in (0, 1, 100, 1000, 1023, 1024, 1025, 2048, 4096, 8192, 65536, 100000):
        yield ({'body': b'<!-- ' + b'x' * pad + b' -->' + META, 'default_encoding': 'utf-8'}, {})
    yield ({'body': b'<html>no meta</html>', 'default_encoding': 'latin-1'}, {})
